"""compliant v3-style in-process simulator (class name shared with api_sims_b on purpose)"""
import mosaik_api_v3

LOG = []


class Simulator(mosaik_api_v3.Simulator):
    def __init__(self):
        super().__init__({"models": {"M": {"public": True, "params": [], "attrs": ["a"]}}})

    def init(self, sid, time_resolution=1.0, api_version=None, sim_type="time-based", **kw):
        LOG.append(("init", sid, {"time_resolution": time_resolution, **kw}))
        if api_version is not None:
            self.meta["api_version"] = api_version
        if sim_type is not None:
            self.meta["type"] = sim_type
        return self.meta

    def create(self, num, model):
        return [{"eid": f"e{i}", "type": model} for i in range(num)]

    def setup_done(self):
        LOG.append(("setup_done",))

    def step(self, time, inputs, max_advance="MISSING"):
        LOG.append(("step", time, max_advance))
        return time + 1

    def get_data(self, outputs):
        return {}
