"""Native replay runner -- executed by the REPOSITORY's interpreter (/venv/bin/python) with
PYTHONPATH=/verif:<repo>.  It imports the real mosaik package from the working tree and
the sidecar contract (spec functions evaluate natively: no z3 here) and

  * replays a counter-model of a refuted obligation against the real function
    (mode "model"),
  * searches the contract's small scope for a failing input of the real function
    (mode "search"),
  * replays the witness of a recorded known finding (mode "finding").

Input: one JSON request on stdin.  Output: one JSON object on stdout.
"""
import importlib
import json
import os
import sys
import traceback


def load(req):
    mod = importlib.import_module(req["module"])
    obj = getattr(mod, req["name"])
    return obj() if isinstance(obj, type) else obj


VERIF = os.path.dirname(os.path.dirname(os.path.abspath(__file__)))


def classify(e):
    """an exception escaping native_call: raised by the REAL code (the contract allows no such
    exception -> 'fails') or by the replay harness itself under /verif ('error')?"""
    tb = e.__traceback__
    last = None
    while tb is not None:
        last = tb.tb_frame.f_code.co_filename
        tb = tb.tb_next
    if last and os.path.abspath(last).startswith(VERIF):
        return "error", f"replay harness error: {type(e).__name__}: {e} | {traceback.format_exc(limit=4)}"
    return "fails", f"unexpected {type(e).__name__}: {e} (raised in {last}) | {traceback.format_exc(limit=3)}"


def main():
    req = json.load(sys.stdin)
    out = {"mode": req["mode"]}
    try:
        import mosaik
        out["mosaik_file"] = mosaik.__file__
        try:
            from loguru import logger
            logger.remove()
        except Exception:
            pass
        target = load(req)
        fn = getattr(target, "native_call", None) or getattr(target, "native_check", None)
        if req["mode"] == "model":
            if fn is None:
                out.update(status="no-native-replay", desc="contract has no native_call")
            else:
                try:
                    holds, desc = fn(req["model"])
                    st = "holds" if holds else "fails"
                except BaseException as e:  # noqa: BLE001  (also CancelledError / KeyboardInterrupt / SystemExit from the code under test)
                    st, desc = classify(e)
                out.update(status=st, desc=str(desc), model=req["model"])
        elif req["mode"] == "search":
            gen = getattr(target, "native_search", None)
            if fn is None or gen is None:
                out.update(status="no-native-search", desc="contract has no native_search")
            else:
                n = 0
                out.update(status="holds", desc="")
                for m in gen(req.get("budget", 20000)):
                    n += 1
                    try:
                        holds, desc = fn(m)
                    except BaseException as e:  # noqa: BLE001  (also CancelledError / KeyboardInterrupt / SystemExit from the code under test)
                        st, desc = classify(e)
                        if st == "error":
                            out.update(status="error", desc=str(desc), model=m)
                            break
                        holds = False
                    if not holds:
                        out.update(status="fails", desc=str(desc), model=m)
                        break
                out["tried"] = n
        elif req["mode"] == "bounded":
            # a bounded stand-in: target(tier, seed) -> {"bound": str, "cases": int, "failures": [{"desc":..,"case":..}]}
            r = target(req.get("tier", "quick"), req.get("seed", 0))
            out.update(status="fails" if r.get("failures") else "holds", **r)
        elif req["mode"] == "finding":
            # target is a function m -> (still_fails, desc)
            still, desc = target(req["model"])
            out.update(status="fails" if still else "holds", desc=str(desc), model=req["model"])
        else:
            out.update(status="error", desc="unknown mode")
    except BaseException as e:  # noqa: BLE001  (also CancelledError / KeyboardInterrupt / SystemExit from the code under test)
        out.update(status="error", desc=f"{type(e).__name__}: {e}", tb=traceback.format_exc())
    sys.stdout.write("\n@@PYVC-JSON@@\n")     # (code under test may print to stdout)
    json.dump(out, sys.stdout, default=str)


if __name__ == "__main__":
    main()
