"""legacy in-process simulator: init without time_resolution, step without max_advance"""
import mosaik_api_v3

LOG = []


class Simulator(mosaik_api_v3.Simulator):
    def __init__(self):
        super().__init__({"models": {"M": {"public": True, "params": [], "attrs": ["a"]}}})

    def init(self, sid, api_version=None, sim_type=None):
        LOG.append(("init", sid, {}))
        if api_version is not None:
            self.meta["api_version"] = api_version
        if sim_type is not None:
            self.meta["type"] = sim_type
        return self.meta

    def create(self, num, model):
        return [{"eid": f"e{i}", "type": model} for i in range(num)]

    def setup_done(self):
        LOG.append(("setup_done",))

    def step(self, time, inputs):
        LOG.append(("step", time))
        return time + 1

    def get_data(self, outputs):
        return {}
