"""Small in-process simulators for native witnesses of recorded findings (run under /venv/bin/python)."""
import copy
import mosaik_api_v3

META = {"api_version": "3.0", "type": "time-based",
        "models": {"A": {"public": True, "params": [], "attrs": ["val_in", "val_out"]}}}
LOG = []


class Sim(mosaik_api_v3.Simulator):
    def __init__(self):
        super().__init__(copy.deepcopy(META))

    def init(self, sid, time_resolution, step_type="time-based", step_size=1, self_steps=None, out=None):
        self.sid, self.step_type, self.step_size = sid, step_type, step_size
        self.self_steps, self.out = self_steps or {}, out
        self.meta["type"] = step_type
        return self.meta

    def create(self, num, model):
        return [{"eid": "e", "type": model}]

    def step(self, time, inputs, max_advance):
        LOG.append((self.sid, time, copy.deepcopy(inputs), max_advance))
        self.time = time
        if self.step_type == "time-based":
            return time + self.step_size
        return self.self_steps.get(time)

    def get_data(self, outputs):
        if self.out is None:
            return {"e": {"val_out": self.time}}
        if self.time in self.out:
            return {"time": self.out[self.time], "e": {"val_out": self.time}}
        return {}


def inputs_of(sid):
    return [(t, sorted((k, v) for k, v in i.get("e", {}).get("val_in", {}).items())) for (s, t, i, m) in LOG if s == sid]
