"""A deterministic test simulator as a separate process (remote transport): the same behaviour functions as the in-process
simulators of contracts/determinism_native.py.  Started by mosaik through 'cmd'; PYTHONPATH carries /verif and the repo.
  python remote_sim.py <spec json> <trace file> <fault json or -> <addr>
"""
import json
import os
import sys

import mosaik_api_v3

sys.path.insert(0, os.path.dirname(os.path.dirname(os.path.abspath(__file__))))
from contracts.determinism_native import _meta, behave, produce  # noqa: E402


def main():
    spec = json.loads(sys.argv[1])
    trace_file = sys.argv[2]
    fault = None if sys.argv[3] == "-" else json.loads(sys.argv[3])
    counters = {"step": 0, "get_data": 0, "setup_done": 0}

    def maybe_fail(method):
        k = counters[method]
        counters[method] += 1
        if fault and fault["method"] == method and fault["index"] == k:
            with open(trace_file, "a") as fh:
                fh.write(json.dumps(["fault", method, k]) + "\n")
            os._exit(3)

    class Sim(mosaik_api_v3.Simulator):
        def __init__(self):
            super().__init__(_meta(spec["type"]))
            self.st = {"val": 0, "time": -1, "count": 0}

        def init(self, sid, time_resolution=1.0, **kw):
            return self.meta

        def create(self, num, model, **kw):
            return [{"eid": f"e{i}", "type": model} for i in range(num)]

        def setup_done(self):
            maybe_fail("setup_done")

        def step(self, time, inputs, max_advance):
            maybe_fail("step")
            with open(trace_file, "a") as fh:
                fh.write(json.dumps(["step", time, json.dumps(inputs, sort_keys=True)]) + "\n")
            self.st, nxt = behave(spec, self.st, time, inputs)
            return nxt

        def get_data(self, outputs):
            maybe_fail("get_data")
            out = {}
            for eid, attrs in outputs.items():
                d, _ = produce(spec, self.st, attrs)
                if d:
                    out[eid] = d
            if spec["type"] != "time-based":
                out["time"] = self.st["time"] + spec.get("out_shift", 0)
            return out

        def finalize(self):
            with open(trace_file, "a") as fh:
                fh.write(json.dumps(["finalize"]) + "\n")

    sys.argv = [sys.argv[0], sys.argv[4]]
    mosaik_api_v3.start_simulation(Sim())


if __name__ == "__main__":
    main()
