"""Native witnesses of recorded known findings (each returns (still_fails, description))."""
import os
import sys

sys.path.insert(0, os.path.dirname(os.path.abspath(__file__)))


def _world(cache=True, **kw):
    import mosaik
    from loguru import logger
    logger.remove()
    return mosaik.World({"S": {"python": "sims:Sim"}}, skip_greetings=True, cache=cache, **kw)


def finding_F4_prune(m):
    """slow producer (step size 5), fast consumer over a time-shifted connection: with the cache on the
    consumer's input at t = 5 should be the producer's value of step 0 (due at 1..5), but the entry was
    pruned: None.  With cache off it is 0."""
    import sims
    res = {}
    for cache in (True, False):
        sims.LOG.clear()
        w = _world(cache)
        a = w.start("S", sim_id="A", step_size=5).A()
        b = w.start("S", sim_id="B", step_size=1).A()
        w.connect(a, b, ("val_out", "val_in"), time_shifted=1, initial_data={"val_out": -1})
        w.run(until=6, print_progress=False)
        res[cache] = dict(sims.inputs_of("B"))
    at5 = (res[True].get(5), res[False].get(5))
    return at5[0] != at5[1] or at5[0] != [("A.e", 0)], f"consumer input at t=5: cache on {at5[0]}, cache off {at5[1]}, expected [('A.e', 0)]"
