"""Native witnesses of recorded known findings (each returns (still_fails, description))."""
import os
import sys

sys.path.insert(0, os.path.dirname(os.path.abspath(__file__)))


def _world(cache=True, **kw):
    import mosaik
    from loguru import logger
    logger.remove()
    return mosaik.World({"S": {"python": "sims:Sim"}}, skip_greetings=True, cache=cache, **kw)


def finding_F4_prune(m):
    """slow producer (step size 5), fast consumer over a time-shifted connection: with the cache on the
    consumer's input at t = 5 should be the producer's value of step 0 (due at 1..5), but the entry was
    pruned: None.  With cache off it is 0."""
    import sims
    res = {}
    for cache in (True, False):
        sims.LOG.clear()
        w = _world(cache)
        a = w.start("S", sim_id="A", step_size=5).A()
        b = w.start("S", sim_id="B", step_size=1).A()
        w.connect(a, b, ("val_out", "val_in"), time_shifted=1, initial_data={"val_out": -1})
        w.run(until=6, print_progress=False)
        res[cache] = dict(sims.inputs_of("B"))
    at5 = (res[True].get(5), res[False].get(5))
    return at5[0] != at5[1] or at5[0] != [("A.e", 0)], f"consumer input at t=5: cache on {at5[0]}, cache off {at5[1]}, expected [('A.e', 0)]"


def _f6_sim_class():
    import mosaik_api_v3
    meta = {"api_version": "3.0", "type": "hybrid",
            "models": {"M": {"public": True, "params": [], "attrs": ["x", "i"], "trigger": ["i"], "non-persistent": ["x"]}}}

    class F6Sim(mosaik_api_v3.Simulator):
        def __init__(self):
            super().__init__(meta)

        def init(self, sid, time_resolution=1.0, **kw):
            return self.meta

        def create(self, num, model, **kw):
            return [{"eid": f"e{i}", "type": model} for i in range(num)]

        def step(self, time, inputs, max_advance):
            self.t = time
            return time + 1

        def get_data(self, outputs):
            return {"time": self.t}
    return F6Sim



def finding_F6_incomparable(m):
    """an ACYCLIC scenario -- x outside a group, u, v, a inside it; u -> v, u -> x, x -> a, a -> v (weak) -- has two
    trigger paths u ~> v whose accumulated delays have different cut-offs (one stays in the group, one leaves and
    re-enters it): the closure compares them and TieredInterval.__lt__ asserts 'incomparable' (the partial order of
    F11 / K_mixed).  run() dies with AssertionError before any step."""
    import warnings
    import mosaik
    from loguru import logger
    import types
    mod = types.ModuleType("_f6_sims")
    mod.F6Sim = _f6_sim_class()
    sys.modules["_f6_sims"] = mod
    logger.remove()
    warnings.simplefilter("ignore")
    w = mosaik.World({"D": {"python": "_f6_sims:F6Sim"}}, skip_greetings=True)
    try:
        x = w.start("D").M()
        with w.group():
            u, v, a = w.start("D").M(), w.start("D").M(), w.start("D").M()
        w.connect(u, v, ("x", "i"))
        w.connect(u, x, ("x", "i"))
        w.connect(x, a, ("x", "i"))
        w.connect(a, v, ("x", "i"), weak=True)
        try:
            w.run(until=3, print_progress=False)
            return False, "the scenario ran to completion"
        except AssertionError as e:
            return True, f"run() of the acyclic scenario died with AssertionError({str(e)[:80]})"
    finally:
        if not w.loop.is_closed():
            w.shutdown()


def finding_F17_rt_step0(m):
    """real-time mode: rt_check compares the wall clock after the step for time t with rt_factor * t; for t = 0 the
    deadline is 0 s after the start, so the step at time 0 is ALWAYS 'too slow' -- one warning per simulator that
    steps at 0 even when it answers instantly, and with rt_strict=True every real-time run ends in RuntimeError."""
    import types
    import warnings
    import mosaik
    import mosaik_api_v3
    from loguru import logger
    logger.remove()
    warnings.simplefilter("ignore")
    meta = {"api_version": "3.0", "type": "time-based", "models": {"M": {"public": True, "params": [], "attrs": ["x"]}}}

    class Sim(mosaik_api_v3.Simulator):
        def __init__(self):
            super().__init__(meta)

        def init(self, sid, time_resolution=1.0, **kw):
            return self.meta

        def create(self, num, model, **kw):
            return [{"eid": f"e{i}", "type": model} for i in range(num)]

        def step(self, time, inputs, max_advance):
            return time + 1

        def get_data(self, outputs):
            return {}
    mod = types.ModuleType("_f17_sims")
    mod.Sim = Sim
    sys.modules["_f17_sims"] = mod
    w = mosaik.World({"D": {"python": "_f17_sims:Sim"}}, skip_greetings=True)
    try:
        w.start("D").M()
        try:
            w.run(until=2, rt_factor=0.05, rt_strict=True, print_progress=False)
            return False, "an instantly answering simulator completed a strict real-time run"
        except RuntimeError as e:
            return True, f"instantly answering simulator, rt_factor=0.05, rt_strict=True: RuntimeError({str(e)[:60]}) at the step for time 0"
    finally:
        if not w.loop.is_closed():
            w.shutdown()
