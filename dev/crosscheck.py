#!/usr/bin/env python3-vt
"""CPython cross-check of the pyvc encoder (DESIGN 5.7): the symbolic executor is run on CONCRETE inputs of real functions of
/repo and its result (value or exception class) is compared with what CPython computes by executing the same source text.
Functions: the pure integer / tuple code of mosaik/tiered_time.py and update_min (the subset whose values the encoder represents
concretely).  Any disagreement is a defect of the encoder's Python-semantics rules.  usage: dev/crosscheck.py [n_cases]"""
import ast, itertools, os, random, sys, types
sys.path.insert(0, os.path.dirname(os.path.dirname(os.path.abspath(__file__))))
import z3
from pyvc import extract
from pyvc.session import Session
from pyvc.interp import Interp, PathCtx, PyRaise, PathEnd
from pyvc.values import SymObj, SymSeq, simp, Unsupported

REPO = os.environ.get("VERIF_REPO", "/repo")


def native_module():
    """tiered_time.py executed by CPython from the same file the encoder reads (no third-party imports needed)"""
    # (CROSSCHECK_NATIVE_REPO: self-test of this script -- let CPython run ANOTHER tree than the encoder reads: must disagree)
    src = open(os.path.join(os.environ.get("CROSSCHECK_NATIVE_REPO", REPO), "mosaik", "tiered_time.py")).read()
    mod = types.ModuleType("tt_native")
    sys.modules["tt_native"] = mod          # (dataclasses looks the module up)
    exec(compile(src, "tiered_time.py", "exec"), mod.__dict__)
    return mod


def to_py(v):
    v = simp(v)
    if isinstance(v, SymSeq):
        n = simp(v.length)
        assert isinstance(n, int), "symbolic length in a concrete run"
        return tuple(to_py(v.get(i)) for i in range(n))
    if isinstance(v, (tuple, list)):
        return tuple(to_py(x) for x in v)
    if isinstance(v, SymObj):
        return (v.cls.name,) + tuple((k, to_py(x)) for k, x in sorted(v.fields.items()))
    if z3.is_expr(v):
        raise AssertionError(f"symbolic value {v} in a concrete run")
    return v


def nat_to_py(v):
    if type(v).__name__ in ("TieredInterval", "TieredTime"):
        return (type(v).__name__,) + tuple((k, nat_to_py(getattr(v, k))) for k in sorted(("tiers", "cutoff", "pre_length") if type(v).__name__ == "TieredInterval" else ("tiers",)))
    if isinstance(v, (tuple, list)):
        return tuple(nat_to_py(x) for x in v)
    return v


def sym_run(sess, qual, args):
    fn = extract.find(qual)
    worklist, sink = [[]], []
    p = PathCtx(worklist.pop(), worklist, sink)
    it = Interp(p, sess)
    try:
        return ("value", to_py(it.call_function(fn, args, {})))
    except PyRaise as e:
        return ("raise", e.cls)


def main(n):
    random.seed(int(os.environ.get("VERIF_SEED", "0")))
    nat = native_module()
    sess = Session(2000)
    TI = extract.find("mosaik.tiered_time.TieredInterval")
    TT = extract.find("mosaik.tiered_time.TieredTime")

    def mk_ti(tiers, cutoff, pre):
        return SymObj(TI, {"tiers": tuple(tiers), "cutoff": cutoff, "pre_length": pre}, frozen=True), nat.TieredInterval(*tiers, cutoff=cutoff, pre_length=pre)

    def mk_tt(tiers):
        return SymObj(TT, {"tiers": tuple(tiers)}, frozen=True), nat.TieredTime(*tiers)

    def rnd_ti():
        ln = random.randint(1, 3)
        cut = random.randint(1, ln)
        pre = random.randint(cut, 3)
        return mk_ti([random.randint(0, 2) for _ in range(ln)], cut, pre)

    cases = bad = skipped = 0
    problems = []

    def compare(name, qual, sargs, nfun):
        nonlocal cases, bad, skipped
        try:
            s = sym_run(sess, qual, sargs)
        except Unsupported as e:
            skipped += 1
            return
        try:
            r = ("value", nat_to_py(nfun()))
        except Exception as e:  # noqa: BLE001
            r = ("raise", type(e).__name__)
        cases += 1
        if s != r:
            bad += 1
            if len(problems) < 5:
                problems.append(f"{name}: encoder {s} vs CPython {r}")

    for _ in range(n):
        (sa, na), (sb, nb) = rnd_ti(), rnd_ti()
        compare(f"{na!r} + {nb!r}", "mosaik.tiered_time.TieredInterval.__add__", [sa, sb], lambda: na + nb)
        compare(f"{na!r} < {nb!r}", "mosaik.tiered_time.TieredInterval.__lt__", [sa, sb], lambda: na < nb)
        st, nt = mk_tt([random.randint(0, 3) for _ in range(random.randint(1, 3))])
        compare(f"{nt!r} + {na!r}", "mosaik.tiered_time.TieredTime.__add__", [st, sa], lambda: nt + na)
        su, nu = mk_tt([random.randint(0, 3) for _ in range(len(nt.tiers))])
        compare(f"{nt!r} < {nu!r}", "mosaik.tiered_time.TieredTime.__lt__", [st, su], lambda: nt < nu)
        x, y = tuple(random.randint(-2, 2) for _ in range(random.randint(0, 3))), tuple(random.randint(-2, 2) for _ in range(random.randint(0, 3)))
        compare(f"tuple_add({x}, {y})", "mosaik.tiered_time.tuple_add", [x, y], lambda: nat.tuple_add(x, y))
    print(f"crosscheck: {cases} concrete runs compared, {bad} disagreements, {skipped} outside the concrete subset")
    for p_ in problems:
        print("  ", p_)
    return 1 if bad else 0


if __name__ == "__main__":
    sys.exit(main(int(sys.argv[1]) if len(sys.argv) > 1 else 300))
