#!/bin/sh
# dev aid: apply a textual replacement to one file in a scratch copy of /repo and run a check
# usage: dev/mut.sh <relative file> <old> <new> <Cxx> [tier]
F="$1"; OLD="$2"; NEW="$3"; C="$4"; T="${5:-quick}"
D=$(mktemp -d /tmp/scr_XXXXXX)
trap 'rm -rf "$D"' EXIT
rsync -a --exclude .git --exclude __pycache__ /repo/ "$D/"
python3 - "$D/$F" "$OLD" "$NEW" <<'PY' || exit 9
import sys
p, old, new = sys.argv[1:4]
s = open(p).read()
n = s.count(old)
if n != 1:
    print(f"pattern occurs {n} times"); sys.exit(1)
open(p, 'w').write(s.replace(old, new))
PY
cd /verif
VERIF_REPO="$D" bin/vcheck "$C" --tier "$T"
echo "exit=$?"
