#!/bin/sh
# confirm a seeded change produced by a sub-agent in $SEED_SRC (default /tmp/wt7_out)/<Cxx>-m<k>/ and store it under /verif/seeded/<Cxx>-m<k>/
# usage: dev/confirm_seed7.sh C01 7
C="$1"; K="$2"
SRC=${SEED_SRC:-/tmp/wt7_out}/$C-m$K
DST=/verif/seeded/$C-m$K
[ -f "$SRC/patch.diff" ] || { echo "$C m$K: no diff"; exit 2; }
D=$(mktemp -d /tmp/seedchk_XXXXXX)
trap 'rm -rf "$D"' EXIT
rsync -a --exclude .git --exclude __pycache__ --exclude out /repo/ "$D/repo/"
mkdir -p "$D/demo"; cp -r "$SRC"/. "$D/demo/"
cd "$D/repo"
(cd "$D/repo" && PYTHONPATH="$D/repo" timeout 300 /venv/bin/python "$D/demo/demo.py" >"$D/clean.out" 2>&1); RC_CLEAN=$?
patch --dry-run -s -p1 < "$SRC/patch.diff" >/dev/null || { echo "$C m$K: diff does not apply"; exit 3; }
patch -s -p1 < "$SRC/patch.diff"
(cd "$D/repo" && PYTHONPATH="$D/repo" timeout 300 /venv/bin/python "$D/demo/demo.py" >"$D/mut.out" 2>&1); RC_MUT=$?
TESTS=$(cd "$D/repo" && PYTHONPATH="$D/repo" timeout 900 /venv/bin/python -m pytest -q -p no:cacheprovider --timeout=900 2>&1 | tail -1)
echo "$C m$K: demo clean rc=$RC_CLEAN, demo mutated rc=$RC_MUT, tests: $TESTS"
case "$TESTS" in *"233 passed"*) ;; *) echo "$C m$K: REJECT (tests)"; exit 4;; esac
[ "$RC_CLEAN" = 0 ] && [ "$RC_MUT" = 1 ] || { echo "$C m$K: REJECT (demo)"; tail -5 "$D/clean.out" "$D/mut.out"; exit 5; }
mkdir -p "$DST"
cp -r "$SRC"/. "$DST/"
rm -rf "$DST/__pycache__"
python3 - "$C" "$K" "$DST" "$TESTS" <<'PY'
import json, sys, re, os
c, k, dst, tests = sys.argv[1:5]
notes = open(dst + "/notes.md").read() if os.path.exists(dst + "/notes.md") else ""
diff = open(dst + "/patch.diff").read()
files = sorted(set(re.findall(r"^\+\+\+ b/(\S+)", diff, re.M)))
json.dump({"property": c, "id": f"{c}-m{k}", "files": files,
           "needs_to_manifest": notes.strip()[:1500],
           "confirmed": {"tests_with_change": tests.strip(), "demo_with_change_exit": 1, "demo_clean_exit": 0,
                         "how": "scratch copy of /repo HEAD (with all fix: commits), patch applied, full suite + demo; demo re-run on the clean copy"},
           "origin": "independent sub-agent given only the property text and its own scratch worktree (round 7)"},
          open(dst + "/meta.json", "w"), indent=1)
PY
echo "$C m$K: stored in $DST"
