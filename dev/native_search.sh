#!/bin/sh
# usage: natsearch.sh <repo> <module> <name>
echo "{\"module\":\"$2\",\"name\":\"$3\",\"mode\":\"search\",\"budget\":5000}" | PYTHONPATH=/verif:$1 /venv/bin/python /verif/native/replay.py | tail -1 | cut -c1-600
