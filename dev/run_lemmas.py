import sys, importlib
from pyvc import run as R
m = importlib.import_module(sys.argv[1])
for l in m.LEMMAS:
    out = R.run_lemma(l, 10000, getattr(m, l.configure) if getattr(l, "configure", None) else None)
    print(out["task"], out["error"], out["info"], [(r["status"], r["solver"], r["secs"]) for r in out["results"]])
