#!/usr/bin/env python3
"""regenerates MANIFEST.json from props/*.py metadata (dev aid; MANIFEST.json is committed)"""
import importlib, json, os, sys
sys.path.insert(0, os.path.dirname(os.path.dirname(os.path.abspath(__file__))))
props = [json.loads(l) for l in open("properties.jsonl")]
checks, na = [], []
for p in props:
    pid = p["id"]
    try:
        M = importlib.import_module(f"props.{pid}")
    except ModuleNotFoundError:
        M = None
    if M is None or getattr(M, "CLAIMED", True) is False:
        reason = getattr(M, "NA_REASON", "check not built yet in this round (work in progress; see DESIGN.md section 8)")
        na.append({"property_id": pid, "reason": reason})
        continue
    checks.append({
        "property_id": pid,
        "quick_cmd": f"bin/vcheck {pid} --tier quick",
        "thorough_cmd": f"bin/vcheck {pid} --tier thorough",
        "evidence_file": f"evidence/{pid}.json",
        "replay_cmd_template": "bin/vcheck --replay {path}",
        "engine": "pyvc",
        "level_claimed": {"category": getattr(M, "LEVEL", "proof"), "text": M.LEVEL_TEXT, "design_ref": M.DESIGN_REF},
        "level_note": M.LEVEL_NOTE,
        "technique": M.TECHNIQUE,
    })
man = {
    "version": 1,
    "setup_cmd": "bin/setup",
    "hooks": {
        "guard": "MOSAIK_VERIF",
        "enable": "no source hooks: contracts are sidecar files under /verif/contracts and the verified text is extracted from /repo by ast on every run; MOSAIK_VERIF is unused by /repo",
        "baseline_off_cmd": "cd /repo && /venv/bin/python -m pytest -ra -q -p no:cacheprovider --timeout=900 --continue-on-collection-errors",
        "source_commits": [],
        "add_only": True,
    },
    "engines": [{
        "name": "pyvc", "path": "pyvc/",
        "serves_properties": [c["property_id"] for c in checks],
        "kind_free_text": "contract-based deductive verification: self-written AST->z3 verification-condition generator over the real functions of /repo (sidecar contracts, loop invariants, lemmas), discharged by z3 with cvc5 as second back end; counter-models replayed natively against the real code",
    }],
    "checks": checks,
    "not_applicable": na,
    "notes": "Exit codes of bin/vcheck: 0 held, 1 violation (VIOLATION line), 2 undecided (unknown/timeout/unsupported construct; never reported as a violation), 3 checker error. Known findings: known_findings.json.",
}
json.dump(man, open("MANIFEST.json", "w"), indent=1)
print(len(checks), "checks;", len(na), "not applicable")
