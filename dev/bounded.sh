#!/bin/sh
# usage: bnd.sh <repo> <module> <func>
echo "{\"module\":\"$2\",\"name\":\"$3\",\"mode\":\"bounded\",\"tier\":\"quick\"}" | PYTHONPATH=/verif:$1 /venv/bin/python /verif/native/replay.py | tail -1 | cut -c1-900
