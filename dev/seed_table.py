#!/usr/bin/env python3
"""dev aid: (re)generate the seeded-changes table of DESIGN.md 13.6 from the outputs of dev/seeds.sh (later files override earlier)"""
import re, json, os, sys
os.chdir(os.path.dirname(os.path.dirname(os.path.abspath(__file__))))
files = ["out/seeds_matrix.txt", "out/seeds_m3.txt", "out/seeds_c05m3.txt", "out/seeds_m4b.txt", "out/seeds_c10m4.txt", "out/seeds_m5b.txt", "out/seeds_m6b.txt", "out/seeds_m15c.txt", "out/seeds_m6c.txt", "out/seeds_m7b.txt", "out/seeds_m8r.txt"]
rows = {}
for path in files:
    if not os.path.exists(path):
        continue
    cur = None
    for ln in open(path):
        m = re.match(r"(C\d\d-m\d) on (C\d\d): violations=(\d+) \(without replay: (\d+)\) undecided=(\d+) errors=(\d+) \| (.*?) \| exit=(\d)", ln)
        if m:
            cur = m.group(1)
            rows[cur] = {"prop": m.group(2), "viol": int(m.group(3)), "noinput": int(m.group(4)), "exit": int(m.group(8)), "first": ""}
        elif cur and "VIOLATION" in ln and not rows[cur]["first"]:
            rows[cur]["first"] = os.path.basename(ln.split("replay=")[1].split()[0]).replace(".json", "")
out = ["| change | file(s) | what it does (one line) | own check | violations (with failing input) | first failed obligation |", "|---|---|---|---|---|---|"]
for sid in sorted(rows):
    r = rows[sid]
    meta = json.load(open(f"seeded/{sid}/meta.json"))
    note = meta.get("needs_to_manifest", "")
    line = next((l for l in note.splitlines() if l.strip() and not l.startswith("#")), note[:100])
    title = next((l.lstrip("# ").strip() for l in note.splitlines() if l.startswith("#")), "")
    desc = (title or line)[:140].replace("|", "/")
    fl = ", ".join(f.replace("mosaik/", "") for f in meta.get("files", []))
    verdict = {1: "VIOLATION", 0: "held (missed)", 2: "undecided", 3: "checker error"}[r["exit"]]
    out.append(f"| {sid} | {fl} | {desc} | {r['prop']}: {verdict} | {r['viol']} ({r['viol'] - r['noinput']}) | `{r['first'][:80]}` |")
tbl = "\n".join(out)
tbl += (f"\n\n{len(rows)} changes, {sum(1 for r in rows.values() if r['exit'] == 1)} reported as VIOLATION by the check of their own property, "
        f"{sum(1 for r in rows.values() if r['exit'] == 1 and r['viol'] > r['noinput'])} of them with a failing input replayed against the real (changed) code.")
s = open("DESIGN.md").read()
a = s.index("| change | file(s) |")
b = s.index("replayed against the real (changed) code.", a) + len("replayed against the real (changed) code.")
s = s[:a] + tbl + s[b:]
open("DESIGN.md", "w").write(s)
print(tbl.splitlines()[-1])
