#!/bin/sh
# dev aid: run check <Cxx> against seeded changes (scratch copies), one summary line each
# usage: dev/seeds.sh C05 C01-m1 C05-m2 ...
C="$1"; shift
for s in "$@"; do
  out=$(dev/with_patch.sh /verif/seeded/$s/patch.diff "$C" 2>&1)
  v=$(echo "$out" | grep -c "^VIOLATION")
  nf=$(echo "$out" | grep "^VIOLATION" | grep -c "no-failing-input-found")
  u=$(echo "$out" | grep -c "^UNDECIDED")
  e=$(echo "$out" | grep -c "^CHECKER-ERROR")
  last=$(echo "$out" | grep "^$C \[" | tail -1)
  echo "$s on $C: violations=$v (without replay: $nf) undecided=$u errors=$e | $last | $(echo "$out" | grep '^exit=')"
  echo "$out" | grep "^VIOLATION\|^UNDECIDED\|^CHECKER" | head -4 | cut -c1-220 | sed 's/^/      /'
done
