#!/bin/sh
# dev aid: run the seeded changes m<lo>..m<hi> of every property against the check of their own property, N streams in parallel
# usage: dev/seeds_round.sh <out-file> <lo> <hi> [streams]
cd /verif
OUT="$1"; LO="$2"; HI="$3"; N="${4:-3}"
mkdir -p out; : > "$OUT"
ls -d seeded/C*-m* | while read d; do s=$(basename "$d"); k=${s##*-m}; [ "$k" -ge "$LO" ] && [ "$k" -le "$HI" ] && echo "$s"; done > /tmp/seedlist_$$.txt
i=0
for s in $(cat /tmp/seedlist_$$.txt); do
  c=${s%%-*}
  ( VERIF_JOBS=6 VERIF_TASK_LIMIT_S=240 dev/seeds.sh "$c" "$s" > /tmp/seedout_$$_$s.txt 2>&1 ) &
  i=$((i+1))
  if [ $((i % N)) -eq 0 ]; then wait; fi
done
wait
for s in $(cat /tmp/seedlist_$$.txt); do cat /tmp/seedout_$$_$s.txt >> "$OUT"; rm -f /tmp/seedout_$$_$s.txt; done
rm -f /tmp/seedlist_$$.txt
echo done >> "$OUT"
