#!/bin/sh
# dev aid: run a check against a scratch copy of /repo with a patch applied (never touches /repo)
# usage: dev/with_patch.sh <patch|-R:commit> <Cxx> [tier]
set -e
P="$1"; C="$2"; T="${3:-quick}"
D=$(mktemp -d /tmp/scr_XXXXXX)
trap 'rm -rf "$D"' EXIT
rsync -a --exclude .git --exclude __pycache__ /repo/ "$D/"
case "$P" in
  -R:*) git -C /repo show "${P#-R:}" | (cd "$D" && patch -s -R -p1) ;;
  *) (cd "$D" && patch -s -p1 < "$P") ;;
esac
cd /verif
set +e
VERIF_REPO="$D" bin/vcheck "$C" --tier "$T"
echo "exit=$?"
