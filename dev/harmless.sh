#!/bin/sh
# dev aid: run the harmless-edit catalogue (selftest/harmless.json) against the quick checks of the listed properties
# usage: dev/harmless.sh [H-id ...]
cd /verif
python3 - "$@" <<'PY'
import json, os, shutil, subprocess, sys, tempfile
want = set(sys.argv[1:])
for e in json.load(open("selftest/harmless.json"))["edits"]:
    if want and e["id"] not in want:
        continue
    for prop in e["props"]:
        tmp = tempfile.mkdtemp(prefix="harm_")
        try:
            dst = os.path.join(tmp, "repo")
            shutil.copytree("/repo", dst, ignore=shutil.ignore_patterns(".git", "__pycache__"))
            f = os.path.join(dst, e["file"]); src = open(f).read(); n = src.count(e["old"])
            if n == 0 or (n != 1 and not e.get("all")):
                print(e["id"], prop, "pattern-not-found", n); continue
            open(f, "w").write(src.replace(e["old"], e["new"]))
            r = subprocess.run(["bin/vcheck", prop], env=dict(os.environ, VERIF_REPO=dst), capture_output=True, text=True)
            bad = [l for l in r.stdout.splitlines() if l.startswith(("VIOLATION", "UNDECIDED", "CHECKER"))]
            print(e["id"], prop, {0: "held", 1: "FALSE-ALARM", 2: "undecided", 3: "checker-error"}[r.returncode], (bad[0][:200] if bad else ""))
        finally:
            shutil.rmtree(tmp, ignore_errors=True)
PY
