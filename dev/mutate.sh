#!/bin/sh
# dev aid (round 7): textual mutant of a file of /repo in the scratch copy /tmp/scr/repo (rsync /repo there first), then run one contract on it
# usage: mut2.sh <file-rel> <old> <new> <module> <contract> [count]
F=$1; OLD=$2; NEW=$3; M=$4; C=$5; N=${6:-1}
cp /repo/$F /tmp/scr/repo/$F
python3 - "$F" "$OLD" "$NEW" "$N" <<'PY'
import sys
f,old,new,n=sys.argv[1:5]
p='/tmp/scr/repo/'+f
s=open(p).read()
assert s.count(old)==int(n), (s.count(old), old)
i=s.rfind(old)
open(p,'w').write(s[:i]+new+s[i+len(old):])
PY
cd /verif; VERIF_REPO=/tmp/scr/repo PYTHONPATH=/verif python3-vt /tmp/devrun.py $M $C 2>&1 | grep -v "^discharged" | cut -c1-260
cp /repo/$F /tmp/scr/repo/$F
