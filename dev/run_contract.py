# dev aid (round 7): run ONE contract of a module:  PYTHONPATH=/verif python3-vt dev/run_contract.py <module> <ContractClass> [variant]   (T=<ms> solver budget, VERIF_REPO=<scratch copy>)
import sys, json, importlib
from pyvc import run as R
mod, name = sys.argv[1], sys.argv[2]
m = importlib.import_module(mod)
inst = [c for c in m.CONTRACTS if type(c).__name__ == name][0]
conf = getattr(m, inst.configure) if getattr(inst, "configure", None) else None
if len(sys.argv) > 3:
    import copy; inst = copy.copy(inst); inst._only_variant = int(sys.argv[3])
out = R.run_contract(inst, int(__import__('os').environ.get("T", "10000")), conf, None, None)
print("error:", out["error"]); print("info:", out["info"])
for r in out["results"]:
    print(r["status"], r["oid"], r["solver"], r["secs"], (r["detail"] or "")[:100], "" if r["status"]=="discharged" else r.get("model"))
print("secs", out["secs"])
