#!/bin/sh
# dev aid: run every seeded change against the check of its own property; results to out/seeds_matrix.txt
cd /verif
mkdir -p out
: > out/seeds_matrix.txt
for d in seeded/C*-m*; do
  s=$(basename "$d"); c=${s%%-*}
  dev/seeds.sh "$c" "$s" >> out/seeds_matrix.txt 2>&1
done
echo done >> out/seeds_matrix.txt
