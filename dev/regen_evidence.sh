#!/bin/sh
# re-run every claimed check on the unchanged /repo so that the committed evidence is current
cd /verif
for P in $(python3 -c "import json; print(' '.join(c['property_id'] for c in json.load(open('MANIFEST.json'))['checks']))"); do
  bin/vcheck $P --tier quick | tail -1
done
python3-vt - <<'PY'
import json, jsonschema, glob
sch = json.load(open('/root/.vp/EVIDENCE.schema.json'))
for c in json.load(open('/verif/MANIFEST.json'))['checks']:
    e = json.load(open('/verif/' + c['evidence_file']))
    jsonschema.validate(e, sch)
    assert e['coverage']['obligations'] == e['coverage']['discharged'], c['property_id']
    assert e['level'] == c['level_claimed']['category'], c['property_id']
print("evidence valid")
PY
