#!/bin/sh
# dev aid: thorough tier of the given properties, one after the other; summary to out/thorough_<tag>.log
TAG="$1"; shift
cd /verif
: > out/thorough_$TAG.log
for c in "$@"; do
  echo "=== $c $(date +%H:%M:%S)" >> out/thorough_$TAG.log
  bin/vcheck $c --tier thorough > out/th_$c.out 2>&1; rc=$?
  grep -v "^  " out/th_$c.out | cut -c1-600 | tail -6 >> out/thorough_$TAG.log
  echo "exit=$rc $(date +%H:%M:%S)" >> out/thorough_$TAG.log
done
echo finished >> out/thorough_$TAG.log
