"""Native side of the scheduler contracts: builds real SimRunner / World objects from a
small-scope counter-model (pyvc.models.sched.Model.dump_model), runs the REAL function
from /repo on them and evaluates the invariant natively.  Runs under /venv/bin/python."""
from __future__ import annotations
import heapq


class _StubProxy:
    def __init__(self, typ):
        self.meta = {"type": typ, "models": {}}

    async def send(self, request):
        return None

    async def stop(self):
        return None


def build(m):
    import mosaik
    from mosaik.simmanager import SimRunner
    from mosaik.progress import Progress
    from mosaik.tiered_time import TieredTime, TieredInterval
    from tqdm import tqdm
    world = mosaik.World({}, skip_greetings=True)
    sims = {}
    for name, d in m["sims"].items():
        s = SimRunner(name, _StubProxy(d.get("type", "hybrid")))
        s.tqdm = tqdm(disable=True)
        world.sims[name] = s
        sims[name] = s
    for name, d in m["sims"].items():
        s = sims[name]
        s.progress = Progress(TieredTime(d["P"]))
        ns = []
        for x, cnt in d["NS"].items():
            ns.extend([TieredTime(int(x))] * int(cnt))
        heapq.heapify(ns)
        s.next_steps = ns
        s.current_step = TieredTime(d["CS"]) if d["CS"] is not None else None
        s.last_step = TieredTime(d["LS"])
        s.output_time = TieredTime(d["OT"])
        s.is_in_step = bool(d.get("in_step"))
        s.from_world_time = TieredInterval(d.get("fwt", 0), cutoff=1, pre_length=1)
        s._verif_begun = TieredTime(d["begun"]) if d.get("begun") is not None else None   # ghost
        s.triggering_ancestors = {sims[b]: TieredInterval(v) for b, v in d["TA"].items()}
        s.input_delays = {sims[b]: TieredInterval(v) for b, v in d["ID"].items()}
        s.successors = {sims[b]: TieredInterval(v) for b, v in d["SU"].items()}
        s.successors_to_wait_for = {sims[b]: TieredInterval(v) for b, v in d["SW"].items()}
    world.until = m["until"]
    world.rt_factor = m.get("rt_factor")
    world.tqdm = tqdm(disable=True)
    return world, sims


def pending(s):
    return list(s.next_steps) + ([s.current_step] if s.current_step is not None else [])


def inv_violations(world, sims):
    """the clauses I1-I4 of DESIGN 8-C01 that do not hold (native evaluation)"""
    from mosaik.tiered_time import TieredTime
    bad = []
    for n, s in sims.items():
        P = s.progress.time
        for x in s.next_steps:
            if not P <= x:
                bad.append(f"I1: {n}.progress {P!r} > scheduled step {x!r}")
        if s.current_step is not None and P != s.current_step:
            bad.append(f"I2: {n} is in step {s.current_step!r} but its progress is {P!r}")
        for b, d in s.triggering_ancestors.items():
            for x in pending(b):
                if not P <= x + d:
                    bad.append(f"I3: {n}.progress {P!r} > pending step {x!r} of triggering ancestor {b.sid} + {d!r}")
        if not P <= TieredTime(world.until) + s.from_world_time:
            bad.append(f"I4: {n}.progress {P!r} > until {world.until}")
        bg = getattr(s, "_verif_begun", None)
        if bg is not None:
            for p_, d in s.input_delays.items():
                if not bg < p_.progress.time + d:
                    bad.append(f"J': {n} began {bg!r} but its input {p_.sid} has only progressed to {p_.progress.time!r} (+{d!r})")
            for x in s.next_steps:
                if not bg < x:
                    bad.append(f"K: {n} began {bg!r} but still has step {x!r} scheduled")
            if not bg <= P:
                bad.append(f"BG: {n} began {bg!r} > progress {P!r}")
        if s.current_step is not None and bg != s.current_step:
            bad.append(f"BG: {n} is in step {s.current_step!r} but begun is {bg!r}")
    return bad


def snapshot(sims):
    return {n: (s.progress.time, sorted(s.next_steps), s.current_step, s.last_step) for n, s in sims.items()}


def replay_advance_progress(m):
    from mosaik import scheduler
    if "sims" not in m:
        return True, "no complete small-scope state in the model"
    world, sims = build(m)
    pre = inv_violations(world, sims)
    if pre or min(m["until"], *[d["P"] for d in m["sims"].values()]) < 0:
        return True, f"pre-state does not satisfy the invariant natively: {pre}"
    before = snapshot(sims)
    sim = sims[m["sim"]]
    try:
        scheduler.advance_progress(sim, world)
    except AssertionError as e:
        return False, f"advance_progress({m['sim']}) raised AssertionError({e}) from an invariant state: {describe(m)}"
    post = inv_violations(world, sims)
    after = snapshot(sims)
    changed = [n for n in sims if n != m["sim"] and before[n] != after[n]]
    if after[m["sim"]][1:] != before[m["sim"]][1:]:
        changed.append(m["sim"] + " (fields other than progress)")
    ok = not post and not changed and before[m["sim"]][0] <= after[m["sim"]][0]
    return ok, (f"advance_progress({m['sim']}) from {describe(m)}: progress {before[m['sim']][0]!r} -> "
                f"{after[m['sim']][0]!r}; invariant afterwards violated: {post}; frame violated: {changed}")


def describe(m):
    parts = []
    for n, d in m["sims"].items():
        parts.append(f"{n}[P={d['P']} NS={d['NS']} CS={d['CS']} TA={d['TA']}]")
    return f"until={m['until']} " + " ".join(parts)


def _check_pre(m, world, sims):
    pre = inv_violations(world, sims)
    if pre:
        return f"pre-state does not satisfy the invariant natively: {pre}"
    for n, s in sims.items():
        if len(set(s.next_steps)) != len(s.next_steps):
            return "pre-state has duplicate scheduled steps"
    return None


def nodup_violations(sims):
    return [f"I5: {n}.next_steps contains a duplicate: {sorted(s.next_steps)!r}" for n, s in sims.items()
            if len(set(s.next_steps)) != len(s.next_steps)]


def replay_schedule_step(m):
    from mosaik.tiered_time import TieredTime
    if "sims" not in m or "x" not in m:
        return True, "no complete small-scope state in the model"
    world, sims = build(m)
    bad = _check_pre(m, world, sims)
    sim = sims[m["sim"]]
    x = TieredTime(m["x"])
    if bad or m["x"] < 0 or not sim.progress.time <= x or (sim._verif_begun is not None and not sim._verif_begun < x) or any(
            not s.progress.time <= x + s.triggering_ancestors[sim] for s in sims.values() if sim in s.triggering_ancestors):
        return True, f"precondition does not hold natively ({bad})"
    before = snapshot(sims)
    was_in = x in sim.next_steps
    sim.newer_step.clear()
    old_min = sim.next_steps[0] if sim.next_steps else None
    sim.schedule_step(x)
    post = inv_violations(world, sims) + nodup_violations(sims)
    after = snapshot(sims)
    expect = sorted(before[m["sim"]][1] + ([] if was_in else [x]))
    exact = after[m["sim"]][1] == expect
    wake_expected = (not was_in) and (old_min is None or x < old_min)
    wake_ok = sim.newer_step.is_set() == wake_expected
    others = [n for n in sims if n != m["sim"] and before[n] != after[n]]
    ok = not post and exact and wake_ok and not others
    return ok, (f"{m['sim']}.schedule_step({x!r}) from {describe(m)}: next_steps {before[m['sim']][1]!r} -> "
                f"{after[m['sim']][1]!r} (expected {expect!r}); woken={sim.newer_step.is_set()} (expected {wake_expected}); "
                f"invariant afterwards violated: {post}; other simulators changed: {others}")


def replay_notify_dependencies(m):
    from mosaik import scheduler
    from mosaik.tiered_time import TieredInterval
    if "sims" not in m:
        return True, "no complete small-scope state in the model"
    world, sims = build(m)
    sim = sims[m["sim"]]
    d0 = m["sims"][m["sim"]]
    # trigger tables and output data of the simulator that has just finished its step
    for n, d in m["sims"].items():
        sims[n].triggers = {}
        for e in d.get("TR", []):
            sims[n].triggers.setdefault((e["eid"], e["attr"]), []).append((sims[e["dest"]], TieredInterval(e["delay"])))
    data = {}
    for e in d0.get("TR", []):
        if e["present"]:
            data.setdefault(e["eid"], {})[e["attr"]] = 1
    sim.data = data
    bad = _check_pre(m, world, sims)
    # the static closure facts and the region facts assumed by the contract
    for n, d in m["sims"].items():
        for e in d.get("TR", []):
            a, b = sims[n], sims[e["dest"]]
            dl = TieredInterval(e["delay"])
            if a not in b.triggering_ancestors or not b.triggering_ancestors[a] <= dl:
                bad = bad or "trigger edge not covered by triggering_ancestors"
            if a not in b.input_delays or not b.input_delays[a] <= dl:
                bad = bad or "trigger edge not covered by input_delays"
            for s in sims.values():
                if b in s.triggering_ancestors and (a not in s.triggering_ancestors or
                                                    not s.triggering_ancestors[a] <= dl + s.triggering_ancestors[b]):
                    bad = bad or "triggering_ancestors not closed under prepending a trigger edge"
    if sim.current_step is not None or not sim.last_step <= sim.output_time or sim.last_step.time < 0 \
            or sim.progress.time != sim.last_step:
        bad = bad or "region precondition (step done, output time >= step time) does not hold"
    for s in sims.values():
        if sim in s.triggering_ancestors and not s.progress.time <= sim.last_step + s.triggering_ancestors[sim]:
            bad = bad or "region precondition (descendants bounded by the finished step) does not hold"
    if bad:
        return True, f"precondition does not hold natively ({bad})"
    before = snapshot(sims)
    try:
        scheduler.notify_dependencies(sim)
    except AssertionError as e:
        return False, f"notify_dependencies({m['sim']}) raised AssertionError({e}) from {describe(m)}"
    post = inv_violations(world, sims) + nodup_violations(sims)
    after = snapshot(sims)
    # exactness of the demands (C02): the new steps are exactly output_time + delay of present trigger edges
    expected = {n: set(before[n][1]) for n in sims}
    for e in d0.get("TR", []):
        if e["present"]:
            expected[e["dest"]].add(sim.output_time + TieredInterval(e["delay"]))
    wrong = [f"{n}: {sorted(set(after[n][1]))!r} expected {sorted(expected[n])!r}" for n in sims
             if set(after[n][1]) != expected[n]]
    ok = not post and not wrong
    return ok, (f"notify_dependencies({m['sim']}) with output_time {sim.output_time!r}, triggers {d0.get('TR')} from "
                f"{describe(m)}: invariant afterwards violated: {post}; demanded steps wrong: {wrong}")


def replay_get_max_advance(m):
    from mosaik import scheduler
    if "sims" not in m:
        return True, "no complete small-scope state in the model"
    world, sims = build(m)
    bad = _check_pre(m, world, sims)
    if bad:
        return True, f"precondition does not hold natively ({bad})"
    sim = sims[m["sim"]]
    until = m.get("until_arg", m["until"])
    before = snapshot(sims)
    r = scheduler.get_max_advance(world, sim, until)
    causes = [until + 1]
    for b, d in sim.triggering_ancestors.items():
        if b.next_steps:
            causes.append((b.next_steps[0] + d).time)
        if b is not sim and b.current_step is not None:
            causes.append((b.current_step + d).time)      # a step in flight can still trigger us
    if sim.next_steps:
        causes.append(sim.next_steps[0].time)
    expected = min(causes) - 1
    ok = r == expected and snapshot(sims) == before
    return ok, f"get_max_advance({m['sim']}, until={until}) = {r}, expected {expected} from {describe(m)}"


def replay_get_outputs(m):
    """native unit-level replay of get_outputs for tiered (grouped) times: the output time is the
    step's own time if the reply carries no other time, else (time, 0, .., 0); earlier -> error"""
    import asyncio
    import mosaik
    from mosaik import scheduler
    from mosaik.exceptions import SimulationError
    from mosaik.simmanager import SimRunner
    from mosaik.tiered_time import TieredTime
    from tqdm import tqdm
    case = m.get("native_case")
    if case is None:
        return True, "no native case in the model (symbolic counter-models of get_outputs are not replayed)"
    cs = TieredTime(*case["current_step"])
    rt = case["reply_time"]

    class P(_StubProxy):
        async def send(self, request):
            d = {"e": {"a": 1}}
            if rt is not None:
                d["time"] = rt
            return d

    world = mosaik.World({}, skip_greetings=True)
    sim = SimRunner("S", P("hybrid"), depth=len(cs))
    sim.tqdm = tqdm(disable=True)
    world.sims["S"] = sim
    sim.current_step = cs
    sim.last_step = cs
    sim.output_request = {"e": ["a"]}
    sim.outputs = {}
    try:
        world.loop.run_until_complete(scheduler.get_outputs(world, sim))
    except SimulationError as e:
        world.loop.close()
        ok = rt is not None and rt < cs.time
        return ok, f"get_outputs at step {cs!r} with reply time {rt}: SimulationError ({'expected' if ok else 'NOT expected'})"
    world.loop.close()
    if rt is not None and rt < cs.time:
        return False, f"get_outputs at step {cs!r} accepted the earlier output time {rt}"
    expected = cs if rt is None or rt == cs.time else TieredTime(rt, *([0] * (len(cs) - 1)))
    ok = sim.output_time == expected and (rt if rt is not None else cs.time) in sim.outputs
    return ok, (f"get_outputs at step {cs!r} with reply time {rt}: output_time = {sim.output_time!r}, expected {expected!r}; "
                f"cache keys {sorted(sim.outputs)}")


def replay_wait_for_dependencies(m):
    """L2 replay: start the REAL coroutine in the state at the call, let it suspend, then play the
    environment of the counter-model (every simulator's progress is set -- through the real
    Progress.set -- to its value in the model's state after the await) and see whether the
    coroutine returns although a dependency it must wait for has not got far enough."""
    import asyncio
    from mosaik import scheduler
    from mosaik.tiered_time import TieredTime
    if "sims" not in m or "after" not in m:
        return True, "no complete small-scope states in the model"
    world, sims = build(m)
    bad = _check_pre(m, world, sims)
    me = sims[m["sim"] if "sim" in m else m.get("me")] if (m.get("sim") or m.get("me")) else None
    if me is None:
        return True, "model does not name the simulator"
    if bad or me.current_step is not None or not me.next_steps:
        return True, f"precondition does not hold natively ({bad})"
    lazy = bool(m.get("lazy_stepping"))
    t = me.next_steps[0]
    after = m["after"]["sims"]

    async def scenario():
        task = asyncio.ensure_future(scheduler.wait_for_dependencies(me, lazy))
        await asyncio.sleep(0)
        # environment: progress of every simulator moves (monotonically) to the model's later state
        for n, s in sims.items():
            newp = TieredTime(after[n]["P"])
            if s.progress.time <= newp:
                s.progress.set(newp)
        for _ in range(5):
            await asyncio.sleep(0)
        done = task.done()
        if not done:
            task.cancel()
            try:
                await task
            except BaseException:
                pass
        return done

    done = world.loop.run_until_complete(scenario())
    world.loop.close()
    if not done:
        return True, "the coroutine is still waiting in the model's later state (postcondition not violated)"
    problems = []
    for p_, d in me.input_delays.items():
        if not t < p_.progress.time + d:
            problems.append(f"input {p_.sid} has progress {p_.progress.time!r} (+{d!r}), not past {t!r}")
    for b, d in me.successors_to_wait_for.items():
        if not t + d <= b.progress.time:
            problems.append(f"async-request partner {b.sid} has progress {b.progress.time!r}, has not reached {t!r}")
    if lazy:
        for c, d in me.successors.items():
            if not t + d <= c.progress.time:
                problems.append(f"consumer {c.sid} has progress {c.progress.time!r}, has not reached {t!r} (lazy stepping)")
    return not problems, (f"wait_for_dependencies({me.sid}, lazy={lazy}) for step {t!r} returned from {describe(m)} "
                          f"with later progress { {n: after[n]['P'] for n in after} }: {problems}")


def replay_step(m):
    """native unit-level replay of scheduler.step() with a stub simulator returning the model's reply:
    C13 (invalid replies raise an error naming the simulator, nothing is scheduled) and C02 (a valid
    next-step time before `until` is scheduled exactly once, as (r, 0, .., 0))"""
    import mosaik
    from mosaik import scheduler
    from mosaik.exceptions import SimulationError
    from mosaik.simmanager import SimRunner
    from mosaik.tiered_time import TieredTime
    from tqdm import tqdm
    case = m.get("native_case")
    if case is None:
        return True, "no native case in the model"
    cs = TieredTime(*case["current_step"])
    kind, reply, typ, until = case["reply_kind"], case["reply"], case["type"], case["until"]
    if kind == "other" and reply is None:
        reply = 2.5

    class P(_StubProxy):
        async def send(self, request):
            return reply

    world = mosaik.World({}, skip_greetings=True)
    world.until = until
    sim = SimRunner("S-0", P(typ), depth=len(cs))
    sim.tqdm = tqdm(disable=True)
    world.sims["S-0"] = sim
    sim.current_step = cs
    sim.next_steps = []
    if case.get("next_self_step") is not None:
        sim.next_self_step = TieredTime(case["next_self_step"], *([0] * (len(cs) - 1)))   # left over from an earlier step
    err = None
    try:
        world.loop.run_until_complete(scheduler.step(world, sim, {}, until))
    except SimulationError as e:
        err = e
    except AssertionError as e:
        world.loop.close()
        return False, f"step() with reply {reply!r} ({typ}) at {cs!r}: AssertionError({e}) instead of an error identifying the simulator"
    finally:
        if not world.loop.is_closed():
            world.loop.close()
    invalid = (kind == "other") or (kind == "int" and reply <= cs.time) or (kind == "none" and typ == "time-based")
    desc = f"step() of a {typ} simulator at {cs!r}, until={until}, reply {reply!r}: "
    if invalid:
        if err is None:
            return False, desc + f"accepted silently; next_steps = {sim.next_steps!r}"
        ok = "S-0" in str(err) and not sim.next_steps
        return ok, desc + f"SimulationError({str(err)[:80]}...) names simulator: {'S-0' in str(err)}; next_steps = {sim.next_steps!r}"
    if err is not None:
        return False, desc + f"valid reply rejected: {err}"
    expected = [TieredTime(reply, *([0] * (len(cs) - 1)))] if kind == "int" and reply < until else []
    ok = sim.next_steps == expected and sim.last_step == cs
    return ok, desc + f"next_steps = {sim.next_steps!r}, expected {expected!r}; last_step = {sim.last_step!r}"


def replay_sim_process_begin(m):
    """native replay of the BEGIN part of sim_process for grouped (tiered) times: a single simulator
    whose next step is settled at the given tiered time; the same-time loop guard must raise a
    SimulationError naming the simulator IFF some sub-step tier has reached max_loop_iterations,
    otherwise the step must be performed at exactly that time (C09, C02)."""
    import mosaik
    from mosaik import scheduler
    from mosaik.exceptions import SimulationError
    from mosaik.progress import Progress
    from mosaik.simmanager import SimRunner
    from mosaik.tiered_time import TieredTime
    from tqdm import tqdm
    case = m.get("native_case")
    if case is None:
        return True, "no native case in the model (symbolic counter-models of sim_process are not replayed)"
    if "connection_lost_in" in case:
        return _replay_connection_lost(case)
    cs = TieredTime(*case["current_step"])
    bound = case["max_loop_iterations"]
    stepped = []

    class P(_StubProxy):
        async def send(self, request):
            if request[0] == "step":
                stepped.append(request[1][0])
            return None

    world = mosaik.World({}, skip_greetings=True, max_loop_iterations=bound)
    world.until = cs.time + 1
    world.rt_factor = None
    world.tqdm = tqdm(disable=True)
    sim = SimRunner("S-0", P(case.get("type", "event-based")), depth=len(cs))
    sim.tqdm = tqdm(disable=True)
    world.sims["S-0"] = sim
    sim.next_steps = [cs]
    sim.progress = Progress(cs)
    err = None
    try:
        world.loop.run_until_complete(scheduler.sim_process(world, sim, world.until, None, False, True))
    except SimulationError as e:
        err = e
    finally:
        world.loop.close()
    must_stop = any(t >= bound for t in cs.tiers[1:])
    desc = f"sim_process of a {case.get('type', 'event-based')} simulator with settled step {cs!r}, max_loop_iterations={bound}: "
    if must_stop:
        ok = err is not None and "S-0" in str(err) and not stepped
        return ok, desc + (f"SimulationError naming the simulator: {'S-0' in str(err)}" if err else
                           f"NOT stopped although a sub-step tier has reached the bound; stepped at {stepped}")
    ok = err is None and stepped == [cs.time]
    return ok, desc + (f"stopped by {str(err)[:100]} although every sub-step tier is below the bound" if err
                       else f"stepped at {stepped}")


def _replay_connection_lost(case):
    """C14: the simulator closes its connection during step / get_data: sim_process must end with a
    SimulationError that names the simulator (not hang, not pass the raw ConnectionError on)"""
    import mosaik
    from mosaik import scheduler
    from mosaik.exceptions import SimulationError
    from mosaik.simmanager import SimRunner
    from tqdm import tqdm
    where, exc_name = case["connection_lost_in"], case["error"]
    exc = {"ConnectionResetError": ConnectionResetError, "BrokenPipeError": BrokenPipeError, "ConnectionError": ConnectionError,
           "ConnectionAbortedError": ConnectionAbortedError}[exc_name]

    class P(_StubProxy):
        async def send(self, request):
            if request[0] == where:
                raise exc("gone")
            if request[0] == "step":
                return request[1][0] + 1
            if request[0] == "get_data":
                return {e: {a: 1 for a in attrs} for e, attrs in request[1][0].items()}
            return None

    world = mosaik.World({}, skip_greetings=True)
    world.until = 3
    world.rt_factor = None
    world.tqdm = tqdm(disable=True)
    sim = SimRunner("S-0", P("time-based"), depth=1)
    sim.tqdm = tqdm(disable=True)
    sim.output_request = {"e": ["a"]}
    world.sims["S-0"] = sim
    sim.next_steps = [mosaik.tiered_time.TieredTime(0)]
    err = None
    try:
        world.loop.run_until_complete(scheduler.sim_process(world, sim, world.until, None, False, True))
    except BaseException as e:  # noqa: BLE001
        err = e
    finally:
        world.loop.close()
    ok = isinstance(err, SimulationError) and "S-0" in str(err)
    return ok, f"sim_process of a simulator whose connection fails with {exc_name} during {where}: ended with {err!r}"


def replay_event_beyond_until(case):
    """C05: A (time-based) feeds a trigger input of B; B has an initial event at a time that may lie at or after
    `until`.  run() must return (B simply never performs that step); it must not wait forever."""
    import signal
    import sys
    import types
    import warnings
    import mosaik
    import mosaik_api_v3
    warnings.simplefilter("ignore")

    def meta(t):
        d = {"api_version": "3.0", "type": t, "models": {"M": {"public": True, "params": [], "attrs": ["x", "i"]}}}
        if t == "hybrid":
            d["models"]["M"]["trigger"] = ["i"]
        return d
    steps = []

    class Sim(mosaik_api_v3.Simulator):
        def __init__(self):
            super().__init__(meta("time-based"))

        def init(self, sid, time_resolution=1.0, typ="time-based", **kw):
            self.meta, self.typ, self.sid = meta(typ), typ, sid
            return self.meta

        def create(self, num, model, **kw):
            return [{"eid": f"e{i}", "type": model} for i in range(num)]

        def step(self, time, inputs, max_advance):
            steps.append((self.sid, time))
            return time + 1 if self.typ == "time-based" else None

        def get_data(self, outputs):
            return {}
    mod = types.ModuleType("_c05_sims")
    mod.Sim = Sim
    sys.modules["_c05_sims"] = mod

    class Hang(Exception):
        pass

    def on_alarm(*a):
        raise Hang()
    w = mosaik.World({"D": {"python": "_c05_sims:Sim"}}, skip_greetings=True)
    old = signal.signal(signal.SIGALRM, on_alarm)
    signal.alarm(4)
    try:
        a = w.start("D").M()
        b = w.start("D", typ=case["consumer"]).M()
        w.connect(a, b, ("x", "i"))
        w.set_initial_event(b.sid, time=case["initial_event_at"])
        try:
            w.run(until=case["until"], print_progress=False)
            hung = False
        except Hang:
            hung = True
    finally:
        signal.alarm(0)
        signal.signal(signal.SIGALRM, old)
        if not w.loop.is_closed():
            try:
                w.loop.close()
            except Exception:  # noqa: BLE001
                pass
    exp = case["initial_event_at"] < case["until"]
    stepped = ("D-1", case["initial_event_at"]) in steps
    ok = not hung and (stepped == exp or case["consumer"] == "hybrid")
    return ok, (f"A (time-based) -> B ({case['consumer']}), initial event of B at {case['initial_event_at']}, until={case['until']}: "
                f"{'run() still waiting after 4 s' if hung else 'run() returned'}; B stepped at that time: {stepped}")


def replay_settled_at_end(case):
    """C05: a simulator inside a group (tiered time of depth 2) whose earliest queued step is `nxt`; its progress is then
    moved to the end of the simulation (until:0) by the rest of the system.  next_step_settled must come back (False
    if the step lies at or beyond the end, True if the step is reached): it must not keep waiting."""
    import asyncio
    import mosaik
    from mosaik import scheduler
    from mosaik.progress import Progress
    from mosaik.simmanager import SimRunner
    from mosaik.tiered_time import TieredTime
    from tqdm import tqdm
    nxt, until = TieredTime(*case["queued_tiered_step"]), case["until"]
    world = mosaik.World({}, skip_greetings=True)
    world.until, world.rt_factor = until, None
    sim = SimRunner("S-0", _StubProxy("event-based"), depth=2)
    sim.tqdm = tqdm(disable=True)
    world.sims["S-0"] = sim
    sim.next_steps = [nxt]
    sim.progress = Progress(TieredTime(min(nxt.time, until) - 2, 0))

    async def main():
        task = asyncio.ensure_future(scheduler.next_step_settled(sim, world))
        for _ in range(5):
            await asyncio.sleep(0)
        end = TieredTime(until, 0)
        sim.progress.set(min(nxt, end))          # the rest of the system lets the progress advance as far as it can
        for _ in range(20):
            await asyncio.sleep(0)
        done = task.done()
        res = task.result() if done else None
        if not done:
            task.cancel()
            for t in asyncio.all_tasks():
                if t is not asyncio.current_task():
                    t.cancel()
        return done, res
    try:
        done, res = world.loop.run_until_complete(main())
    finally:
        world.loop.close()
    exp = nxt < TieredTime(until, 0)
    ok = done and bool(res) == exp
    return ok, (f"grouped simulator, earliest queued step {nxt!r}, until={until}, progress advanced to min(step, end): next_step_settled "
                f"{'returned ' + str(res) if done else 'is still waiting'} (expected {exp})")


def replay_schedule_step_tiered(case):
    """schedule_step on a simulator inside a group (tiered times of depth 2): set semantics, heap order, and the simulator is
    woken IFF the new step is earlier than every queued one IN THE TIERED ORDER (t:0 before t:1)"""
    import heapq
    import mosaik
    from mosaik.simmanager import SimRunner
    from mosaik.tiered_time import TieredTime
    w = mosaik.World({}, skip_greetings=True)
    try:
        sim = SimRunner("S-0", _StubProxy("event-based"), depth=2)
        sim.next_steps = [TieredTime(*q) for q in case["queued"]]
        heapq.heapify(sim.next_steps)
        x = TieredTime(*case["x"])
        before = sorted(sim.next_steps)
        was_in = x in sim.next_steps
        sim.newer_step.clear()
        sim.schedule_step(x)
        after = sorted(sim.next_steps)
        exp = sorted(before + ([] if was_in else [x]))
        wake_exp = (not was_in) and (not before or x < before[0])
        ok = after == exp and sim.newer_step.is_set() == wake_exp and sim.next_steps[0] == exp[0]
        return ok, (f"grouped simulator with queued steps {before!r}: schedule_step({x!r}) -> {after!r} (expected {exp!r}), head {sim.next_steps[0]!r}, "
                    f"woken={sim.newer_step.is_set()} (expected {wake_exp})")
    finally:
        w.loop.close()
