"""Bounded stand-in for entity creation (see contracts/connect_native.bounded_entity_models)."""
from pyvc.bounded import NativeBounded


class EntityModelsBounded(NativeBounded):
    property_ids = ["C11", "C02", "C03"]
    module = "contracts.connect_native"
    func = "bounded_entity_models"
    what = "mosaik.scenario.ModelMock.create / _make_entities (+ World.connect's attribute validation on the created entities)"


BOUNDED = [EntityModelsBounded()]


class ClassificationWiringBounded(NativeBounded):
    property_ids = ["C12", "C11", "C02", "C03"]
    module = "contracts.connect_native"
    func = "bounded_classification_wiring"
    what = "mosaik.scenario.ModelMock.__init__ / input_attrs / output_attrs, Entity.triggered_by / is_persistent (the wiring around parse_attrs)"


BOUNDED.append(ClassificationWiringBounded())


class GroupScopingBounded(NativeBounded):
    property_ids = ["C11", "C09", "C01"]
    module = "contracts.connect_native"
    func = "bounded_group_scoping"
    what = "mosaik.scenario.World.group / World.start (group and depth bookkeeping) with World.connect(weak=True)"


BOUNDED.append(GroupScopingBounded())
