"""Sidecar contracts for the bulk connection helpers of mosaik/util.py (C18):

  connect_many_to_one   one World.connect call per element of src_set, in order, each to `dest`, with the caller's
                        attribute pairs and async_requests flag passed on unchanged
  _connect_randomly     every source connected exactly once, to a member of the destination set; no destination
                        receives more than max_connects; the returned set is exactly the set of destinations that
                        received a connection; random.randint is never asked for an empty range (the capacity
                        argument: as long as a source is left, a destination with capacity left is in the list)
  _connect_evenly       every source connected exactly once, to a member of the destination set; the numbers of
                        connections of any two destinations differ by at most one; returned set as above
  connect_randomly      the same three statements for both modes through the callees' contracts; AssertionError iff the
                        destination set is empty or (evenly=False and) the capacity does not suffice; the caller's
                        destination list is not modified

Modelling (assumptions, listed in the evidence):
  * entities are terms of an uninterpreted sort; `==` / hashing on entities is identity (mosaik.scenario.Entity
    defines neither __eq__ nor __hash__ -- entity equality itself is exercised by the bounded stand-in);
  * the destination "set" is duplicate-free: a list is (n, elements, member, position) with the well-formedness
    `wf` (position is the inverse of the element function on the members) -- precondition of the contracts;
  * World.connect is external (C11 decides it): each call is recorded in a ghost log (source, destination) together
    with a ghost counter cnt[d] = number of recorded calls with destination d (updated with the log, so it IS the
    count by construction) and a flag "the caller's *attrs / keyword arguments were passed on unchanged";
    an exception raised by World.connect would simply propagate and is not modelled;
  * assumed contracts of the standard library: random.randint(a, b) raises ValueError iff a > b and otherwise
    returns some i with a <= i <= b; random.shuffle(l) permutes l in place (for a duplicate-free list: same
    length, same members, again duplicate-free); list.remove(x) removes the first element equal to x
    (ValueError if there is none); set.add, dict.get, dict item access as in Python;
  * max_connects is an int or float('inf') (two shape variants; n * inf = inf for n >= 1, int >= inf is False).
  * partial correctness: termination of the while loop of _connect_evenly (pos grows by len(dest_set) >= 1) is
    not proved.

The capacity argument of _connect_randomly needs a sum over the destinations, Cap(cnt, j) = sum over i < j of
(max_connects - cnt[dest0[i]]), introduced by its recursive definition; the three facts used about it are proved
by induction (base and step are separate lemmas below, each discharged on every run):
   L1  Cap(0, j) = j * max_connects
   L2  Cap(cnt[d += 1], j) = Cap(cnt, j) - (1 if position0(d) < j else 0)        for members d
   L3  (for all i < j: cnt[dest0[i]] >= max_connects)  =>  Cap(cnt, j) <= 0
Instances of L1-L3 are handed to the solver where they are needed (at entry, at each recorded connect call, at each
randint call).
"""
from pyvc.contract import Contract, Lemma
from pyvc.spec import And, Or, Not, Implies, Iff
try:
    import z3
    from pyvc.values import SymSeq, Builtin, Unsupported, Opaque, is_z3, simp
    from pyvc.interp import Namespace
except Exception:  # pragma: no cover  (native replay: no z3)
    z3 = None
    SymSeq = object
import ast

UTIL = "mosaik.util"

if z3 is not None:
    Ent = z3.DeclareSort("UEnt")
    I = z3.IntSort()
    CntSort = z3.ArraySort(Ent, I)
    # destination list at entry (fixed per verification run): element function, membership, position
    ARR0 = z3.Array("dest0", I, Ent)
    MEM0 = z3.Array("dest0.member", Ent, z3.BoolSort())
    POS0 = z3.Array("dest0.pos", Ent, I)
    N0 = z3.Int("dest0.len")
    MAXC = z3.Int("max_connects")
    Cap = z3.Function("Cap", CntSort, I, I)
    ZERO = z3.K(Ent, z3.IntVal(0))


def cap_def(c, j):
    """the recursive definition of Cap, instantiated at (c, j): Cap(c, 0) = 0, Cap(c, j + 1) = Cap(c, j) + max - c[dest0[j]]"""
    return And(Cap(c, 0) == 0, Implies(j >= 0, Cap(c, j + 1) == Cap(c, j) + MAXC - c[ARR0[j]]))


_names = iter(range(1, 10 ** 9))


def _bv(prefix, sort):
    return z3.Const(f"{prefix}!u{next(_names)}", sort)


class EList(SymSeq):
    """a Python list of entities (reference semantics: mutated in place).  `mem` / `pos` are given for duplicate-free
    lists (the destination list) and None otherwise."""
    elem_sort = "entity"

    def __init__(self, n, get, mem=None, pos=None):
        SymSeq.__init__(self, n, get, "list")
        self.mem, self.pos = mem, pos

    @staticmethod
    def fresh(p, name, with_index=True):
        n = p.fresh(name + ".len", "int")
        p.assume(n >= 0)
        arr = p.fresh(name, z3.ArraySort(I, Ent))
        if not with_index:
            return EList(n, lambda i, arr=arr: arr[i])
        mem = p.fresh(name + ".member", z3.ArraySort(Ent, z3.BoolSort()))
        pos = p.fresh(name + ".pos", z3.ArraySort(Ent, I))
        return EList(n, lambda i, arr=arr: arr[i], lambda d, mem=mem: mem[d], lambda d, pos=pos: pos[d])

    def copy(self):
        return EList(self.length, self.get, self.mem, self.pos)

    def assign(self, other):
        self.length, self.get, self.mem, self.pos = other.length, other.get, other.mem, other.pos


def wf(l):
    """duplicate-free list: pos is the inverse of get on the members"""
    d = _bv("d", Ent)
    i = _bv("i", I)
    return And(l.length >= 0,
               z3.ForAll([d], Implies(l.mem(d), And(l.pos(d) >= 0, l.pos(d) < l.length, l.get(l.pos(d)) == d))),
               z3.ForAll([i], Implies(And(i >= 0, i < l.length), And(l.mem(l.get(i)), l.pos(l.get(i)) == i))))


def same_members(a, b):
    d = _bv("d", Ent)
    return z3.ForAll([d], a.mem(d) == b.mem(d))


def same_list(a, n, get):
    i = _bv("i", I)
    return And(a.length == n, z3.ForAll([i], Implies(And(i >= 0, i < n), a.get(i) == get(i))))


DEST0 = None
if z3 is not None:
    DEST0 = EList(N0, lambda i: ARR0[i], lambda d: MEM0[d], lambda d: POS0[d])


class ESet:
    """a Python set of entities (mutated in place): characteristic array"""

    def __init__(self, arr):
        self.arr = arr


class EDict:
    """a Python dict entity -> int (mutated in place)"""

    def __init__(self, present, val):
        self.present, self.val = present, val


class Inf:
    """float('inf')"""


class NaN:
    pass


INF, NAN = Inf(), NaN()


class WorldU:
    """the World: only .connect is used (external, recorded)"""


class AttrsTok:
    """the caller's *attrs: an arbitrary tuple of attribute names / pairs, passed on as it is"""
    is_abstract_collection = True


class UtilModel:
    def __init__(self, sess):
        self.s = sess
        sess.models.insert(0, self)
        sess.util = self
        self.world = WorldU()
        self.attrs = AttrsTok()
        self.expect_kw = {}
        self.cap_mode = False          # instances of the Cap lemmas are handed out (int variant of _connect_randomly)
        sess.builtins["set"] = Builtin("set", self._set)
        sess.builtins["float"] = Builtin("float", self._float)

    # ---- ghost state
    def reset(self, p):
        p.ghost["u"] = {"n": z3.IntVal(0), "src": z3.K(I, _bv("none", Ent)), "dst": z3.K(I, _bv("none", Ent)),
                        "ok": z3.BoolVal(True), "cnt": ZERO}

    def g(self, it):
        return it.p.ghost["u"]

    def havoc_ghost(self, it):
        p = it.p
        n = p.fresh("log.len", "int")
        p.assume(n >= 0)
        p.ghost["u"] = {"n": n, "src": p.fresh("log.src", z3.ArraySort(I, Ent)), "dst": p.fresh("log.dst", z3.ArraySort(I, Ent)),
                        "ok": p.fresh("log.ok", "bool"), "cnt": p.fresh("cnt", CntSort)}

    # ---- builtins
    def _set(self, it, node, x=None):
        if x is None:
            return ESet(z3.K(Ent, z3.BoolVal(False)))
        raise Unsupported("set(iterable)")

    def _float(self, it, node, x):
        if x == "inf":
            return INF
        raise Unsupported("float()")

    def _connect(self, it, node, *args, _star=None, **kw):
        if len(args) < 2:
            it.raise_("TypeError", node, implicit="arity")
        src, dest, rest = args[0], args[1], args[2:]
        if not (is_z3(src) and src.sort() == Ent and is_z3(dest) and dest.sort() == Ent):
            raise Unsupported("World.connect on something that is not an entity")
        g = dict(self.g(it))
        ok = len(rest) == 0 and _star is self.attrs and set(kw) == set(self.expect_kw)
        okf = z3.BoolVal(bool(ok))
        if ok:
            for k, v in kw.items():
                e = self.expect_kw[k]
                okf = And(okf, (v == e) if (is_z3(v) or is_z3(e)) else z3.BoolVal(v is e or v == e))
        old_cnt = g["cnt"]
        g["src"] = z3.Store(g["src"], g["n"], src)
        g["dst"] = z3.Store(g["dst"], g["n"], dest)
        g["n"] = g["n"] + 1
        g["ok"] = And(g["ok"], okf)
        g["cnt"] = z3.Store(old_cnt, dest, old_cnt[dest] + 1)
        it.p.ghost["u"] = g
        if self.cap_mode:
            # instance of lemma L2 (Cap_update_base / Cap_update_step) at (cnt, dest, len(dest0))
            it.p.assume(Implies(MEM0[dest], Cap(g["cnt"], N0) == Cap(old_cnt, N0) - z3.If(POS0[dest] < N0, 1, 0)))
        return None

    def _randint(self, it, node, a, b):
        self.cap_hint(it)
        it.check_raise(a > b, "ValueError", node, "random.randint on an empty range")
        i = it.p.fresh("randint", "int")
        it.p.assume(And(a <= i, i <= b))
        return i

    def _shuffle(self, it, node, lst):
        if not isinstance(lst, EList) or lst.mem is None:
            raise Unsupported("random.shuffle of a list that is not known to be duplicate-free")
        new = EList.fresh(it.p, "shuffled")
        # assumed contract of random.shuffle on a duplicate-free list: same length, same members, duplicate-free
        it.p.assume(And(new.length == lst.length, wf(new), same_members(new, lst)))
        lst.assign(new)
        return None

    def cap_hint(self, it):
        """instance of lemma L3 (contrapositive, skolemised) for the current counter: if capacity is left, some
        destination of the original list has received fewer than max_connects connections"""
        if not self.cap_mode:
            return
        w = it.p.fresh("witness", "int")
        cnt = self.g(it)["cnt"]
        it.p.assume(Implies(Cap(cnt, N0) > 0, And(w >= 0, w < N0, cnt[ARR0[w]] < MAXC)))

    # ---- hooks
    def resolve_import(self, dotted):
        if dotted == "random":
            return Namespace("random", {"randint": Builtin("random.randint", self._randint),
                                        "shuffle": Builtin("random.shuffle", self._shuffle)})
        return NotImplemented

    def getattr(self, it, obj, name, node):
        if isinstance(obj, WorldU):
            if name == "connect":
                return Builtin("World.connect", self._connect)
            raise Unsupported(f"world.{name}")
        if isinstance(obj, EList):
            if name == "remove":
                def remove(it2, node2, x, obj=obj):
                    if obj.mem is None:
                        raise Unsupported("list.remove on a list that is not known to be duplicate-free")
                    it2.check_raise(Not(obj.mem(x)), "ValueError", node2, "list.remove(x): x not in list")
                    j = obj.pos(x)
                    old = obj.copy()
                    obj.assign(EList(simp(old.length - 1),
                                     lambda i, old=old, j=j: z3.If(i < j, old.get(i), old.get(i + 1)),
                                     lambda d, old=old, x=x: And(old.mem(d), d != x),
                                     lambda d, old=old, j=j: z3.If(old.pos(d) > j, old.pos(d) - 1, old.pos(d))))
                    return None
                return Builtin("list.remove", remove)
            raise Unsupported(f"list.{name} on an entity list")
        if isinstance(obj, ESet):
            if name == "add":
                def add(it2, node2, x, obj=obj):
                    if not (is_z3(x) and x.sort() == Ent):
                        raise Unsupported("set.add of a non-entity")
                    obj.arr = z3.Store(obj.arr, x, True)
                    return None
                return Builtin("set.add", add)
            raise Unsupported(f"set.{name}")
        if isinstance(obj, EDict):
            if name == "get":
                def get(it2, node2, k, default=None, obj=obj):
                    if default is None:
                        raise Unsupported("dict.get without an int default")
                    return z3.If(obj.present[k], obj.val[k], default)
                return Builtin("dict.get", get)
            raise Unsupported(f"dict.{name}")
        return NotImplemented

    def getitem(self, it, obj, idx, node):
        if isinstance(obj, EDict):
            it.check_raise(Not(obj.present[idx]), "KeyError", node, "dict[key]")
            return obj.val[idx]
        return NotImplemented

    def setitem(self, it, obj, idx, v, node):
        if isinstance(obj, EDict):
            obj.present = z3.Store(obj.present, idx, True)
            obj.val = z3.Store(obj.val, idx, v)
            return True
        return NotImplemented

    def dict_display(self, it, e, env):
        if not e.keys:
            return EDict(z3.K(Ent, z3.BoolVal(False)), ZERO)
        return NotImplemented

    def to_list(self, it, x, node):
        if isinstance(x, EList):
            return x.copy()
        return NotImplemented

    def truth(self, it, v):
        if isinstance(v, (Inf,)):
            return True
        return NotImplemented

    def binop(self, it, name, a, b, node):
        for x, y in ((a, b), (b, a)):
            if isinstance(y, Inf) and name == "mul" and (is_z3(x) and z3.is_int(x) or isinstance(x, int)):
                if it.decide(x > 0):
                    return INF
                if it.decide(x == 0):
                    return NAN
                raise Unsupported("negative * inf")
        return NotImplemented

    def order(self, it, name, a, b, node):
        def isint(x):
            return isinstance(x, int) or (is_z3(x) and z3.is_int(x))
        if isint(a) and isinstance(b, Inf):
            return name in ("lt", "le")
        if isinstance(a, Inf) and isint(b):
            return name in ("gt", "ge")
        if isinstance(a, NaN) or isinstance(b, NaN):
            return False
        return NotImplemented

    def havoc_value(self, it, nm, cur):
        if isinstance(cur, EList):
            return EList.fresh(it.p, nm, with_index=cur.mem is not None)
        if isinstance(cur, ESet):
            return ESet(it.p.fresh(nm, z3.ArraySort(Ent, z3.BoolSort())))
        if isinstance(cur, EDict):
            return EDict(it.p.fresh(nm + ".present", z3.ArraySort(Ent, z3.BoolSort())), it.p.fresh(nm + ".val", CntSort))
        return NotImplemented

    def havoc_loop_heap(self, it, st, env):
        """objects mutated in the loop body otherwise than through a method call on their name: dict item assignment,
        random.shuffle(name); and the ghost log of World.connect calls"""
        names = set()
        for n in ast.walk(ast.Module(body=st.body, type_ignores=[])):
            if isinstance(n, ast.Subscript) and isinstance(n.ctx, (ast.Store, ast.Del)) and isinstance(n.value, ast.Name):
                names.add(n.value.id)
            if isinstance(n, ast.Call):
                for a in n.args:
                    if isinstance(a, ast.Name):
                        try:
                            v = env.lookup(a.id)
                        except KeyError:
                            continue
                        f = n.func
                        fname = f.attr if isinstance(f, ast.Attribute) else getattr(f, "id", "")
                        if isinstance(v, (EList, ESet, EDict)) and fname not in ("connect", "zip", "len", "list", "randint"):
                            names.add(a.id)       # passed to some function that may mutate it (shuffle, ...)
        for nm in sorted(names):
            try:
                cur = env.lookup(nm)
            except KeyError:
                continue
            if isinstance(cur, (EList, ESet, EDict)):
                env.set(nm, self.havoc_value(it, nm, cur))
        self.havoc_ghost(it)
        return None


def configure(sess):
    UtilModel(sess)


# ---------------------------------------------------------------------------------------------------- spec helpers
def log_entries(g, n, src, dest_pred):
    """the first n recorded calls are (src[k], some destination satisfying dest_pred), k = 0 .. n-1"""
    k = _bv("k", I)
    return z3.ForAll([k], Implies(And(k >= 0, k < n), And(g["src"][k] == src.get(k), dest_pred(g["dst"][k]))))


def returned_is_connected(arr, cnt):
    d = _bv("d", Ent)
    return z3.ForAll([d], arr[d] == (cnt[d] > 0))


def outside_untouched(cnt, mem):
    d = _bv("d", Ent)
    return z3.ForAll([d], Implies(Not(mem(d)), cnt[d] == 0))


def even(cnt, mem):
    d, e = _bv("d", Ent), _bv("e", Ent)
    return z3.ForAll([d, e], Implies(And(mem(d), mem(e)), cnt[d] - cnt[e] <= 1))


def at_most(cnt, m):
    d = _bv("d", Ent)
    return z3.ForAll([d], cnt[d] <= m)


class _UtilContract(Contract):
    property_ids = ["C18"]
    configure = "configure"
    expect_kw = {}

    def setup(self, p, A, mk):
        m = mk.s.util
        self._p = p
        m.reset(p)
        m.expect_kw = dict(self.expect_kw_of(A))
        m.cap_mode = bool(getattr(self, "cap_mode_of", lambda A: False)(A))
        if m.cap_mode:
            # instance of lemma L1 (Cap_zero_base / Cap_zero_step) at j = len(dest0)
            p.assume(Cap(ZERO, N0) == N0 * MAXC)

    def expect_kw_of(self, A):
        return {}

    # ---- native replay / small-scope search (real function, every random outcome; contracts/util_native.py)
    def native_call(self, m):
        from contracts import util_native as UN
        fn = self.target.split(".")[-1]
        case = UN.case_of_model(fn, m)
        if case is None:
            return True, "counter-model too large for an exhaustive native replay (the small-scope search follows)"
        ns, nd, ev, mc = case
        if isinstance(mc, str):
            mc = float(mc)
        return UN.check_case(fn, ns, nd, ev, mc)

    def native_search(self, budget):
        from contracts import util_native as UN
        yield from UN.search_cases(self.target.split(".")[-1], budget)

    def base_args(self, mk):
        m = mk.s.util
        src = EList(z3.Int("src.len"), lambda i: z3.Array("src", I, Ent)[i])
        mk.s.side_assumptions.append(src.length >= 0)
        mk.s.side_assumptions.append(N0 >= 0)
        mk.inputs["src.len"] = ("int", src.length)
        mk.inputs["dest0.len"] = ("int", N0)
        return m, src


# ------------------------------------------------------------------------------------------- connect_many_to_one
class ConnectManyToOne(_UtilContract):
    """connect_many_to_one: exactly the calls connect(src_set[k], dest, *attrs, async_requests=async_requests), k = 0..n-1"""
    target = UTIL + ".connect_many_to_one"

    def make_args(self, mk):
        m, src = self.base_args(mk)
        return {"world": m.world, "src_set": src, "dest": z3.Const("dest", Ent), "attrs": m.attrs,
                "async_requests": mk.bool("async_requests")}

    def expect_kw_of(self, A):
        return {"async_requests": A.async_requests}

    def _inv(self, k, v, A):
        g = v._i.p.ghost["u"]
        return {"one_call_per_source_so_far": g["n"] == k,
                "each_to_dest": log_entries(g, k, A.src_set, lambda d: d == A.dest),
                "arguments_passed_on": g["ok"]}

    loops = {0: lambda c, k, v, A: c._inv(k, v, A)}

    def split_post(self, A, result):
        g = self._p.ghost["u"]
        n = A.src_set.length
        return {"one_call_per_source": g["n"] == n,
                "each_source_to_dest_in_order": log_entries(g, n, A.src_set, lambda d: d == A.dest),
                "arguments_passed_on": g["ok"],
                "returns_None": z3.BoolVal(result is None)}


# ---------------------------------------------------------------------------------------------- _connect_randomly
def _mc_value(variant_inf):
    return INF if variant_inf else MAXC


class ConnectRandomlyInner(_UtilContract):
    """_connect_randomly: every source once, to a member; cnt <= max_connects; returned set = {d | cnt[d] > 0};
    no ValueError from randint / remove, no IndexError, no KeyError (the capacity argument)"""
    target = UTIL + "._connect_randomly"
    variants = [{"inf": False}, {"inf": True}]
    raises = {}

    def make_args(self, mk, inf=False):
        m, src = self.base_args(mk)
        self._inf = inf
        if not inf:
            mk.inputs["max_connects"] = ("int", MAXC)
        return {"world": m.world, "src_set": src, "dest_set": DEST0.copy(), "attrs": m.attrs, "max_connects": _mc_value(inf)}

    def cap_mode_of(self, A):
        return not isinstance(A.max_connects, Inf)

    def requires(self, A):
        # (the caller, connect_randomly, has asserted that the destination list is not empty and passes its own copy)
        return And(wf(DEST0), N0 >= 1)

    def raise_allowed(self, A, e):
        if e.cls == "AssertionError":
            if isinstance(A.max_connects, Inf):
                return False
            return A.src_set.length > N0 * MAXC
        return None

    def _inv(self, k, v, A):
        g = v._i.p.ghost["u"]
        cur, conn, cnt = v.dest_set, v.connected, g["cnt"]
        inv = {"one_call_per_source_so_far": g["n"] == k,
               "each_to_a_member": log_entries(g, k, A.src_set, lambda d: MEM0[d]),
               "arguments_passed_on": g["ok"],
               "returned_is_connected": returned_is_connected(conn.arr, cnt),
               "outside_untouched": outside_untouched(cnt, lambda d: MEM0[d]),
               "max_i": v.max_i == cur.length - 1}
        d = _bv("d", Ent)
        inv["counts_nonneg"] = z3.ForAll([d], cnt[d] >= 0)
        if isinstance(A.max_connects, Inf):
            inv["list_unchanged"] = And(wf(cur), same_members(cur, DEST0), cur.length == N0)
        else:
            cs = v.connects
            inv["nonpositive_max_means_no_sources"] = Implies(MAXC <= 0, A.src_set.length == 0)
            inv["dict_is_cnt"] = z3.ForAll([d], And(cs.present[d] == (cnt[d] > 0), Implies(cs.present[d], cs.val[d] == cnt[d])))
            inv["at_most_max"] = at_most(cnt, MAXC)
            inv["list_wf"] = wf(cur)
            inv["list_is_open_destinations"] = Implies(MAXC >= 1, z3.ForAll([d], cur.mem(d) == And(MEM0[d], cnt[d] < MAXC)))
            inv["capacity_left"] = Cap(cnt, N0) == N0 * MAXC - k
        return inv

    loops = {0: lambda c, k, v, A: c._inv(k, v, A)}

    def split_post(self, A, result):
        g = self._p.ghost["u"]
        n = A.src_set.length
        post = {"one_call_per_source": g["n"] == n,
                "each_source_to_a_member_in_order": log_entries(g, n, A.src_set, lambda d: MEM0[d]),
                "arguments_passed_on": g["ok"],
                "returned_set_is_exactly_the_connected_destinations": returned_is_connected(result.arr, g["cnt"])
                if isinstance(result, ESet) else z3.BoolVal(False)}
        if not isinstance(A.max_connects, Inf):
            post["no_destination_above_max_connects"] = at_most(g["cnt"], MAXC)
        return post


# ------------------------------------------------------------------------------------------------ _connect_evenly
class ConnectEvenly(_UtilContract):
    """_connect_evenly: every source once, to a member; counts of two destinations differ by at most one;
    returned set = {d | cnt[d] > 0}"""
    target = UTIL + "._connect_evenly"

    def make_args(self, mk):
        m, src = self.base_args(mk)
        return {"world": m.world, "src_set": src, "dest_set": DEST0.copy(), "attrs": m.attrs}

    def requires(self, A):
        return And(wf(DEST0), N0 >= 1)

    def _common(self, v, A, g):
        cur = v.dest_set
        d = _bv("d", Ent)
        return {"arguments_passed_on": g["ok"],
                "counts_nonneg": z3.ForAll([d], g["cnt"][d] >= 0),
                "returned_is_connected": returned_is_connected(v.connected.arr, g["cnt"]),
                "outside_untouched": outside_untouched(g["cnt"], lambda d: MEM0[d]),
                "list_is_a_permutation": And(wf(cur), same_members(cur, DEST0), cur.length == N0)}

    def _outer(self, k, v, A):
        g = v._i.p.ghost["u"]
        n, cnt = A.src_set.length, g["cnt"]
        d, e = _bv("d", Ent), _bv("e", Ent)
        inv = self._common(v, A, g)
        inv.update({
            "pos": And(v.pos >= 0, v.src_size == n, v.dest_size == N0),
            "connected_so_far": g["n"] == z3.If(v.pos <= n, v.pos, n),
            "each_to_a_member": log_entries(g, g["n"], A.src_set, lambda x: MEM0[x]),
            "even": even(cnt, lambda x: MEM0[x]),
            "equal_after_full_rounds": Implies(v.pos <= n, z3.ForAll([d, e], Implies(And(MEM0[d], MEM0[e]), cnt[d] == cnt[e]))),
        })
        return inv

    def _inner(self, k, v, A):
        g = v._i.p.ghost["u"]
        n, cnt, cur = A.src_set.length, g["cnt"], v.dest_set
        d, e = _bv("d", Ent), _bv("e", Ent)
        inv = self._common(v, A, g)

        def base(x):
            return cnt[x] - z3.If(cur.pos(x) < k, 1, 0)
        inv.update({
            "pos": And(v.pos >= 0, v.pos < n, v.src_size == n, v.dest_size == N0),
            "connected_so_far": g["n"] == v.pos + k,
            "each_to_a_member": log_entries(g, g["n"], A.src_set, lambda x: MEM0[x]),
            "first_k_of_this_round_have_one_more": z3.ForAll([d, e], Implies(And(MEM0[d], MEM0[e]), base(d) == base(e))),
        })
        return inv

    loops = {0: lambda c, k, v, A: c._outer(k, v, A), 1: lambda c, k, v, A: c._inner(k, v, A)}

    def split_post(self, A, result):
        g = self._p.ghost["u"]
        n = A.src_set.length
        return {"one_call_per_source": g["n"] == n,
                "each_source_to_a_member_in_order": log_entries(g, n, A.src_set, lambda d: MEM0[d]),
                "arguments_passed_on": g["ok"],
                "connections_per_destination_differ_by_at_most_one": even(g["cnt"], lambda d: MEM0[d]),
                "returned_set_is_exactly_the_connected_destinations": returned_is_connected(result.arr, g["cnt"])
                if isinstance(result, ESet) else z3.BoolVal(False)}


CONTRACTS = [ConnectManyToOne(), ConnectRandomlyInner(), ConnectEvenly()]


# ----------------------------------------------------------------------------- callee contracts at the call sites
def _callee_requires(it, local, m):
    g = m.g(it)
    L = local.dest_set
    if not isinstance(L, EList) or L.mem is None:
        raise Unsupported("destination list of unknown shape passed on")
    return {"destination_list_duplicate_free": wf(L),
            "destination_list_not_empty": L.length >= 1,
            "world_and_attrs_passed_on": z3.BoolVal(local.world is m.world and local.attrs is m.attrs),
            "no_connection_made_before": And(g["n"] == 0, g["cnt"] == ZERO, g["ok"])}


def _callee_effect(it, local, m, even_mode, maxc):
    """the callee's postcondition, as the caller sees it (fresh log / counter / result constrained by the contract);
    the passed destination list is modified arbitrarily (shuffled / entries removed)"""
    p = it.p
    L = local.dest_set
    src = local.src_set
    mem = L.mem                      # membership at the time of the call
    m.havoc_ghost(it)
    g = m.g(it)
    d = _bv("d", Ent)
    facts = [g["n"] == src.length, log_entries(g, src.length, src, mem), g["ok"],
             z3.ForAll([d], g["cnt"][d] >= 0), outside_untouched(g["cnt"], mem)]
    if even_mode:
        facts.append(even(g["cnt"], mem))
    elif not isinstance(maxc, Inf):
        facts.append(at_most(g["cnt"], maxc))
    res = ESet(p.fresh("connected", z3.ArraySort(Ent, z3.BoolSort())))
    facts.append(returned_is_connected(res.arr, g["cnt"]))
    p.assume(And(*facts))
    L.assign(EList.fresh(p, "dest_after_call"))
    return res


def _evenly_call_requires(self, it, local):
    return _callee_requires(it, local, it.s.util)


def _evenly_call_effect(self, it, local, node):
    return _callee_effect(it, local, it.s.util, True, None)


def _randomly_call_requires(self, it, local):
    r = _callee_requires(it, local, it.s.util)
    r["max_connects_is_an_int_or_inf"] = z3.BoolVal(isinstance(local.max_connects, Inf) or
                                                    (is_z3(local.max_connects) and z3.is_int(local.max_connects)))
    return r


def _randomly_call_effect(self, it, local, node):
    mc = local.max_connects
    if not isinstance(mc, Inf):
        if it.decide(local.src_set.length > local.dest_set.length * mc):
            it.raise_("AssertionError", node, implicit="contract of _connect_randomly")
    return _callee_effect(it, local, it.s.util, False, mc)


ConnectEvenly.call_requires = _evenly_call_requires
ConnectEvenly.call_effect = _evenly_call_effect
ConnectRandomlyInner.call_requires = _randomly_call_requires
ConnectRandomlyInner.call_effect = _randomly_call_effect


def configure_caller(sess):
    configure(sess)
    for c in (ConnectEvenly(), ConnectRandomlyInner()):
        sess.register(c)
        sess.use_contracts_for.add(c.target)


class ConnectRandomly(_UtilContract):
    """connect_randomly (through the contracts of its two callees): AssertionError iff the destination set is empty or
    (evenly=False and) len(src_set) > len(dest_set) * max_connects; otherwise every source is connected exactly once to a
    member of the destination set, evenly=True: counts differ by at most one, evenly=False: no count above max_connects;
    the returned set is exactly the set of connected destinations; the caller's destination list is left as it was"""
    target = UTIL + ".connect_randomly"
    configure = "configure_caller"
    variants = [{"inf": False}, {"inf": True}]

    def make_args(self, mk, inf=False):
        m, src = self.base_args(mk)
        if not inf:
            mk.inputs["max_connects"] = ("int", MAXC)
        return {"world": m.world, "src_set": src, "dest_set": DEST0.copy(), "attrs": m.attrs, "evenly": mk.bool("evenly"),
                "max_connects": _mc_value(inf)}

    def requires(self, A):
        return wf(DEST0)

    @property
    def raises(self):
        def cond(A):
            c = N0 == 0
            if not isinstance(A.max_connects, Inf):
                c = Or(c, And(Not(A.evenly), A.src_set.length > N0 * MAXC))
            return c
        return {"AssertionError": cond}

    def split_post(self, A, result):
        g = self._p.ghost["u"]
        n = A.src_set.length
        mem = DEST0.mem
        post = {"one_call_per_source": g["n"] == n,
                "each_source_to_a_member_in_order": log_entries(g, n, A.src_set, mem),
                "arguments_passed_on": g["ok"],
                "evenly_counts_differ_by_at_most_one": Implies(A.evenly, even(g["cnt"], mem)),
                "returned_set_is_exactly_the_connected_destinations": returned_is_connected(result.arr, g["cnt"])
                if isinstance(result, ESet) else z3.BoolVal(False),
                "callers_destination_list_untouched": same_list(A.dest_set, N0, DEST0.get)}
        if not isinstance(A.max_connects, Inf):
            post["not_evenly_no_destination_above_max_connects"] = Implies(Not(A.evenly), at_most(g["cnt"], MAXC))
        return post


CONTRACTS.append(ConnectRandomly())


# ---------------------------------------------------------------------------------------------------- Cap lemmas
class _CapLemma(Lemma):
    property_ids = ["C18"]

    def native_check(self, m):
        return True, "arithmetic lemma about the specification function Cap (no code)"


class CapZeroBase(_CapLemma):
    """L1, base: Cap(0, 0) = 0 * max_connects"""
    name = "Cap_zero_base"

    def statement(self, mk):
        return [cap_def(ZERO, z3.IntVal(0))], Cap(ZERO, 0) == 0 * MAXC


class CapZeroStep(_CapLemma):
    """L1, step: Cap(0, j) = j * max_connects  =>  Cap(0, j + 1) = (j + 1) * max_connects"""
    name = "Cap_zero_step"

    def statement(self, mk):
        j = mk.int("j")
        return [j >= 0, cap_def(ZERO, j), Cap(ZERO, j) == j * MAXC], Cap(ZERO, j + 1) == (j + 1) * MAXC


def _upd(mk):
    c = z3.Const("cnt", CntSort)
    d = z3.Const("d", Ent)
    return c, d, z3.Store(c, d, c[d] + 1)


class CapUpdateBase(_CapLemma):
    """L2, base: Cap(cnt[d += 1], 0) = Cap(cnt, 0) - (1 if position0(d) < 0 else 0)"""
    name = "Cap_update_base"

    def statement(self, mk):
        c, d, c2 = _upd(mk)
        z = z3.IntVal(0)
        return [wf(DEST0), MEM0[d], cap_def(c, z), cap_def(c2, z)], Cap(c2, 0) == Cap(c, 0) - z3.If(POS0[d] < 0, 1, 0)


class CapUpdateStep(_CapLemma):
    """L2, step (j -> j + 1, j < len(dest0)): one more connection to a member d lowers Cap(., j) by one iff d is among the
    first j destinations"""
    name = "Cap_update_step"

    def statement(self, mk):
        c, d, c2 = _upd(mk)
        j = mk.int("j")
        hyps = [wf(DEST0), MEM0[d], j >= 0, j < N0, cap_def(c, j), cap_def(c2, j),
                Cap(c2, j) == Cap(c, j) - z3.If(POS0[d] < j, 1, 0)]
        return hyps, Cap(c2, j + 1) == Cap(c, j + 1) - z3.If(POS0[d] < j + 1, 1, 0)


class CapFullBase(_CapLemma):
    """L3, base: Cap(cnt, 0) <= 0"""
    name = "Cap_full_base"

    def statement(self, mk):
        c = z3.Const("cnt", CntSort)
        return [cap_def(c, z3.IntVal(0))], Cap(c, 0) <= 0


class CapFullStep(_CapLemma):
    """L3, step: if the first j + 1 destinations all have max_connects connections or more, Cap(cnt, j + 1) <= 0"""
    name = "Cap_full_step"

    def statement(self, mk):
        c = z3.Const("cnt", CntSort)
        j = mk.int("j")
        i = _bv("i", I)

        def full(upto):
            return z3.ForAll([i], Implies(And(i >= 0, i < upto), c[ARR0[i]] >= MAXC))
        hyps = [j >= 0, cap_def(c, j), Implies(full(j), Cap(c, j) <= 0), full(j + 1)]
        return hyps, Cap(c, j + 1) <= 0


LEMMAS = [CapZeroBase(), CapZeroStep(), CapUpdateBase(), CapUpdateStep(), CapFullBase(), CapFullStep()]
