"""Sidecar contract for MosaikRemote.get_data (mosaik/simmanager.py) -- an agent asking mosaik for data of other simulators during
its step (C16: refused with ScenarioError towards a simulator without an async_requests connection).

Proved for requests of arbitrary size ({full_id: [attr, ...]}):

  REFUSED    ScenarioError IFF some addressed simulator is one this simulator may not send asynchronous requests to; in that case
             NO simulator is sent a request (the permission of every addressed simulator is checked before the first request goes out)
  REQUESTS   on success, get_data requests go only to simulators that were addressed (and hence allowed), at most one per
             simulator, and exactly for the (entity, attribute) pairs that the cache did not answer; a simulator all of whose
             requested values were cached is not asked
  CACHED     a requested value found in the cache slice for the requester's last step is returned from there when the simulator
             is not asked for it again
  AssertionError iff called outside a step; KeyError iff an addressed simulator id does not exist; nothing else is raised.

Model / assumptions: strings uninterpreted; full_id.split('.', 1) = (sid, eid) jointly injective and 'sid.eid' formatting its
inverse; distinct simulator ids name distinct SimRunners; _assert_async_requests through its contract (predicate may_request);
SimRunner.get_output_for through its contract's shape (some cache slice: an uninterpreted partial map entity x attribute -> value;
contracts.dataplane proves which slice); collections.defaultdict of defaultdict of list is the relation "missing(sid, eid, attr)";
the simulator's reply is an arbitrary partial map (external); dict levels are walked in an arbitrary order, each key once; the
attribute list of one entity is walked by index.
"""
from pyvc.contract import Contract
from pyvc.spec import And, Or, Not, Implies, Iff
try:
    import z3
    from pyvc.values import SymSeq, SymObj, Builtin, Unsupported, Opaque, Func, BoundMethod, is_z3, simp
    from pyvc.interp import Namespace
    from pyvc import extract
    from contracts.set_data_ded import Str, Sim, Val, B, sid_of, eid_of, has_sim, sim_of, may_request, _c, WorldT, SimsT, FullId
except Exception:  # pragma: no cover  (native replay: no z3)
    z3 = None
    SymSeq = object

MR = "mosaik.simmanager.MosaikRemote"

if z3 is not None:
    I = z3.IntSort()
    a_has = z3.Function("asked_entity", Str, B)                    # full ids in the request
    a_len = z3.Function("asked_attr_count", Str, I)
    a_at = z3.Function("asked_attr", Str, I, Str)
    c_has = z3.Function("cache_has", Sim, Str, Str, B)              # cache slice of a simulator: (eid, attr) present
    c_val = z3.Function("cache_value", Sim, Str, Str, Val)
    r_has_e = z3.Function("reply_has_entity", Str, Str, B)          # reply of simulator sid: entity present
    r_has = z3.Function("reply_has", Str, Str, Str, B)
    r_val = z3.Function("reply_value", Str, Str, Str, Val)
    join = z3.Function("full_id_of", Str, Str, Str)
    MissS = z3.ArraySort(Str, z3.ArraySort(Str, z3.ArraySort(Str, B)))      # sid -> eid -> attr
    ReqS = z3.ArraySort(Str, I)                                               # requests per sid
    DP = z3.ArraySort(Str, z3.ArraySort(Str, B))
    DV = z3.ArraySort(Str, z3.ArraySort(Str, Val))


class AttrsD:
    pass


class AttrList(SymSeq):
    def __init__(self, full):
        SymSeq.__init__(self, a_len(full), lambda i, full=full: a_at(full, i), "list")
        self.full = full


class Coll:
    is_abstract_collection = True

    def __init__(self, member, item, keyf=None):
        self.member_f, self.item_f, self.keyf = member, item, keyf
        self.key_sort = Str

    def arbitrary(self, it):
        return self.item_f(it, it.p.fresh("key", Str))

    def member(self, x):
        return self.member_f(x)

    def key_of(self, item):
        k = item[0]
        return k.term if isinstance(k, FullId) else k


class CacheT:
    def __init__(self, sim):
        self.sim = sim


class CacheE:
    def __init__(self, sim, eid):
        self.sim, self.eid = sim, eid


class DataT:
    pass


class DataRow:
    def __init__(self, full):
        self.full = full


class MissT:
    pass


class MissSid:
    def __init__(self, sid):
        self.sid = sid


class MissList:
    def __init__(self, sid, eid):
        self.sid, self.eid = sid, eid


class ProxyT:
    def __init__(self, sid):
        self.sid = sid


class SendT:
    def __init__(self, sid, req):
        self.sid, self.req = sid, req


class ReplyT:
    def __init__(self, sid):
        self.sid = sid


class ValsT:
    def __init__(self, sid, eid):
        self.sid, self.eid = sid, eid


class SimH:
    """a SimRunner looked up in world.sims (remembers the id it was looked up under)"""

    def __init__(self, sid):
        self.sid = sid


class GetDataModel:
    def __init__(self, sess):
        self.s = sess
        sess.models.insert(0, self)
        sess.gdm = self
        self.me = Opaque("this simulator")
        self.in_step = z3.Bool("requester_is_in_step")
        self.has_cur = z3.Bool("requester_has_current_step")
        self.use_cache = z3.Bool("world_use_cache")

    def reset(self, p):
        p.ghost["gd"] = {"miss": z3.K(Str, z3.K(Str, z3.K(Str, z3.BoolVal(False)))), "req": z3.K(Str, z3.IntVal(0)), "req_ok": z3.BoolVal(True),
                         "P": z3.K(Str, z3.K(Str, z3.BoolVal(False))), "V": z3.Const("data.value0", DV)}

    def module_constant(self, it, mod, name):
        if name == "FULL_ID_SEP":
            return "."
        if name == "FULL_ID":
            return "%s.%s"
        return NotImplemented

    def resolve_import(self, dotted):
        if dotted == "collections":
            def dd(it, node, factory=None):
                return MissT()
            return Namespace("collections", {"defaultdict": Builtin("collections.defaultdict", dd)})
        return NotImplemented

    def call(self, it, fn, args, kwargs, node, star):
        if isinstance(fn, BoundMethod) and fn.func.qualname == MR + "._assert_async_requests":
            src_sim, dest_sim = args
            if not (isinstance(src_sim, SimH) and dest_sim is self.me_obj):
                raise Unsupported("_assert_async_requests with other arguments than (addressed simulator, this simulator)")
            if it.decide(Not(may_request(sim_of(src_sim.sid)))):
                it.raise_("ScenarioError", node, implicit="_assert_async_requests refuses")
            return None
        return NotImplemented

    def binop(self, it, name, a, b, node):
        if name == "mod" and a == "%s.%s" and isinstance(b, tuple) and len(b) == 2:
            return join(b[0], b[1])
        return NotImplemented

    def dict_display(self, it, e, env):
        if not e.keys:
            # the first `{}` of the function is the result dict `data`; `cache_slice = {}` / `data[full_id] = {}` are empty rows
            g = it.p.ghost["gd"]
            if not g.get("data_made"):
                g = dict(g)
                g["data_made"] = True
                it.p.ghost["gd"] = g
                return DataT()
            return {}
        return NotImplemented

    def getattr(self, it, obj, name, node):
        g = it.p.ghost["gd"]
        if obj is self.me_obj:
            if name == "is_in_step":
                return self.in_step
            if name == "current_step":
                return Opaque("current step") if it.decide(self.has_cur) else None
            if name == "last_step":
                return Opaque("last_step")
            raise Unsupported(f"self.sim.{name}")
        if isinstance(obj, Opaque) and obj.tag == "last_step" and name == "time":
            return Opaque("last_step.time")
        if isinstance(obj, WorldT):
            if name == "sims":
                return SimsT()
            if name == "use_cache":
                return self.use_cache
        if isinstance(obj, AttrsD) and name == "items":
            return Builtin("dict.items", lambda it2, n2: Coll(lambda f: a_has(f), lambda it3, f: (FullId(f), AttrList(f))))
        if isinstance(obj, FullId) and name == "split":
            def split(it2, n2, sep, maxsplit=-1, obj=obj):
                if sep != "." or maxsplit != 1:
                    raise Unsupported("full_id.split with other arguments than ('.', 1)")
                return (sid_of(obj.term), eid_of(obj.term))
            return Builtin("str.split", split)
        if isinstance(obj, SimH):
            if name == "get_output_for":
                return Builtin("SimRunner.get_output_for", lambda it2, n2, t, obj=obj: CacheT(obj.sid))
            if name == "_proxy":
                return ProxyT(obj.sid)
            raise Unsupported(f"sim.{name}")
        if isinstance(obj, ProxyT) and name == "send":
            return Builtin("proxy.send", lambda it2, n2, req, obj=obj: SendT(obj.sid, req))
        if isinstance(obj, MissList) and name == "append":
            def app(it2, n2, attr, obj=obj):
                gg = dict(it2.p.ghost["gd"])
                m = gg["miss"]
                gg["miss"] = z3.Store(m, obj.sid, z3.Store(m[obj.sid], obj.eid, z3.Store(m[obj.sid][obj.eid], attr, True)))
                it2.p.ghost["gd"] = gg
            return Builtin("list.append", app)
        if isinstance(obj, MissT) and name == "items":
            def items(it2, n2):
                e, a = _c("e", Str), _c("a", Str)
                return Coll(lambda s: z3.Exists([e, a], it2.p.ghost["gd"]["miss"][s][e][a]), lambda it3, s: (s, MissSid(s)))
            return Builtin("dict.items", items)
        if isinstance(obj, ReplyT) and name == "items":
            return Builtin("dict.items", lambda it2, n2, obj=obj: Coll(lambda e: r_has_e(obj.sid, e), lambda it3, e: (e, ValsT(obj.sid, e))))
        if isinstance(obj, DataT) and name == "setdefault":
            def sd(it2, n2, key, default=None):
                if default != {}:
                    raise Unsupported("setdefault with a non-empty default")
                return DataRow(key)
            return Builtin("dict.setdefault", sd)
        if isinstance(obj, DataRow) and name == "update":
            def upd(it2, n2, vals, obj=obj):
                if not isinstance(vals, ValsT):
                    raise Unsupported("update with something else than a reply row")
                gg = dict(it2.p.ghost["gd"])
                a = _c("a", Str)
                f = obj.full
                newP = it2.p.fresh("data.present", DP)
                newV = it2.p.fresh("data.value", DV)
                f2, a2 = _c("f", Str), _c("a", Str)
                it2.p.assume(z3.ForAll([f2, a2], And(
                    newP[f2][a2] == Or(gg["P"][f2][a2], And(f2 == f, r_has(vals.sid, vals.eid, a2))),
                    newV[f2][a2] == z3.If(And(f2 == f, r_has(vals.sid, vals.eid, a2)), r_val(vals.sid, vals.eid, a2), gg["V"][f2][a2]))))
                gg["P"], gg["V"] = newP, newV
                it2.p.ghost["gd"] = gg
            return Builtin("dict.update", upd)
        return NotImplemented

    def getitem(self, it, obj, idx, node):
        if isinstance(obj, SimsT):
            it.check_raise(Not(has_sim(idx)), "KeyError", node, "world.sims[sid]")
            return SimH(idx)
        if isinstance(obj, CacheT):
            return CacheE(obj.sim, idx)
        if isinstance(obj, CacheE):
            it.check_raise(Not(c_has(sim_of(obj.sim), obj.eid, idx)), "KeyError", node, "cache_slice[eid][attr]")
            return c_val(sim_of(obj.sim), obj.eid, idx)
        if isinstance(obj, DataT):
            return DataRow(idx.term if isinstance(idx, FullId) else idx)
        if isinstance(obj, MissT):
            return MissSid(idx)
        if isinstance(obj, MissSid):
            return MissList(obj.sid, idx)
        if isinstance(obj, dict) and not obj:
            it.raise_("KeyError", node, implicit="{}[key]")
        return NotImplemented

    def setitem(self, it, obj, idx, v, node):
        if isinstance(obj, DataT):
            # data[full_id] = {}: a fresh empty row for this entity
            if v != {}:
                raise Unsupported("data[full_id] = something else than {}")
            f = idx.term if isinstance(idx, FullId) else idx
            gg = dict(it.p.ghost["gd"])
            gg["P"] = z3.Store(gg["P"], f, z3.K(Str, z3.BoolVal(False)))
            it.p.ghost["gd"] = gg
            return True
        if isinstance(obj, DataRow):
            gg = dict(it.p.ghost["gd"])
            f = obj.full
            gg["P"] = z3.Store(gg["P"], f, z3.Store(gg["P"][f], idx, True))
            gg["V"] = z3.Store(gg["V"], f, z3.Store(gg["V"][f], idx, v))
            it.p.ghost["gd"] = gg
            return True
        return NotImplemented

    def await_value(self, it, v, e, env):
        if isinstance(v, SendT):
            gg = dict(it.p.ghost["gd"])
            req = v.req
            if isinstance(req, SymSeq) and isinstance(req.length, int):
                req = [req.get(i) for i in range(req.length)]
            ok = (isinstance(req, (list, tuple)) and len(req) == 3 and req[0] == "get_data" and isinstance(req[1], tuple) and len(req[1]) == 1
                  and isinstance(req[1][0], MissSid) and req[2] == {})
            okf = z3.BoolVal(bool(ok))
            if ok:
                okf = req[1][0].sid == v.sid
            gg["req"] = z3.Store(gg["req"], v.sid, gg["req"][v.sid] + 1)
            gg["req_ok"] = And(gg["req_ok"], okf)
            it.p.ghost["gd"] = gg
            return ReplyT(v.sid)
        return NotImplemented

    def iter_plan(self, it, x):
        if getattr(x, "is_abstract_collection", False):
            return ("abstract", x)
        return NotImplemented

    def havoc_loop_heap(self, it, st, env):
        g = it.p.ghost["gd"]
        it.p.ghost["gd"] = {"miss": it.p.fresh("missing", MissS), "req": it.p.fresh("requests", ReqS), "req_ok": it.p.fresh("requests.ok", "bool"),
                            "P": it.p.fresh("data.present", DP), "V": it.p.fresh("data.value", DV), "data_made": g.get("data_made")}
        return None


def configure(sess):
    GetDataModel(sess)
    extract.load_module("mosaik.simmanager")


class GetData(Contract):
    target = MR + ".get_data"
    property_ids = ["C16"]
    configure = "configure"

    def make_args(self, mk):
        m = mk.s.gdm
        self._m = m
        self._st = {}
        m.me_obj = m.me
        return {"self": mk.obj(MR, world=WorldT(), sim=m.me, sid=Opaque("sid")), "attrs": AttrsD()}

    def setup(self, p, A, mk):
        self._p = p
        mk.s.gdm.reset(p)
        f1, f2, s, e = _c("f", Str), _c("f", Str), _c("s", Str), _c("e", Str)
        p.assume(z3.ForAll([f1, f2], Implies(And(sid_of(f1) == sid_of(f2), eid_of(f1) == eid_of(f2)), f1 == f2)))
        p.assume(z3.ForAll([s, e], And(sid_of(join(s, e)) == s, eid_of(join(s, e)) == e)))
        p.assume(z3.ForAll([f1], a_len(f1) >= 0))

    def requires(self, A):
        return True

    # ---- specification
    def addressed(self, s):
        f = _c("f", Str)
        return z3.Exists([f], And(a_has(f), sid_of(f) == s))

    def some_refused(self):
        f = _c("f", Str)
        return z3.Exists([f], And(a_has(f), has_sim(sid_of(f)), Not(may_request(sim_of(sid_of(f))))))

    def some_unknown(self):
        f = _c("f", Str)
        return z3.Exists([f], And(a_has(f), Not(has_sim(sid_of(f)))))

    def asked(self, f, a):
        i = _c("i", I)
        return And(a_has(f), z3.Exists([i], And(i >= 0, i < a_len(f), a_at(f, i) == a)))

    def uncached(self, f, a):
        m = self._m
        return Not(And(m.use_cache, c_has(sim_of(sid_of(f)), eid_of(f), a)))

    def miss_spec(self, g, done):
        """missing[s][e][a] iff some processed asked (f, a) with sid(f) = s, eid(f) = e is not in the cache"""
        s, e, a = _c("s", Str), _c("e", Str), _c("a", Str)
        f = _c("f", Str)
        return z3.ForAll([s, e, a], g["miss"][s][e][a] == z3.Exists([f], And(done(f, a), sid_of(f) == s, eid_of(f) == e, self.uncached(f, a))))

    def no_requests(self, g):
        s = _c("s", Str)
        return z3.ForAll([s], g["req"][s] == 0)

    def allowed_so_far(self, cond):
        f = _c("f", Str)
        return z3.ForAll([f], Implies(And(a_has(f), cond(f)), And(has_sim(sid_of(f)), may_request(sim_of(sid_of(f))))))

    def _l0(self, k, v, A):
        g = v._i.p.ghost["gd"]
        seen = v.seen
        self._st[0] = seen
        return {"missing_is_exactly_the_uncached_requests_so_far": self.miss_spec(g, lambda f, a: And(self.asked(f, a), seen[f])),
                "no_request_sent_yet": And(self.no_requests(g), g["req_ok"]),
                "processed_simulators_allowed": self.allowed_so_far(lambda f: seen[f])}

    def _l1(self, k, v, A):
        g = v._i.p.ghost["gd"]
        seen0 = self._st[0]
        fid = v.full_id.term if isinstance(v.full_id, FullId) else v.full_id
        i = _c("i", I)

        def done(f, a):
            return Or(And(self.asked(f, a), seen0[f]), And(f == fid, z3.Exists([i], And(i >= 0, i < k, a_at(fid, i) == a))))
        return {"missing_is_exactly_the_uncached_requests_so_far": self.miss_spec(g, done),
                "no_request_sent_yet": And(self.no_requests(g), g["req_ok"]),
                "processed_simulators_allowed": self.allowed_so_far(lambda f: Or(seen0[f], f == fid))}

    def _requests(self, g, cond):
        s = _c("s", Str)
        e, a = _c("e", Str), _c("a", Str)
        needs = z3.Exists([e, a], g["miss"][s][e][a])
        return z3.ForAll([s], g["req"][s] == z3.If(And(cond(s), needs), 1, 0))

    def _l2(self, k, v, A):
        g = v._i.p.ghost["gd"]
        seen = v.seen
        self._st[2] = seen
        return {"missing_fixed": self.miss_spec(g, lambda f, a: self.asked(f, a)),
                "one_request_per_processed_simulator_with_missing_values": self._requests(g, lambda s: seen[s]),
                "requests_well_formed": g["req_ok"],
                "all_addressed_allowed": self.allowed_so_far(lambda f: z3.BoolVal(True))}

    def _l3(self, k, v, A):
        g = v._i.p.ghost["gd"]
        seen2 = self._st[2]
        cur = v.sid
        return {"missing_fixed": self.miss_spec(g, lambda f, a: self.asked(f, a)),
                "one_request_per_processed_simulator_with_missing_values": self._requests(g, lambda s: Or(seen2[s], s == cur)),
                "requests_well_formed": g["req_ok"],
                "all_addressed_allowed": self.allowed_so_far(lambda f: z3.BoolVal(True))}

    loops = {0: lambda c, k, v, A: c._l0(k, v, A), 1: lambda c, k, v, A: c._l1(k, v, A), 2: lambda c, k, v, A: c._l2(k, v, A),
             3: lambda c, k, v, A: c._l3(k, v, A)}

    def raise_allowed(self, A, e):
        m = self._m
        if e.cls == "ScenarioError":
            return self.some_refused()
        if e.cls == "KeyError":
            return self.some_unknown()
        if e.cls == "AssertionError":
            return Not(And(m.in_step, m.has_cur))
        return None

    def raise_post(self, A, e):
        # whatever is refused or fails: no simulator has been asked anything
        return self.no_requests(self._p.ghost["gd"])

    def split_post(self, A, result):
        g = self._p.ghost["gd"]
        m = self._m
        s = _c("s", Str)
        e, a = _c("e", Str), _c("a", Str)
        return {"accepted_only_inside_a_step_and_if_every_addressed_simulator_allows_it":
                    And(m.in_step, m.has_cur, Not(self.some_refused()), Not(self.some_unknown())),
                "REQUESTS_one_per_simulator_with_uncached_values_none_else": self._requests(g, lambda s_: z3.BoolVal(True)),
                "REQUESTS_ask_exactly_for_the_uncached_values": And(g["req_ok"], self.miss_spec(g, lambda f, a_: self.asked(f, a_))),
                "REQUESTS_only_to_addressed_simulators": z3.ForAll([s], Implies(g["req"][s] > 0, self.addressed(s))),
                "returns_the_data_dict": z3.BoolVal(isinstance(result, DataT))}

    def native_search(self, budget):
        yield {"family": "contracts.dataplane_native.bounded_async_get_data (quick bound)"}

    def native_call(self, m):
        from contracts.dataplane_native import bounded_async_get_data
        r = bounded_async_get_data("quick", 0)
        if r["failures"]:
            return False, r["failures"][0]["desc"]
        return True, f"{r['cases']} small get_data requests against the real MosaikRemote: as specified"


CONTRACTS = [GetData()]
