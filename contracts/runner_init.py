"""Sidecar contract for SimRunner.__init__ (mosaik/simmanager.py): the state every simulator starts from.

  * C02 (initial demand): next_steps == [time zero (depth tiers)] iff the announced type is not 'event-based', else [];
    last_step == (-1, 0, ..., 0), current_step is None, next_self_step is None, progress starts at time zero;
  * every connection / data table starts EMPTY -- inputs_from_set_data, persistent_inputs, successors_to_wait_for, successors,
    triggering_ancestors, triggers, output_to_push, pulled_inputs, input_delays, output_request -- and outputs is None: the
    precondition "all triggering_ancestors dicts are empty at entry" of the closure contract (contracts.closure_ded) and the
    "nothing before the first connect" base case of connect_one's table clauses;
  * to_world_time / from_world_time have the shapes (1 tier, cut-off 1, pre-length depth) / (depth tiers, cut-off 1, pre-length 1).

depth >= 1 is symbolic (any nesting of groups); the proxy's meta is external (its 'type' entry is an arbitrary string token).
Progress, TimedInputBuffer and asyncio.Event objects are created by their real constructors resp. recorded as external.
"""
from pyvc.contract import Contract
from pyvc.spec import And, Or, Not, Implies, Iff
try:
    import z3
    from pyvc.values import SymSeq, SymObj, Builtin, Unsupported, Opaque, is_z3, simp
    from pyvc.interp import Namespace
    from pyvc import extract
except Exception:  # pragma: no cover
    z3 = None

SR = "mosaik.simmanager.SimRunner"


class ProxyTok:
    pass


class MetaTok:
    pass


class InitModel:
    def __init__(self, sess):
        self.s = sess
        sess.models.insert(0, self)
        sess.rim = self
        self.is_event_based = z3.Bool("meta_type_is_event_based")
        self.other_lits = {}
        self.type_tok = Opaque("meta['type']")
        self.set_events_tok = Opaque("meta.get('set_events', False)")

    def getattr(self, it, obj, name, node):
        if isinstance(obj, ProxyTok) and name == "meta":
            return MetaTok()
        if isinstance(obj, MetaTok) and name == "get":
            def get(it2, n2, k, default=None):
                if k == "set_events" and default is False:
                    return self.set_events_tok
                raise Unsupported("meta.get of another key")
            return Builtin("dict.get", get)
        return NotImplemented

    def getitem(self, it, obj, idx, node):
        if isinstance(obj, MetaTok):
            if idx == "type":
                return self.type_tok
            raise Unsupported("meta[...] of another key")
        return NotImplemented

    def equal(self, it, a, b, node):
        for x, y in ((a, b), (b, a)):
            if x is self.type_tok and isinstance(y, str):
                if y == "event-based":
                    return self.is_event_based
                # another literal: one more boolean, exclusive with the ones already in use
                if y not in self.other_lits:
                    b = z3.Bool(f"meta_type_is_{y}")
                    for o in [self.is_event_based] + list(self.other_lits.values()):
                        it.p.assume(Not(And(b, o)))
                    self.other_lits[y] = b
                return self.other_lits[y]
        return NotImplemented

    def resolve_import(self, dotted):
        if dotted == "asyncio":
            return Namespace("asyncio", {"Event": Builtin("asyncio.Event", lambda it, node: Opaque("asyncio.Event"))})
        if dotted == "itertools":
            return Namespace("itertools", {"count": Builtin("itertools.count", lambda it, node, *a: Opaque("itertools.count"))})
        return NotImplemented

    def dict_display(self, it, e, env):
        if not e.keys:
            return {}
        return NotImplemented


def configure(sess):
    InitModel(sess)
    extract.load_module("mosaik.simmanager")
    extract.load_module("mosaik.progress")
    extract.load_module("mosaik.tiered_time")


def _tiers(x):
    t = x.fields.get("tiers") if isinstance(x, SymObj) else None
    if isinstance(t, tuple):
        t = SymSeq.from_tuple(t)
    return t


def _zero_time(x, depth):
    t = _tiers(x)
    if not (isinstance(x, SymObj) and x.cls.name == "TieredTime" and isinstance(t, SymSeq)):
        return z3.BoolVal(False)
    j = z3.Int("j!z")
    return And(t.length == depth, z3.ForAll([j], Implies(And(j >= 0, j < depth), t.get(j) == 0)))


class RunnerInit(Contract):
    target = SR + ".__init__"
    property_ids = ["C02", "C01", "C05", "C07"]
    configure = "configure"

    def make_args(self, mk):
        self._depth = mk.int("depth")
        self._self = mk.blank(SR)
        return {"self": self._self, "sid": Opaque("sid"), "connection": ProxyTok(), "depth": self._depth}

    def setup(self, p, A, mk):
        self._p = p
        self._m = mk.s.rim

    def requires(self, A):
        return self._depth >= 1

    def split_post(self, A, result):
        f = self._self.fields
        d = self._depth
        m = self._m
        out = {}
        for name in ("inputs_from_set_data", "persistent_inputs", "successors_to_wait_for", "successors", "triggering_ancestors", "triggers",
                     "output_to_push", "pulled_inputs", "input_delays", "output_request"):
            out[f"{name}_starts_empty"] = z3.BoolVal(isinstance(f.get(name), dict) and len(f[name]) == 0)
        # every table is its own object (no two fields share one dict)
        tabs = [f.get(n) for n in ("inputs_from_set_data", "persistent_inputs", "successors_to_wait_for", "successors", "triggering_ancestors",
                                    "triggers", "output_to_push", "pulled_inputs", "input_delays", "output_request")]
        out["tables_are_distinct_objects"] = z3.BoolVal(len({id(t) for t in tabs}) == len(tabs))
        out["no_cache_and_no_step_yet"] = z3.BoolVal(f.get("outputs", 0) is None and f.get("current_step", 0) is None
                                                     and f.get("next_self_step", 0) is None and f.get("started") is False
                                                     and f.get("is_in_step") is False and f.get("task", 0) is None)
        ns = f.get("next_steps")
        if isinstance(ns, (list, tuple)):
            ns = SymSeq.from_tuple(tuple(ns), "list")
        ok_ns = isinstance(ns, SymSeq)
        if ok_ns:
            n = ns.length
            first = ns.get(0) if not (isinstance(n, int) and n == 0) else None
            out["initial_demand_time_zero_unless_event_based"] = And(
                n == z3.If(m.is_event_based, 0, 1), Implies(Not(m.is_event_based), _zero_time(first, d) if first is not None else False))
        else:
            out["initial_demand_time_zero_unless_event_based"] = z3.BoolVal(False)
        ls = f.get("last_step")
        t = _tiers(ls)
        j = z3.Int("j!ls")
        out["last_step_is_minus_one"] = (And(t.length == d, t.get(0) == -1, z3.ForAll([j], Implies(And(j >= 1, j < d), t.get(j) == 0)))
                                         if isinstance(t, SymSeq) else z3.BoolVal(False))
        pr = f.get("progress")
        out["progress_starts_at_time_zero"] = _zero_time(pr.fields.get("time"), d) if isinstance(pr, SymObj) and pr.cls.name == "Progress" \
            else z3.BoolVal(False)
        tw, fw = f.get("to_world_time"), f.get("from_world_time")

        def shape(x, ln, cut, pre):
            t_ = _tiers(x)
            if not (isinstance(x, SymObj) and x.cls.name == "TieredInterval" and isinstance(t_, SymSeq)):
                return z3.BoolVal(False)
            k = z3.Int("j!sh")
            return And(t_.length == ln, x.fields["cutoff"] == cut, x.fields["pre_length"] == pre,
                       z3.ForAll([k], Implies(And(k >= 0, k < ln), t_.get(k) == 0)))
        out["world_time_conversions"] = And(shape(tw, 1, 1, d), shape(fw, d, 1, 1))
        out["type_and_proxy_kept"] = z3.BoolVal(f.get("type") is m.type_tok and isinstance(f.get("_proxy"), ProxyTok)
                                                and f.get("supports_set_events") is m.set_events_tok)
        return out

    def native_search(self, budget):
        for depth in (1, 2, 3):
            for typ in ("time-based", "event-based", "hybrid"):
                yield {"depth_arg": depth, "type": typ}

    def native_call(self, m):
        if "depth_arg" not in m:
            return True, "symbolic counter-models are not replayed (the native search is)"
        from mosaik.simmanager import SimRunner
        from mosaik.tiered_time import TieredTime
        import asyncio

        class P:
            meta = {"type": m["type"], "models": {}}
        loop = asyncio.new_event_loop()
        asyncio.set_event_loop(loop)
        try:
            s = SimRunner("S-0", P(), depth=m["depth_arg"])
        finally:
            asyncio.set_event_loop(None)
            loop.close()
        d = m["depth_arg"]
        zero = TieredTime(*([0] * d))
        tabs = [s.inputs_from_set_data, s.persistent_inputs, s.successors_to_wait_for, s.successors, s.triggering_ancestors, s.triggers,
                s.output_to_push, s.pulled_inputs, s.input_delays, s.output_request]
        ok = (all(t == {} for t in tabs) and len({id(t) for t in tabs}) == len(tabs) and s.outputs is None and s.current_step is None
              and s.next_steps == ([] if m["type"] == "event-based" else [zero]) and s.last_step == TieredTime(-1, *([0] * (d - 1)))
              and s.progress.time == zero and s.next_self_step is None)
        return ok, f"SimRunner('S-0', <type {m['type']}>, depth={d}): next_steps={s.next_steps}, last_step={s.last_step}, progress={s.progress.time}"


CONTRACTS = [RunnerInit()]


# ------------------------------------------------------------------------------------------ World.set_initial_event
class WorldI:
    pass


class SimsI:
    pass


class EventModel:
    def __init__(self, sess):
        self.s = sess
        sess.models.insert(0, self)
        sess.evm = self
        self.known = z3.Bool("sid_is_a_started_simulator")

    def getattr(self, it, obj, name, node):
        if isinstance(obj, WorldI) and name == "sims":
            return SimsI()
        return NotImplemented

    def getitem(self, it, obj, idx, node):
        if isinstance(obj, SimsI):
            if idx is not self.sid:
                raise Unsupported("world.sims[...] with another key than the given sid")
            it.check_raise(Not(self.known), "KeyError", node, "world.sims[sid]")
            return self.sim
        return NotImplemented


def configure_event(sess):
    EventModel(sess)
    extract.load_module("mosaik.scenario")
    extract.load_module("mosaik.tiered_time")


class SetInitialEvent(Contract):
    """World.set_initial_event(sid, time): the simulator's demanded steps become exactly [ (time, 0, ..., 0) ] (depth tiers) -- the
    initial event REPLACES the initial demand (C02: 'initial events'); KeyError iff sid is not a started simulator; nothing else of
    the simulator changes.  from_world_time is the interval SimRunner.__init__ builds (depth zeros, cut-off 1, pre-length 1)."""
    target = "mosaik.scenario.World.set_initial_event"
    property_ids = ["C02"]
    configure = "configure_event"

    def make_args(self, mk):
        m = mk.s.evm
        self._depth = mk.int("depth")
        self._time = mk.int("time")
        d = self._depth
        zeros = SymSeq(d, lambda i: 0, "tuple")
        fw = mk.obj("mosaik.tiered_time.TieredInterval", tiers=zeros, cutoff=1, pre_length=1)
        self._sim = mk.obj(SR, from_world_time=fw, next_steps=Opaque("earlier demands"), sid=Opaque("sid"))
        m.sim, m.sid = self._sim, Opaque("sid argument")
        self._m = m
        return {"self": WorldI(), "sid": m.sid, "time": self._time}

    def setup(self, p, A, mk):
        self._p = p
        self._fields0 = dict(self._sim.fields)

    def requires(self, A):
        return self._depth >= 1

    @property
    def raises(self):
        return {"KeyError": lambda A: Not(self._m.known)}

    def split_post(self, A, result):
        f = self._sim.fields
        ns = f.get("next_steps")
        if isinstance(ns, (list, tuple)):
            ns = SymSeq.from_tuple(tuple(ns), "list")
        out = {"nothing_else_changed": z3.BoolVal(all(f[k] is v for k, v in self._fields0.items() if k != "next_steps")
                                                  and set(f) == set(self._fields0))}
        ok = isinstance(ns, SymSeq) and isinstance(ns.length, int) and ns.length == 1
        if ok:
            t = _tiers(ns.get(0))
            j = z3.Int("j!ie")
            d = self._depth
            out["exactly_the_initial_event_is_demanded"] = (And(t.length == d, t.get(0) == self._time,
                                                                z3.ForAll([j], Implies(And(j >= 1, j < d), t.get(j) == 0)))
                                                            if isinstance(t, SymSeq) else z3.BoolVal(False))
        else:
            out["exactly_the_initial_event_is_demanded"] = z3.BoolVal(False)
        return out

    def native_search(self, budget):
        for depth in (1, 2, 3):
            for typ in ("time-based", "event-based"):
                for time in (0, 3):
                    yield {"depth_arg": depth, "type": typ, "time_arg": time}

    def native_call(self, m):
        if "time_arg" not in m:
            return True, "symbolic counter-models are not replayed (the native search is)"
        import mosaik
        from mosaik.simmanager import SimRunner
        from mosaik.tiered_time import TieredTime

        class P:
            meta = {"type": m["type"], "models": {}}
        w = mosaik.World({}, skip_greetings=True)
        try:
            import asyncio
            asyncio.set_event_loop(w.loop)
            s = SimRunner("S-0", P(), depth=m["depth_arg"])
            w.sims["S-0"] = s
            w.set_initial_event("S-0", m["time_arg"])
            exp = [TieredTime(m["time_arg"], *([0] * (m["depth_arg"] - 1)))]
            return s.next_steps == exp, f"set_initial_event('S-0', {m['time_arg']}) for a {m['type']} simulator at depth {m['depth_arg']}: next_steps = {s.next_steps}, expected {exp}"
        finally:
            asyncio.set_event_loop(None)
            w.loop.close()


CONTRACTS.append(SetInitialEvent())
