"""Sidecar contracts for the data plane (C03; C04, C16 build on them):
SimRunner.get_output_for, TimedInputBuffer.get_input / add, prune_dataflow_cache.

A dict is a sequence of (key, value) in insertion order with distinct keys (Python semantics,
DESIGN 3.4); `reversed(d.items())` walks it from the newest insertion to the oldest.
"""
from pyvc.contract import Contract
from pyvc.spec import And, Or, Not, Implies, Iff
try:
    import z3
    from pyvc.models import sched as MS
    from pyvc.values import SymSeq, SymObj, Builtin, Unsupported, Opaque, is_z3, simp
    from pyvc import extract
except Exception:  # pragma: no cover
    z3 = None
from contracts import scheduler as SC

SIMRUNNER = "mosaik.simmanager.SimRunner"
BUFFER = "mosaik.simmanager.TimedInputBuffer"


class ODict:
    """an insertion-ordered dict int -> value id with symbolic length"""

    def __init__(self, n, keys, vals):
        self.n, self.keys, self.vals = n, keys, vals


class ValRef:
    def __init__(self, vid):
        self.vid = vid


class DataModel:
    def __init__(self, sess):
        self.s = sess
        sess.models.insert(0, self)

    def getattr(self, it, obj, name, node):
        if isinstance(obj, ODict) and name == "items":
            def items(it2, n2, obj=obj):
                return SymSeq(obj.n, lambda i, obj=obj: (obj.keys[i], ValRef(obj.vals[i])), "list")
            return Builtin("dict.items", items)
        return NotImplemented

    def identical(self, it, a, b):
        for x, y in ((a, b), (b, a)):
            if isinstance(x, ODict) and y is None:
                return False
        return NotImplemented


def configure(sess):
    DataModel(sess)


# ------------------------------------------------------------------ TimedInputBuffer
class BufModel:
    """TimedInputBuffer: the heap holds entries identified by their unique sequence number c with
    time tm(c), destination slot (eid(c), attr(c), src(c)) and value val(c); tuples compare by
    (time, sequence number).  The input dict is a 3-level map eid -> attr -> src -> value."""

    def __init__(self, sess):
        self.s = sess
        sess.models.insert(0, self)
        I, B = z3.IntSort(), z3.BoolSort()
        self.Str = z3.DeclareSort("BStr")
        self.Val = z3.DeclareSort("BVal")
        self.tm = z3.Function("buf_time", I, I)
        self.eid = z3.Function("buf_eid", I, self.Str)
        self.attr = z3.Function("buf_attr", I, self.Str)
        self.src = z3.Function("buf_src", I, self.Str)
        self.val = z3.Function("buf_val", I, self.Val)
        self.QS = z3.ArraySort(I, B)
        self.minc = z3.Function("buf_min", self.QS, I)
        self.PS = z3.ArraySort(self.Str, z3.ArraySort(self.Str, z3.ArraySort(self.Str, B)))
        self.VS = z3.ArraySort(self.Str, z3.ArraySort(self.Str, z3.ArraySort(self.Str, self.Val)))

    def key_lt(self, c, d):
        return Or(self.tm(c) < self.tm(d), And(self.tm(c) == self.tm(d), c < d))

    def axioms(self):
        q = z3.Const("q!b", self.QS)
        c = z3.Int("c!b")
        return [z3.ForAll([q, c], Implies(q[c], And(q[self.minc(q)], Or(self.minc(q) == c, self.key_lt(self.minc(q), c)))))]

    def nonempty(self, q):
        return q[self.minc(q)]

    def state(self, it):
        return it.p.ghost["buf"]

    # ---- hooks
    def getattr(self, it, obj, name, node):
        if isinstance(obj, SymObj) and obj.cls.name == "TimedInputBuffer" and name == "input_queue":
            return QueueH()
        if isinstance(obj, MapH):
            if name == "setdefault":
                def sd(it2, n2, key, default=None, obj=obj):
                    if len(obj.path) >= 2:
                        raise Unsupported("input dict deeper than three levels")
                    st = self.state(it2)
                    # make the level present (content of a new level: nothing present)
                    return MapH(obj.path + (key,))
                return Builtin("dict.setdefault", sd)
        return NotImplemented

    def len(self, it, x, node):
        if isinstance(x, QueueH):
            q = self.state(it)["q"]
            n = it.p.fresh("qlen", "int")
            it.p.assume(And(n >= 0, (n > 0) == self.nonempty(q)))
            return n
        return NotImplemented

    def getitem(self, it, obj, idx, node):
        if isinstance(obj, QueueH):
            if idx != 0:
                raise Unsupported("heap access other than [0]")
            q = self.state(it)["q"]
            it.check_raise(Not(self.nonempty(q)), "IndexError", node, "input_queue[0] on an empty heap")
            c = self.minc(q)
            return (self.tm(c), c, self.src(c), self.eid(c), self.attr(c), self.val(c))
        return NotImplemented

    def setitem(self, it, obj, idx, v, node):
        if isinstance(obj, MapH) and len(obj.path) == 2:
            st = self.state(it)
            e, a = obj.path
            P, V = st["P"], st["V"]
            st["P"] = z3.Store(P, e, z3.Store(P[e], a, z3.Store(P[e][a], idx, True)))
            st["V"] = z3.Store(V, e, z3.Store(V[e], a, z3.Store(V[e][a], idx, v)))
            return True
        return NotImplemented

    def resolve_import(self, dotted):
        if dotted == "heapq":
            from pyvc.interp import Namespace
            return Namespace("heapq", {"heappop": Builtin("heappop", self._pop), "heappush": Builtin("heappush", self._push)})
        return NotImplemented

    def _pop(self, it, node, h):
        if not isinstance(h, QueueH):
            raise Unsupported("heappop of something else")
        st = self.state(it)
        q = st["q"]
        it.check_raise(Not(self.nonempty(q)), "IndexError", node, "heappop from an empty heap")
        c = self.minc(q)
        st["q"] = z3.Store(q, c, False)
        return (self.tm(c), c, self.src(c), self.eid(c), self.attr(c), self.val(c))

    def _push(self, it, node, h, item):
        raise Unsupported("heappush (TimedInputBuffer.add is specified natively)")

    def havoc_loop_heap(self, it, st_, env):
        if "buf" not in it.p.ghost:
            return NotImplemented
        st = self.state(it)
        n = next(MS._q)
        st["q"] = z3.Const(f"q!{n}", self.QS)
        st["P"] = z3.Const(f"P!{n}", self.PS)
        st["V"] = z3.Const(f"V!{n}", self.VS)
        return True


class QueueH:
    pass


class MapH:
    def __init__(self, path=()):
        self.path = path


def configure_buf(sess):
    sess.buf = BufModel(sess)


class BufferGetInput(Contract):
    """TimedInputBuffer.get_input(input_dict, step): removes exactly the entries due at or before
    `step`; every slot for which a due entry exists gets the value of the due entry with the greatest
    (time, sequence number); every other slot of the dict and every entry not yet due is untouched"""
    target = BUFFER + ".get_input"
    property_ids = ["C03", "C04"]
    configure = "configure_buf"

    def make_args(self, mk):
        self._step = mk.int("step")
        return {"self": mk.obj(BUFFER), "input_dict": MapH(), "step": self._step}

    def setup(self, p, A, mk):
        B = mk.s.buf
        self._B, self._p = B, p
        self._q0 = z3.Const("queue", B.QS)
        self._P0, self._V0 = z3.Const("dict.present", B.PS), z3.Const("dict.value", B.VS)
        p.ghost["buf"] = {"q": self._q0, "P": self._P0, "V": self._V0}
        for ax in B.axioms():
            p.assume(ax)

    def _removed(self, q, c):
        return And(self._q0[c], Not(q[c]))

    def _dict_spec(self, q, P, V):
        """for every slot: value of the greatest removed entry for it, else unchanged"""
        B = self._B
        e, a, s = z3.Consts("e!s a!s s!s", B.Str)
        c, d = z3.Ints("c!s d!s")
        hit = lambda c: And(self._removed(q, c), B.eid(c) == e, B.attr(c) == a, B.src(c) == s)  # noqa: E731
        greatest = z3.Exists([c], And(hit(c), V[e][a][s] == B.val(c), P[e][a][s],
                                      z3.ForAll([d], Implies(hit(d), Or(d == c, B.key_lt(d, c))))))
        untouched = And(Not(z3.Exists([c], hit(c))), P[e][a][s] == self._P0[e][a][s], V[e][a][s] == self._V0[e][a][s])
        return z3.ForAll([e, a, s], Or(greatest, untouched))

    def _inv(self, k, v, A):
        B = self._B
        st = self._p.ghost["buf"]
        q, P, V = st["q"], st["P"], st["V"]
        c, d = z3.Ints("c!i d!i")
        return {
            "only_removes": z3.ForAll([c], Implies(q[c], self._q0[c])),
            "removed_are_due_and_smaller": z3.ForAll([c, d], Implies(And(self._removed(q, c), q[d]),
                                                                     And(B.tm(c) <= self._step, B.key_lt(c, d)))),
            "removed_are_due": z3.ForAll([c], Implies(self._removed(q, c), B.tm(c) <= self._step)),
            "dict": self._dict_spec(q, P, V),
        }

    loops = {0: lambda c, k, v, A: c._inv(k, v, A)}

    def split_post(self, A, result):
        B = self._B
        st = self._p.ghost["buf"]
        q, P, V = st["q"], st["P"], st["V"]
        c = z3.Int("c!p")
        return {
            "returns_the_dict": isinstance(result, MapH) and result.path == (),
            "exactly_the_due_entries_removed": z3.ForAll([c], q[c] == And(self._q0[c], B.tm(c) > self._step)),
            "latest_due_value_per_slot": self._dict_spec(q, P, V),
        }

    def ensures(self, A, result):
        return And(*self.split_post(A, result).values())

    def native_search(self, budget):
        import itertools
        slots = [("e", "a", "S.x"), ("e", "a", "S.y"), ("f", "a", "S.x")]
        entries = [(t, sl, v) for t in (0, 1, 2) for sl in range(len(slots)) for v in (10,)]
        n = 0
        for k in range(0, 4):
            for combo in itertools.product(range(len(entries)), repeat=k):
                for step in (-1, 0, 1, 2):
                    yield {"entries": [list(entries[i][:2]) + [100 + j] for j, i in enumerate(combo)], "step": step}
                    n += 1
                    if n >= budget:
                        return

    def native_call(self, m):
        if "entries" not in m:
            return True, "symbolic counter-models of the buffer are not replayed (the native search is)"
        from mosaik.simmanager import TimedInputBuffer
        slots = [("e", "a", "S.x"), ("e", "a", "S.y"), ("f", "a", "S.x")]
        b = TimedInputBuffer()
        for t, sl, v in m["entries"]:
            e, a, s = slots[sl]
            b.add(t, s.split(".")[0], s.split(".")[1], e, a, v)
        pre = {"e": {"a": {"S.y": -1}}}
        r = b.get_input({"e": {"a": {"S.y": -1}}}, m["step"])
        exp = {"e": {"a": {"S.y": -1}}}
        for j, (t, sl, v) in enumerate(m["entries"]):
            if t <= m["step"]:
                pass
        due = sorted([(t, j, sl, v) for j, (t, sl, v) in enumerate(m["entries"]) if t <= m["step"]])
        for t, j, sl, v in due:
            e, a, s = slots[sl]
            exp.setdefault(e, {}).setdefault(a, {})[s] = v
        left = sorted(x[0] for x in b.input_queue)
        exp_left = sorted(t for (t, sl, v) in m["entries"] if t > m["step"])
        return r == exp and left == exp_left, (f"entries (time, slot, value) {m['entries']}, get_input(step={m['step']}) = {r}, "
                                               f"expected {exp}; times left in the buffer {left}, expected {exp_left}")


CONTRACTS_BUF = [BufferGetInput()]


class GetOutputFor(Contract):
    """SimRunner.get_output_for(time): the value stored under the LAST INSERTED key <= time, a fresh {}
    if there is none (C03: the most recent value the source produced that is due)"""
    target = SIMRUNNER + ".get_output_for"
    property_ids = ["C03", "C04"]
    configure = "configure"

    def make_args(self, mk):
        self._n = mk.int("outputs.len")
        self._keys = z3.Array("outputs.key", z3.IntSort(), z3.IntSort())
        self._vals = z3.Array("outputs.value", z3.IntSort(), z3.IntSort())
        mk.inputs["outputs.len"] = ("int", self._n)
        mk.inputs["outputs.key"] = ("seq", self._n, self._keys)
        self._time = mk.int("time")
        return {"self": mk.obj(SIMRUNNER, outputs=ODict(self._n, self._keys, self._vals)), "time": self._time}

    def requires(self, A):
        i, j = z3.Ints("i!d j!d")
        return And(self._n >= 0, z3.ForAll([i, j], Implies(And(0 <= i, i < j, j < self._n), self._keys[i] != self._keys[j])))

    def ensures(self, A, result):
        n, keys, vals, t = self._n, self._keys, self._vals, self._time
        j = z3.Int("j!go")
        if isinstance(result, ValRef):
            i = z3.Int("i!go")
            return z3.Exists([i], And(0 <= i, i < n, keys[i] <= t, result.vid == vals[i],
                                      z3.ForAll([j], Implies(And(i < j, j < n), keys[j] > t))))
        return And(isinstance(result, dict) and not result, z3.ForAll([j], Implies(And(0 <= j, j < n), keys[j] > t)))

    loops = {0: lambda c, k, v, A: z3.ForAll([z3.Int("j!gi")], Implies(And(c._n - k <= z3.Int("j!gi"), z3.Int("j!gi") < c._n),
                                                                      c._keys[z3.Int("j!gi")] > c._time))}

    def native_search(self, budget):
        import itertools
        for n in range(0, 4):
            for keys in itertools.permutations(range(-1, 3), n):
                for t in range(-2, 4):
                    yield {"keys": list(keys), "time": t}

    def native_call(self, m):
        if "keys" not in m:
            keys = m.get("outputs", {}).get("key")
            if keys is None or "time" not in m:
                return True, "model incomplete"
            m = {"keys": keys, "time": m["time"]}
        if len(set(m["keys"])) != len(m["keys"]):
            return True, "precondition (distinct keys) does not hold"
        from mosaik.simmanager import SimRunner
        s = SimRunner.__new__(SimRunner)
        s.outputs = {k: {"v": i} for i, k in enumerate(m["keys"])}
        r = s.get_output_for(m["time"])
        due = [i for i, k in enumerate(m["keys"]) if k <= m["time"]]
        exp = {"v": due[-1]} if due else {}
        return r == exp, f"outputs inserted in the order {m['keys']}: get_output_for({m['time']}) = {r}, expected {exp}"


class Prune(SC._Sched):
    """prune_dataflow_cache(world) -- the retention clause of C03 / the cache half of C04:
    whatever a consumer can still ask the cache for is answered as before.  For every pulled connection
    (consumer c reads src with time shift d) and every future step time t >= c.last_step.time the newest entry of
    src with output time <= t - d (what get_output_for returns, GetOutputFor) is still there.  Also: entries are
    only removed, never added or changed; a simulator keeps every entry that a read at or after
        bound = min over simulators of last_step.time - max over pulled connections of the shift (0 if none)
    can return (how much more it keeps is not part of the property); nothing but the caches changes; without
    the cache nothing changes at all."""
    target = "mosaik.scheduler.prune_dataflow_cache"
    property_ids = ["C03", "C04"]
    configure = "configure_sched"
    configure_small = None
    configure_small2 = None

    def make_args(self, mk):
        self._mn = mk.const("spec_min_last_step_time", z3.IntSort())
        self._mx = mk.const("spec_max_shift", z3.IntSort())
        return {"world": mk.s.sched.world}

    def requires(self, A):
        M = self._M
        a, h = M.alg, SC.H(self._h0)
        k = z3.Int("k!rq")
        c, s, d = z3.Const("c!rq", a.Sim), z3.Const("s!rq", a.Sim), z3.Const("d!rq", a.D)
        mn, mx = self._mn, self._mx
        return And(SC.static_ok(M), SC.typing(M, h),
                   a.forall_sims(lambda s_: Implies(Not(M.has_outputs(s_)), z3.ForAll([k], Not(h.OUTP[s_][k])))),
                   z3.ForAll([c, s, d], Implies(M.PULL(c, s, d), And(a.d_wf(d), a.dlen(d) >= 1))),
                   # spec constants by definite description (finitely many simulators and connections: both exist)
                   a.forall_sims(lambda x: a.time(h.LS[x]) >= mn), a.exists_sims(lambda x: a.time(h.LS[x]) == mn),
                   z3.ForAll([c, s, d], Implies(M.PULL(c, s, d), a.dtier(d, 0) <= mx)),
                   Or(And(mx == 0, Not(z3.Exists([c, s, d], M.PULL(c, s, d)))),
                      z3.Exists([c, s, d], And(M.PULL(c, s, d), a.dtier(d, 0) == mx))))

    # ---- specification
    def is_bound(self, b):
        """b = min last_step.time - max shift"""
        return b == self._mn - self._mx

    def readable(self, s, k, b):
        """entry k of s is what some read at a time >= b returns: k >= b, or k is the newest entry <= b"""
        h = SC.H(self._h0)
        k2 = z3.Int("k2!rd")
        return And(h.OUTP[s][k], Or(k >= b, Not(z3.Exists([k2], And(h.OUTP[s][k2], k < k2, k2 <= b)))))

    def _inv(self, v):
        M, h0, h1 = self._M, self._h0, self.cur()
        a = M.alg
        k = z3.Int("k!iv")
        # the bound the code works with (the specification's bound if the code has no such local)
        b = v.bound if v.has("bound") and is_z3(v.bound) else self._mn - self._mx
        return {"processed_keep_the_readable_entries_rest_untouched": a.forall_sims(lambda s: z3.ForAll([k], z3.If(
            v.seen[s], And(Implies(self.readable(s, k, b), h1["OUTP"][s][k]), Implies(h1["OUTP"][s][k], h0["OUTP"][s][k])),
            h1["OUTP"][s][k] == h0["OUTP"][s][k]))),
            "bound_not_above_min_last_step_minus_max_shift": b <= self._mn - self._mx,
            "frame": SC.frame(M, h0, h1, {"OUTP": None})}

    loops = {0: lambda c, i, v, A: c._inv(v)}
    loop_modifies = {0: ["OUTP"]}

    def split_post(self, A, result):
        M, h0, h1 = self._M, self._h0, self.cur()
        a, H0 = M.alg, SC.H(self._h0)
        k, k2, t, b = z3.Int("k!ps"), z3.Int("k2!ps"), z3.Int("t!ps"), z3.Int("b!ps")
        c, s, d = z3.Const("c!ps", a.Sim), z3.Const("s!ps", a.Sim), z3.Const("d!ps", a.D)
        q = t - a.dtier(d, 0)
        return {
            "C03_retention_every_future_pull_is_answered_as_before": z3.ForAll([c, s, d, t, k], Implies(
                And(M.PULL(c, s, d), t >= a.time(H0.LS[c]),
                    h0["OUTP"][s][k], k <= q, Not(z3.Exists([k2], And(h0["OUTP"][s][k2], k < k2, k2 <= q)))),
                h1["OUTP"][s][k])),
            "only_removes": a.forall_sims(lambda s_: z3.ForAll([k], Implies(h1["OUTP"][s_][k], h0["OUTP"][s_][k]))),
            "keeps_every_readable_entry": z3.Exists([b], And(self.is_bound(b), a.forall_sims(
                lambda s_: z3.ForAll([k], Implies(self.readable(s_, k, b), h1["OUTP"][s_][k]))))),
            "untouched_without_cache": Implies(Not(M.use_cache), h1["OUTP"] == h0["OUTP"]),
            "frame": SC.frame(M, h0, h1, {"OUTP": None}),
        }

    def ensures(self, A, result):
        return And(*self.split_post(A, result).values())

    def native_search(self, budget):
        import itertools
        for keys in ([], [0], [0, 1], [0, 5], [-2, 0, 3], [1, 3], [-2], [0, 2, 4, 6]):   # (insertion order = time order)
            for ls in itertools.product((-1, 0, 1, 3, 5), repeat=2):
                for cache in (True, False):
                    for shift in (None, 0, 1, 2):
                        yield {"keys": keys, "last_steps": list(ls), "cache": cache, "shift": shift}

    def native_call(self, m):
        if "keys" not in m:
            return True, "symbolic counter-models of the cache are not replayed (the native search is)"
        import mosaik
        from mosaik import scheduler
        from mosaik.simmanager import SimRunner
        from mosaik.tiered_time import TieredTime, TieredInterval
        from contracts.scheduler_native import _StubProxy
        w = mosaik.World({}, skip_greetings=True, cache=m["cache"])
        try:
            sims = []
            for i, ls in enumerate(m["last_steps"]):
                s = SimRunner(f"S{i}", _StubProxy("hybrid"))
                s.last_step = TieredTime(ls)
                s.outputs = {k: {"v": k} for k in m["keys"]} if (m["cache"] and i == 0) else ({} if m["cache"] else None)
                w.sims[s.sid] = s
                sims.append(s)
            shift = m.get("shift")
            if shift is not None and m["cache"]:
                sims[1].pulled_inputs[(sims[0], TieredInterval(shift, cutoff=1, pre_length=1))] = set()
            before = dict(sims[0].outputs) if sims[0].outputs is not None else None
            scheduler.prune_dataflow_cache(w)
            got = sims[0].outputs
            if not m["cache"]:
                return got is None, f"cache off: outputs {got!r}"
            # the property: every read the consumer S1 can still make is answered as before
            problems = []
            if got is not None and any(k not in before or got[k] is not before[k] for k in got):
                problems.append("entries added or changed")
            if shift is not None:
                for t in range(max(m["last_steps"][1], -1), 12):
                    old = next((before[k] for k in reversed(before) if k <= t - shift), {})
                    new = sims[0].get_output_for(t - shift)
                    if new is not old and new != old:
                        problems.append(f"read for step {t} (time {t - shift}) returned {new} instead of {old}")
                        break
            return not problems, (f"cache keys {m['keys']}, last steps {m['last_steps']}, S1 pulls from S0 with shift {shift}: kept "
                                  f"{list(got)}" + ("; " + "; ".join(problems) if problems else ""))
        finally:
            w.loop.close()


def configure_sched(sess):
    SC.configure(sess, "proof")


CONTRACTS = [GetOutputFor(), BufferGetInput(), Prune()]
