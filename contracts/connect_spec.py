"""The success postcondition of World.connect_one as a comparison between the mutation log
of the executed path and the specified set of mutations (see ConnectOne's docstring)."""
from pyvc.spec import And, Or, Not, Implies, Iff
import z3
from pyvc.models import lazy as LZ
from pyvc.values import is_z3, Opaque
from contracts import tiered_time as TTC


def same(a, b):
    """syntactic identity of keys / values used by the code and by the specification"""
    if isinstance(a, tuple) and isinstance(b, tuple):
        return len(a) == len(b) and all(same(x, y) for x, y in zip(a, b))
    if is_z3(a) and is_z3(b):
        return a.eq(b)
    return a is b


def entry(ld, key):
    for e in ld.entries:
        if same(e.key, key):
            return e
    return None


def ops_on(log, container, op=None):
    return [x for x in log if x[1] is container and (op is None or x[0] == op)]


def is_leaf(x):
    """a mutation that stores user-visible content (not the creation of an intermediate container)"""
    op, cont, key, val = x
    return op in ("append", "add") or (op == "set" and not isinstance(val, LZ.LContainer))


def _has_content_before(c):
    return False


def check_success(C, A):
    from contracts.connect import DView
    sess = C._sess
    a = sess.sched.alg
    p = C._p
    log = p.ghost["log"]
    calls = p.ghost.get("ci_calls", [])
    src, dest = C._src, C._dest
    ssim_e, dsim_e = entry(C._world.fields["sims"], src.fields["sid"]), entry(C._world.fields["sims"], dest.fields["sid"])
    # (when the two sids are equal the lookup of dest.sid found the first entry)
    aliased = not any(same(e.key, dest.fields["sid"]) for e in C._world.fields["sims"].entries[1:]) and \
        not same(src.fields["sid"], dest.fields["sid"])
    src_sim = C._src_sim
    dest_sim = C._dest_sim
    # which simulator object did the code use for dest?  (the same object when the sids are equal)
    same_sim = z3.BoolVal(False)
    for c in p.pc:
        pass
    out = {}
    sa, da = C._src_attr, C._dest_attr_eff()
    src_port, dest_port = (src.fields["eid"], sa), (dest.fields["eid"], da)
    smm, dmm = src.fields["model_mock"].fields, dest.fields["model_mock"].fields
    persistent = C._mem(sa, smm["measurement_outputs"])
    triggered = C._mem(da, dmm["event_inputs"])
    weak_int = z3.If(C._weak, 1, 0)

    # the simulator objects actually touched: find them through the log / lookups
    def used_dest_sim():
        # dest_sim is src_sim iff the path decided dest.sid == src.sid
        for e in C._world.fields["sims"].entries:
            pass
        return None

    # ---- the two delays come from connect_interval with the right arguments
    delay_calls = [c for c in calls if is_z3(c["weak"]) or c["weak"] != 0 or (is_z3(c["ts"]) and not z3.is_int_value(c["ts"]))]
    main = calls[0] if calls else None
    adapt = calls[1] if len(calls) > 1 else None
    out["delay_is_connect_interval_of_the_groups"] = And(
        main is not None, *( [main["src"].eq(C._sg), main["dest"].eq(C._dg), main["ts"] == C._ts, main["weak"] == weak_int]
                             if main is not None else []))
    out["adaptation_is_plain_connect_interval"] = And(
        adapt is not None, *( [adapt["src"].eq(C._sg), adapt["dest"].eq(C._dg), adapt["ts"] == 0, adapt["weak"] == 0]
                              if adapt is not None else []))
    if main is None or adapt is None:
        return out
    delay = main["d"]

    # candidates for "the destination simulator object": the path may have identified it with src_sim
    def table(sim, name):
        return sim.fields[name]

    dest_objs = [dest_sim, src_sim]
    src_objs = [src_sim]
    leaf_expected = 0
    leaf_terms = []

    # ---- input_delays keeps the minimum
    sets = [x for s in dest_objs for x in ops_on(log, table(s, "input_delays"), "set")]
    ok = len(sets) == 1 and sets[0][2] is src_sim
    cond = False
    if ok:
        e = entry(sets[0][1], src_sim)
        V = sets[0][3]
        if e.pre_present is True:
            old = e.pre_value
            vV, vo, vd = DView(a, V), DView(a, old), DView(a, delay)
            cond = And(Or(V == delay, V == old), Not(TTC.code_lt(vd, vV)), Not(TTC.code_lt(vo, vV)))
        else:
            cond = V == delay
    out["input_delays_minimum"] = And(ok, cond)
    leaf_terms.append(True)

    # ---- successors: group adaptation only
    sets = ops_on(log, table(src_sim, "successors"), "set")
    dest_used = sets[0][2] if len(sets) == 1 else None
    out["successors_adaptation"] = And(len(sets) == 1, (sets[0][3] is adapt["d"]) if sets else False,
                                       (dest_used is dest_sim or dest_used is src_sim) if sets else False)
    leaf_terms.append(True)
    the_dest = dest_used if dest_used is not None else dest_sim

    # ---- output request
    e = entry(table(src_sim, "output_request"), src.fields["eid"])
    apps = ops_on(log, e.value, "append") if e is not None and e.present is True else []
    out["output_request_extended"] = And(len(apps) == 1, same(apps[0][3], sa) if apps else False)
    leaf_terms.append(True)

    # ---- pulled (cache and persistent) or pushed
    has_out = src_sim.fields["_has_outputs"]
    is_pulled = And(persistent, has_out)
    pe = entry(table(the_dest, "pulled_inputs"), (src_sim, delay))
    pulls = ops_on(log, pe.value, "add") if pe is not None and pe.present is True else []
    pulled_ok = len(pulls) == 1 and same(pulls[0][3], (src_port, dest_port))
    qe = entry(table(src_sim, "output_to_push"), src_port)
    pushes = ops_on(log, qe.value, "append") if qe is not None and qe.present is True else []
    pushed_ok = len(pushes) == 1 and same(pushes[0][3], (the_dest, delay, dest_port))
    out["pulled_iff_persistent_and_cached"] = And(is_pulled if pulls else Not(is_pulled), pulled_ok if pulls else True,
                                                  len(pulls) <= 1)
    out["pushed_otherwise"] = And(Not(is_pulled) if pushes else is_pulled, pushed_ok if pushes else True, len(pushes) <= 1)
    leaf_terms.append(True)

    # ---- trigger edge iff the destination attribute is a trigger input
    te = entry(table(src_sim, "triggers"), src_port)
    trigs = ops_on(log, te.value, "append") if te is not None and te.present is True else []
    out["trigger_edge_iff_trigger_input"] = And(triggered if trigs else Not(triggered), len(trigs) <= 1,
                                                same(trigs[0][3], (the_dest, delay)) if trigs else True)
    n_trig = len(trigs)

    # ---- memory slot (persistent, no cache) and initial data
    full_id = sess.connect.full_id(src.fields["sid"], src.fields["eid"])

    def slot(root, keys):
        cur = root
        for k in keys[:-1]:
            e_ = entry(cur, k)
            if e_ is None or e_.present is not True:
                return None
            cur = e_.value
        return cur, entry(cur, keys[-1])

    mem_slot = slot(table(the_dest, "persistent_inputs"), [dest.fields["eid"], da, full_id])
    mem_sets = ops_on(log, mem_slot[0], "set") if mem_slot else []
    mem_sets = [x for x in mem_sets if same(x[2], full_id)]
    want_slot = And(persistent, Not(C._use_cache))
    initial = C._initial
    n_mem = 0
    if initial is None:
        # at most the placeholder None, and only when the slot did not exist before
        ph = [x for x in mem_sets if x[3] is None]
        out["memory_slot_iff_persistent_uncached"] = And(
            len(mem_sets) == len(ph), len(ph) <= 1,
            Implies(Not(want_slot), len(ph) == 0),
            (want_slot if ph else Or(Not(want_slot), mem_slot is not None and mem_slot[1] is not None
                                      and mem_slot[1].pre_present is True)))
        n_mem = len(ph)
        cache_sets = []
    else:
        # initial data goes to the cache at time -shift if pulled, else into the memory slot
        oe = None
        cache_sets = []
        lo = src_sim.fields["outputs"]
        if lo.dict is not None:
            cs = slot(lo.dict, [-C._ts, src.fields["eid"], sa]) if False else None
            # time key is the term -time_shifted: find by structure
            for e_ in lo.dict.entries:
                if e_.present is True and isinstance(e_.value, LZ.LDict):
                    e2 = entry(e_.value, src.fields["eid"])
                    if e2 is not None and e2.present is True:
                        for x in ops_on(log, e2.value, "set"):
                            if same(x[2], sa):
                                cache_sets.append((e_.key, x))
        given = [x for x in mem_sets if x[3] is initial]
        ph = [x for x in mem_sets if x[3] is None]
        out["initial_data_placement"] = And(
            is_pulled if cache_sets else Not(is_pulled),
            len(cache_sets) <= 1, len(given) <= 1, (len(cache_sets) + len(given)) == 1,
            (cache_sets[0][0] == -C._ts) if cache_sets else True,
            (cache_sets[0][1][3] is initial) if cache_sets else True,
            len(ph) <= 1, Implies(Not(want_slot), len(ph) == 0))
        n_mem = len(mem_sets)

    # ---- nothing else
    leaves = [x for x in log if is_leaf(x)]
    expected = 3 + len(pulls) + len(pushes) + n_trig + n_mem + len(cache_sets)
    out["no_other_mutation"] = len(leaves) == expected
    return out
