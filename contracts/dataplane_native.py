"""Bounded stand-in (native, exhaustive up to a stated bound) for scheduler.get_input_data with
internal_util.merge_all / merge_existing -- the three-level merge with lambdas and in-place dict
sharing is out of reach of the deductive route (DESIGN 8-C03 fall-back).

Specification (independent of the code, slot = (dest entity, dest attribute, source full id)):
  result[slot] = pulled cache value (None if the source produced none)   if the slot is pulled
                 else newest due buffer entry                             if one is due
                 else value given by set_data                             if any
                 else remembered value (memory slot)                      if the slot has one
  afterwards: inputs_from_set_data is empty; every memory slot that existed still exists and holds the
  value delivered for it; NO OTHER memory slot appeared; entries not yet due stay in the buffer;
  the returned dicts are not the memory's dicts (nothing the caller does to the result can reach the memory).
"""
from __future__ import annotations
import copy
import itertools

SLOTS = [("e", "x", "A.s"), ("e", "x", "B.s"), ("f", "x", "A.s")]


class _StubProxy:
    def __init__(self):
        self.meta = {"type": "hybrid", "models": {}}

    async def send(self, request):
        return None

    async def stop(self):
        return None


def _nest(pairs):
    d = {}
    for (e, a, s), v in pairs:
        d.setdefault(e, {}).setdefault(a, {})[s] = v
    return d


def _flat(d):
    return {(e, a, s): v for e, x in d.items() for a, y in x.items() for s, v in y.items()}


def bounded_get_input_data(tier, seed):
    import mosaik
    from mosaik import scheduler
    from mosaik.simmanager import SimRunner
    from mosaik.tiered_time import TieredTime, TieredInterval
    failures = []
    cases = 0
    t = 3
    mem_opts, set_opts, buf_opts = (None, 1), (None, 2), (None, "due", "later", "two_due")
    pull_opts = (None, "has", "lacks", "shifted_has")
    w = mosaik.World({}, skip_greetings=True)
    try:
        for mem in itertools.product(mem_opts, repeat=3):
            for sd in itertools.product(set_opts, repeat=3):
                for buf in itertools.product(buf_opts, repeat=3):
                    if tier != "thorough" and sum(x is not None for x in mem + sd + buf) > 5:
                        continue
                    for pull in pull_opts:
                        cases += 1
                        sim = SimRunner("C", _StubProxy())
                        src = SimRunner("A", _StubProxy())
                        sim.current_step = TieredTime(t)
                        sim.persistent_inputs = _nest([(SLOTS[i], v) for i, v in enumerate(mem) if v is not None])
                        sim.inputs_from_set_data = _nest([(SLOTS[i], v) for i, v in enumerate(sd) if v is not None])
                        for i, b in enumerate(buf):
                            e, a, s = SLOTS[i]
                            if b == "due":
                                sim.timed_input_buffer.add(t, s.split(".")[0], s.split(".")[1], e, a, 3)
                            elif b == "later":
                                sim.timed_input_buffer.add(t + 1, s.split(".")[0], s.split(".")[1], e, a, 4)
                            elif b == "two_due":
                                sim.timed_input_buffer.add(t - 1, s.split(".")[0], s.split(".")[1], e, a, 30)
                                sim.timed_input_buffer.add(t, s.split(".")[0], s.split(".")[1], e, a, 31)
                        if pull is not None:
                            shift = 1 if pull == "shifted_has" else 0
                            src.outputs = {0: {"s": {"o": 50}}, t - shift: ({"s": {"o": 5}} if pull != "lacks" else {"s": {}}),
                                           t + 1: {"s": {"o": 6}}}
                            sim.pulled_inputs = {(src, TieredInterval(shift)): {(("s", "o"), (SLOTS[0][0], SLOTS[0][1]))}}
                        mem_before = copy.deepcopy(sim.persistent_inputs)
                        try:
                            res = scheduler.get_input_data(w, sim)
                        except Exception as e:
                            failures.append({"desc": f"get_input_data raised {type(e).__name__}: {e} for memory={mem} set_data={sd} buffer={buf} pulled={pull}",
                                             "case": {"mem": mem, "set_data": sd, "buffer": buf, "pulled": pull}})
                            continue
                        exp = {}
                        for i, sl in enumerate(SLOTS):
                            if mem[i] is not None:
                                exp[sl] = mem[i]
                            if sd[i] is not None:
                                exp[sl] = sd[i]
                            if buf[i] == "due":
                                exp[sl] = 3
                            if buf[i] == "two_due":
                                exp[sl] = 31
                        if pull is not None:
                            exp[SLOTS[0]] = 5 if pull != "lacks" else None
                        problems = []
                        got = _flat(res)
                        if got != exp:
                            problems.append(f"inputs {got}, expected {exp}")
                        if sim.inputs_from_set_data != {}:
                            problems.append(f"inputs_from_set_data not reset: {sim.inputs_from_set_data}")
                        mem_after = _flat(sim.persistent_inputs)
                        exp_mem = {sl: exp.get(sl, v) for sl, v in _flat(mem_before).items()}
                        if mem_after != exp_mem:
                            problems.append(f"memory afterwards {mem_after}, expected {exp_mem}")
                        left = sorted(x[0] for x in sim.timed_input_buffer.input_queue)
                        if left != sorted([t + 1] * sum(1 for b in buf if b == "later")):
                            problems.append(f"buffer times left {left}")
                        # separation: mutate the result everywhere; the memory must not change
                        snap = copy.deepcopy(sim.persistent_inputs)
                        for e, x in res.items():
                            for a, y in x.items():
                                y["poison"] = 1
                            x["poison"] = {}
                        if sim.persistent_inputs != snap:
                            problems.append("the result shares dicts with persistent_inputs (writing to the result changed the memory)")
                        if problems:
                            failures.append({"desc": f"get_input_data with memory={mem} set_data={sd} buffer={buf} pulled={pull} at t={t}: "
                                                     + "; ".join(problems),
                                             "case": {"mem": mem, "set_data": sd, "buffer": buf, "pulled": pull}})
                            if len(failures) >= 5:
                                return {"bound": _bound(tier), "cases": cases, "failures": failures}
    finally:
        w.loop.close()
    return {"bound": _bound(tier), "cases": cases, "failures": failures}


def _bound(tier):
    return (f"3 slots {SLOTS}; per slot memory in {{absent, 1}}, set_data in {{absent, 2}}, buffer in {{none, one due, one not yet due, "
            f"two due}}; slot 0 pulled in {{no, cache has value, cache lacks value, time-shifted by 1}}; step time 3"
            + ("" if tier == "thorough" else "; at most 5 non-empty table entries"))


def bounded_set_data(tier, seed):
    """MosaikRemote.set_data / get_data towards simulators with and without an async-requests connection:
    refused with ScenarioError exactly when an addressed simulator lacks such a connection, before any effect
    for THAT simulator; otherwise exactly the given values are stored under the sender's full id (C16)"""
    import asyncio
    import mosaik
    from mosaik.exceptions import ScenarioError
    from mosaik.simmanager import SimRunner, MosaikRemote
    from mosaik.tiered_time import TieredInterval, TieredTime
    failures, cases = [], 0
    datas = [
        {"B.b": {"A.e": {"x": 1}}},
        {"B.b": {"A.e": {"x": 1, "y": 2}, "A.f": {"x": 3}}},
        {"B.b": {"A.e": {"x": 1}}, "B.c": {"A.e": {"x": 4}}},
        {"B.b": {"A.e": {"x": 1}, "C.e": {"x": 5}}},
        {"B.b": {"C.e": {"x": 5}}},
        {},
    ]
    for data in datas:
        for conn_a in ("async", "plain", "none"):
            for conn_c in ("async", "none"):
                for pre in ({}, {"e": {"x": {"B.b": 0, "D.d": 9}}}):
                    cases += 1
                    w = mosaik.World({}, skip_greetings=True)
                    try:
                        sims = {n: SimRunner(n, _StubProxy()) for n in "ABC"}
                        w.sims.update(sims)
                        for n, conn in (("A", conn_a), ("C", conn_c)):
                            if conn in ("async", "plain"):
                                sims[n].successors[sims["B"]] = TieredInterval(0)
                            if conn == "async":
                                sims[n].successors_to_wait_for[sims["B"]] = TieredInterval(0)
                        import copy
                        sims["A"].inputs_from_set_data = copy.deepcopy(pre)
                        before = {n: copy.deepcopy(s.inputs_from_set_data) for n, s in sims.items()}
                        try:
                            w.loop.run_until_complete(MosaikRemote(w, "B").set_data(copy.deepcopy(data)))
                            raised = False
                        except ScenarioError:
                            raised = True
                        ok_conn = {"A": conn_a == "async", "C": conn_c == "async"}
                        exp = copy.deepcopy(before)
                        exp_raise = False
                        for src_full_id, dest in data.items():
                            for full_id, attrs in dest.items():
                                sid, eid = full_id.split(".", 1)
                                if not ok_conn[sid]:
                                    exp_raise = True
                                    break
                                for attr, val in attrs.items():
                                    exp[sid].setdefault(eid, {}).setdefault(attr, {})[src_full_id] = val
                            if exp_raise:
                                break
                        after = {n: s.inputs_from_set_data for n, s in sims.items()}
                        # tolerate empty intermediate dicts created before a refusal for the same simulator? no: compare leaves
                        leaves = lambda d: {n: {(e, a, s): v for e, x in dd.items() for a, y in x.items() for s, v in y.items()}  # noqa: E731
                                            for n, dd in d.items()}
                        if raised != exp_raise or leaves(after) != leaves(exp):
                            failures.append({"desc": f"set_data({data}) by B with A: {conn_a}, C: {conn_c}, earlier set_data {pre}: "
                                                     f"raised={raised} (expected {exp_raise}); stored {leaves(after)}, expected {leaves(exp)}",
                                             "case": {"data": data, "A": conn_a, "C": conn_c}})
                    finally:
                        w.loop.close()
    return {"bound": f"{len(datas)} request shapes x connection kinds of two addressed simulators x 2 earlier states", "cases": cases,
            "failures": failures[:5]}


def bounded_input_buffer(tier, seed):
    """TimedInputBuffer as a whole (add + get_input over time): every sequence of up to N operations over two due times and one
    connection -- add(due, value) / get_input(step) with non-decreasing step -- against the statement of C03 for pushed values:
    get_input(step) delivers, per source and attribute, the value added LAST among those due at or before the step and not yet
    delivered; each value is delivered at most once; values not yet due stay"""
    import itertools
    from mosaik.simmanager import TimedInputBuffer
    N = 6 if tier == "thorough" else 5
    ops = [("add", 1), ("add", 5), ("get", 1), ("get", 5), ("get", 7)]
    failures, cases = [], 0
    for n in range(1, N + 1):
        for seq in itertools.product(ops, repeat=n):
            steps = [o[1] for o in seq if o[0] == "get"]
            if steps != sorted(steps) or not steps:
                continue
            cases += 1
            buf = TimedInputBuffer()
            pending = []          # reference: [(due, serial, value)] in insertion order
            serial = 0
            ok, why = True, ""
            for op, t in seq:
                if op == "add":
                    serial += 1
                    value = 100 - serial          # (later values are SMALLER: the order of delivery must not come from the values)
                    buf.add(t, "A", "e", "d", "a", value)
                    pending.append((t, serial, value))
                else:
                    got = buf.get_input({}, t)
                    due = [p_ for p_ in pending if p_[0] <= t]
                    pending = [p_ for p_ in pending if p_[0] > t]
                    # delivered in order of due time; within one due time in insertion order: the last one written wins
                    exp = {"d": {"a": {"A.e": sorted(due)[-1][2]}}} if due else {}
                    if got != exp:
                        ok, why = False, f"get_input(step={t}) returned {got}, expected {exp}"
                        break
            if not ok:
                failures.append({"desc": f"TimedInputBuffer, operations {list(seq)} (value of the k-th add is 100 - k): {why}", "case": {"ops": [list(o) for o in seq]}})
                if len(failures) >= 5:
                    break
        if len(failures) >= 5:
            break
    return {"bound": f"every sequence of <= {N} operations from add(due 1 | 5) / get_input(step 1 | 5 | 7) with non-decreasing steps, one connection",
            "cases": cases, "failures": failures}


def bounded_async_get_data(tier, seed):
    """MosaikRemote.get_data (an agent asking for other simulators' data during its step): refused with ScenarioError exactly
    when SOME addressed simulator has no async_requests connection to the caller, whatever the entity ids; otherwise the
    requested attributes are returned per full id (C16)"""
    import itertools
    import mosaik
    from mosaik.exceptions import ScenarioError
    from mosaik.simmanager import SimRunner, MosaikRemote
    from mosaik.tiered_time import TieredInterval, TieredTime
    failures, cases = [], 0

    class P(_StubProxy):
        async def send(self, request):
            if request[0] == "get_data":
                return {eid: {a: f"{eid}.{a}" for a in attrs} for eid, attrs in request[1][0].items()}
            return None
    requests = [["A.0"], ["Z.0"], ["A.0", "Z.0"], ["Z.0", "A.0"], ["A.0", "A.1"], ["A.0", "Z.1"], ["A.1", "Z.1", "A.0"]]
    for req in requests:
        for conn_a, conn_z in itertools.product(("async", "plain", "none"), repeat=2):
            for cache in (False, True):
                cases += 1
                w = mosaik.World({}, skip_greetings=True, cache=cache)
                try:
                    sims = {n: SimRunner(n, P()) for n in ("A", "Z", "B")}
                    w.sims.update(sims)
                    for n, conn in (("A", conn_a), ("Z", conn_z)):
                        if conn in ("async", "plain"):
                            sims[n].successors[sims["B"]] = TieredInterval(0)
                        if conn == "async":
                            sims[n].successors_to_wait_for[sims["B"]] = TieredInterval(0)
                        if cache:
                            sims[n].outputs = {0: {"0": {"x": f"{n}.0.x"}, "1": {"x": f"{n}.1.x"}}}
                    b = sims["B"]
                    b.is_in_step = True
                    b.current_step = TieredTime(0)
                    b.last_step = TieredTime(0)
                    try:
                        got = w.loop.run_until_complete(MosaikRemote(w, "B").get_data({fid: ["x"] for fid in req}))
                        raised = False
                    except ScenarioError:
                        got, raised = None, True
                    ok_conn = {"A": conn_a == "async", "Z": conn_z == "async"}
                    exp_raise = any(not ok_conn[fid.split(".")[0]] for fid in req)
                    good = raised == exp_raise and (raised or (set(got) == set(req) and all(set(got[f]) == {"x"} for f in req)))
                    if not good:
                        failures.append({"desc": f"get_data({req}) by B with A: {conn_a}, Z: {conn_z}, cache={cache}: "
                                                 f"{'refused' if raised else 'answered ' + str(got)[:120]} (expected: {'refused' if exp_raise else 'answered'})",
                                         "case": {"request": req, "A": conn_a, "Z": conn_z, "cache": cache}})
                finally:
                    w.loop.close()
    return {"bound": f"{len(requests)} request shapes over two addressed simulators x their connection kinds (async / plain / none) x cache",
            "cases": cases, "failures": failures[:5]}
