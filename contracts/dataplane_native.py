"""Bounded stand-in (native, exhaustive up to a stated bound) for scheduler.get_input_data with
internal_util.merge_all / merge_existing -- the three-level merge with lambdas and in-place dict
sharing is out of reach of the deductive route (DESIGN 8-C03 fall-back).

Specification (independent of the code, slot = (dest entity, dest attribute, source full id)):
  result[slot] = pulled cache value (None if the source produced none)   if the slot is pulled
                 else newest due buffer entry                             if one is due
                 else value given by set_data                             if any
                 else remembered value (memory slot)                      if the slot has one
  afterwards: inputs_from_set_data is empty; every memory slot that existed still exists and holds the
  value delivered for it; NO OTHER memory slot appeared; entries not yet due stay in the buffer;
  the returned dicts are not the memory's dicts (nothing the caller does to the result can reach the memory).
"""
from __future__ import annotations
import copy
import itertools

SLOTS = [("e", "x", "A.s"), ("e", "x", "B.s"), ("f", "x", "A.s")]


class _StubProxy:
    def __init__(self):
        self.meta = {"type": "hybrid", "models": {}}

    async def send(self, request):
        return None

    async def stop(self):
        return None


def _nest(pairs):
    d = {}
    for (e, a, s), v in pairs:
        d.setdefault(e, {}).setdefault(a, {})[s] = v
    return d


def _flat(d):
    return {(e, a, s): v for e, x in d.items() for a, y in x.items() for s, v in y.items()}


def bounded_get_input_data(tier, seed):
    import mosaik
    from mosaik import scheduler
    from mosaik.simmanager import SimRunner
    from mosaik.tiered_time import TieredTime, TieredInterval
    failures = []
    cases = 0
    t = 3
    mem_opts, set_opts, buf_opts = (None, 1), (None, 2), (None, "due", "later", "two_due")
    pull_opts = (None, "has", "lacks", "shifted_has")
    w = mosaik.World({}, skip_greetings=True)
    try:
        for mem in itertools.product(mem_opts, repeat=3):
            for sd in itertools.product(set_opts, repeat=3):
                for buf in itertools.product(buf_opts, repeat=3):
                    if tier != "thorough" and sum(x is not None for x in mem + sd + buf) > 5:
                        continue
                    for pull in pull_opts:
                        cases += 1
                        sim = SimRunner("C", _StubProxy())
                        src = SimRunner("A", _StubProxy())
                        sim.current_step = TieredTime(t)
                        sim.persistent_inputs = _nest([(SLOTS[i], v) for i, v in enumerate(mem) if v is not None])
                        sim.inputs_from_set_data = _nest([(SLOTS[i], v) for i, v in enumerate(sd) if v is not None])
                        for i, b in enumerate(buf):
                            e, a, s = SLOTS[i]
                            if b == "due":
                                sim.timed_input_buffer.add(t, s.split(".")[0], s.split(".")[1], e, a, 3)
                            elif b == "later":
                                sim.timed_input_buffer.add(t + 1, s.split(".")[0], s.split(".")[1], e, a, 4)
                            elif b == "two_due":
                                sim.timed_input_buffer.add(t - 1, s.split(".")[0], s.split(".")[1], e, a, 30)
                                sim.timed_input_buffer.add(t, s.split(".")[0], s.split(".")[1], e, a, 31)
                        if pull is not None:
                            shift = 1 if pull == "shifted_has" else 0
                            src.outputs = {0: {"s": {"o": 50}}, t - shift: ({"s": {"o": 5}} if pull != "lacks" else {"s": {}}),
                                           t + 1: {"s": {"o": 6}}}
                            sim.pulled_inputs = {(src, TieredInterval(shift)): {(("s", "o"), (SLOTS[0][0], SLOTS[0][1]))}}
                        mem_before = copy.deepcopy(sim.persistent_inputs)
                        try:
                            res = scheduler.get_input_data(w, sim)
                        except Exception as e:
                            failures.append({"desc": f"get_input_data raised {type(e).__name__}: {e} for memory={mem} set_data={sd} buffer={buf} pulled={pull}",
                                             "case": {"mem": mem, "set_data": sd, "buffer": buf, "pulled": pull}})
                            continue
                        exp = {}
                        for i, sl in enumerate(SLOTS):
                            if mem[i] is not None:
                                exp[sl] = mem[i]
                            if sd[i] is not None:
                                exp[sl] = sd[i]
                            if buf[i] == "due":
                                exp[sl] = 3
                            if buf[i] == "two_due":
                                exp[sl] = 31
                        if pull is not None:
                            exp[SLOTS[0]] = 5 if pull != "lacks" else None
                        problems = []
                        got = _flat(res)
                        if got != exp:
                            problems.append(f"inputs {got}, expected {exp}")
                        if sim.inputs_from_set_data != {}:
                            problems.append(f"inputs_from_set_data not reset: {sim.inputs_from_set_data}")
                        mem_after = _flat(sim.persistent_inputs)
                        exp_mem = {sl: exp.get(sl, v) for sl, v in _flat(mem_before).items()}
                        if mem_after != exp_mem:
                            problems.append(f"memory afterwards {mem_after}, expected {exp_mem}")
                        left = sorted(x[0] for x in sim.timed_input_buffer.input_queue)
                        if left != sorted([t + 1] * sum(1 for b in buf if b == "later")):
                            problems.append(f"buffer times left {left}")
                        # separation: mutate the result everywhere; the memory must not change
                        snap = copy.deepcopy(sim.persistent_inputs)
                        for e, x in res.items():
                            for a, y in x.items():
                                y["poison"] = 1
                            x["poison"] = {}
                        if sim.persistent_inputs != snap:
                            problems.append("the result shares dicts with persistent_inputs (writing to the result changed the memory)")
                        if problems:
                            failures.append({"desc": f"get_input_data with memory={mem} set_data={sd} buffer={buf} pulled={pull} at t={t}: "
                                                     + "; ".join(problems),
                                             "case": {"mem": mem, "set_data": sd, "buffer": buf, "pulled": pull}})
                            if len(failures) >= 5:
                                return {"bound": _bound(tier), "cases": cases, "failures": failures}
    finally:
        w.loop.close()
    return {"bound": _bound(tier), "cases": cases, "failures": failures}


def _bound(tier):
    return (f"3 slots {SLOTS}; per slot memory in {{absent, 1}}, set_data in {{absent, 2}}, buffer in {{none, one due, one not yet due, "
            f"two due}}; slot 0 pulled in {{no, cache has value, cache lacks value, time-shifted by 1}}; step time 3"
            + ("" if tier == "thorough" else "; at most 5 non-empty table entries"))


def bounded_set_data(tier, seed):
    """MosaikRemote.set_data / get_data towards simulators with and without an async-requests connection:
    refused with ScenarioError exactly when an addressed simulator lacks such a connection, before any effect
    for THAT simulator; otherwise exactly the given values are stored under the sender's full id (C16)"""
    import asyncio
    import mosaik
    from mosaik.exceptions import ScenarioError
    from mosaik.simmanager import SimRunner, MosaikRemote
    from mosaik.tiered_time import TieredInterval, TieredTime
    failures, cases = [], 0
    datas = [
        {"B.b": {"A.e": {"x": 1}}},
        {"B.b": {"A.e": {"x": 1, "y": 2}, "A.f": {"x": 3}}},
        {"B.b": {"A.e": {"x": 1}}, "B.c": {"A.e": {"x": 4}}},
        {"B.b": {"A.e": {"x": 1}, "C.e": {"x": 5}}},
        {"B.b": {"C.e": {"x": 5}}},
        {},
    ]
    for data in datas:
        for conn_a in ("async", "plain", "none"):
            for conn_c in ("async", "none"):
                for pre in ({}, {"e": {"x": {"B.b": 0, "D.d": 9}}}):
                    cases += 1
                    w = mosaik.World({}, skip_greetings=True)
                    try:
                        sims = {n: SimRunner(n, _StubProxy()) for n in "ABC"}
                        w.sims.update(sims)
                        for n, conn in (("A", conn_a), ("C", conn_c)):
                            if conn in ("async", "plain"):
                                sims[n].successors[sims["B"]] = TieredInterval(0)
                            if conn == "async":
                                sims[n].successors_to_wait_for[sims["B"]] = TieredInterval(0)
                        import copy
                        sims["A"].inputs_from_set_data = copy.deepcopy(pre)
                        before = {n: copy.deepcopy(s.inputs_from_set_data) for n, s in sims.items()}
                        try:
                            w.loop.run_until_complete(MosaikRemote(w, "B").set_data(copy.deepcopy(data)))
                            raised = False
                        except ScenarioError:
                            raised = True
                        ok_conn = {"A": conn_a == "async", "C": conn_c == "async"}
                        exp = copy.deepcopy(before)
                        exp_raise = False
                        for src_full_id, dest in data.items():
                            for full_id, attrs in dest.items():
                                sid, eid = full_id.split(".", 1)
                                if not ok_conn[sid]:
                                    exp_raise = True
                                    break
                                for attr, val in attrs.items():
                                    exp[sid].setdefault(eid, {}).setdefault(attr, {})[src_full_id] = val
                            if exp_raise:
                                break
                        after = {n: s.inputs_from_set_data for n, s in sims.items()}
                        # tolerate empty intermediate dicts created before a refusal for the same simulator? no: compare leaves
                        leaves = lambda d: {n: {(e, a, s): v for e, x in dd.items() for a, y in x.items() for s, v in y.items()}  # noqa: E731
                                            for n, dd in d.items()}
                        if raised != exp_raise or leaves(after) != leaves(exp):
                            failures.append({"desc": f"set_data({data}) by B with A: {conn_a}, C: {conn_c}, earlier set_data {pre}: "
                                                     f"raised={raised} (expected {exp_raise}); stored {leaves(after)}, expected {leaves(exp)}",
                                             "case": {"data": data, "A": conn_a, "C": conn_c}})
                    finally:
                        w.loop.close()
    return {"bound": f"{len(datas)} request shapes x connection kinds of two addressed simulators x 2 earlier states", "cases": cases,
            "failures": failures[:5]}
