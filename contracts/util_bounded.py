"""Bounded stand-in for the bulk connection helpers (see contracts/util_native.py)."""
from pyvc.bounded import NativeBounded


class ConnectHelpersBounded(NativeBounded):
    property_ids = ["C18"]
    module = "contracts.util_native"
    func = "bounded_connect_helpers"
    what = "mosaik.util.connect_randomly / _connect_evenly / _connect_randomly / connect_many_to_one"


BOUNDED = [ConnectHelpersBounded()]
