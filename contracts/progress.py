"""Sidecar contracts for mosaik/progress.py (C01, C05, C10, C16: the waiting primitive).

Times and delays are seen through the C08 contracts (abstract sorts T, D of
pyvc.models.sched).  A Progress object is (time, _futures) with _futures a list of
((target, shift, needs_to_pass), future) of arbitrary length.
"""
from pyvc.contract import Contract, Lemma
from pyvc.spec import And, Or, Not, Implies, Iff, forall, len_
try:
    import z3
    from pyvc.models import sched as MS
    from pyvc.values import BoundMethod, SymSeq, SymObj, Builtin, Unsupported, Opaque
    from pyvc.interp import PathEnd, Namespace
except Exception:  # pragma: no cover
    z3 = MS = None
from contracts import scheduler as SC

PROGRESS = "mosaik.progress.Progress"
TOP = [None]


class Fut:
    """an asyncio.Future registered together with its trigger spec"""

    def __init__(self, fid, spec=None):
        self.fid, self.spec = fid, spec

    def ite(self, c, other):
        return Fut(z3.If(c, self.fid, other.fid), tuple(z3.If(c, a, b) for a, b in zip(self.spec, other.spec)))


class ProgressModel:
    """interpreter plug-in: futures and the element type of Progress._futures"""

    def __init__(self, sess):
        self.s = sess
        self.M = sess.sched
        sess.models.insert(0, self)

    def getattr(self, it, obj, name, node):
        if isinstance(obj, Fut):
            if name == "cancelled":
                return Builtin("Future.cancelled", lambda it2, n2, obj=obj: TOP[0].cancelled(obj.fid))
            if name == "set_result":
                return Builtin("Future.set_result", lambda it2, n2, x, obj=obj: TOP[0].on_set_result(it2, n2, obj, x))
        return NotImplemented

    def on_delete_item(self, it, seq, idx, node):
        TOP[0].on_delete(it, node, seq, idx)
        return True

    def call(self, it, fn, args, kwargs, node, star):
        # has_reached / has_passed see _add_trigger through its contract (AddTrigger): the call is recorded
        if getattr(TOP[0], "wrapper_of_add_trigger", False) and isinstance(fn, BoundMethod) and fn.func.qualname == PROGRESS + "._add_trigger":
            it.p.ghost.setdefault("add_trigger_calls", []).append((fn.self_val, tuple(args), dict(kwargs)))
            r = Opaque("triggered time")
            it.p.ghost.setdefault("add_trigger_results", []).append(r)
            return r
        return NotImplemented

    def havoc_field(self, it, obj, attr, cur):
        if attr == "_futures":
            return TOP[0].fresh_list(it.p, "fl")
        return NotImplemented

    def resolve_import(self, dotted):
        if dotted == "asyncio":
            return Namespace("asyncio", {"Future": Builtin("asyncio.Future", lambda it, node: TOP[0].new_future(it))})
        return NotImplemented

    def construct(self, it, cls, args, kwargs, node, star):
        # TieredInterval(*((0,) * n)): the zero delay of shape (n, n, n)
        if cls.name == "TieredInterval" and not args and not kwargs and star is not None:
            a = self.M.alg
            d = it.p.fresh("zero", a.D)
            n = star.length
            i = z3.Int("i!zd")
            it.p.assume(And(a.dlen(d) == n, a.dcut(d) == n, a.dpre(d) == n,
                            z3.ForAll([i], Implies(And(0 <= i, i < n), a.dtier(d, i) == star.get(i)))))
            # contract of TieredInterval.__init__ (C08): the three asserts
            it.check_raise(Not(n >= 1), "AssertionError", node, "TieredInterval.__init__: cutoff >= 1")
            return d
        return NotImplemented

    def await_value(self, it, v, e, env):
        if isinstance(v, Fut):
            TOP[0].on_await_future(it, e, v)
            raise PathEnd()
        return NotImplemented

    def equal(self, it, a, b, node):
        if isinstance(a, Fut) and isinstance(b, Fut):
            return a.fid == b.fid
        return NotImplemented


def configure(sess):
    SC.configure(sess, "proof")
    ProgressModel(sess)


def trig(a, time, target, shift, ntp):
    """the trigger condition of a waiter: progress (shifted to the waiter's time frame) has passed
    (needs_to_pass) or reached the target"""
    tad = a.plus(time, shift)
    return z3.If(ntp, a.lt(target, tad), a.le(target, tad))


class _P(Contract):
    configure = "configure"
    property_ids = ["C01", "C05", "C10", "C16"]

    def setup(self, p, A, mk):
        TOP[0] = self
        self._p = p
        self._M = mk.s.sched
        for ax in self._M.background():
            p.assume(ax)
        p.assume(self._M.alg.optional["time_extensional"][0])

    def mk_list(self, name):
        a = self._M.alg
        I = z3.IntSort()
        return {"len": z3.Int(name + ".len"), "tg": z3.Array(name + ".target", I, a.T), "sh": z3.Array(name + ".shift", I, a.D),
                "np": z3.Array(name + ".needs_to_pass", I, z3.BoolSort()), "fid": z3.Array(name + ".future", I, I)}

    def list_value(self, L):
        def get(j, L=L):
            spec = (L["tg"][j], L["sh"][j], L["np"][j])
            return (spec, Fut(L["fid"][j], spec))
        return SymSeq(L["len"], get, "list")

    def fresh_list(self, p, tag):
        n = next(MS._q)
        L = self.mk_list(f"{tag}{n}")
        p.assume(L["len"] >= 0)
        return self.list_value(L)

    def cancelled(self, fid):
        return z3.Function("cancelled", z3.IntSort(), z3.BoolSort())(fid)

    def typed(self, time, L):
        """every registered spec fits the progress' shape (what _add_trigger's callers guarantee)"""
        a = self._M.alg
        j = z3.Int("j!ty")
        return z3.ForAll([j], Implies(And(0 <= j, j < L["len"]), And(
            a.d_wf(L["sh"][j]),    # in particular at least one tier: a TieredTime without tiers would be falsy
            a.tlen(time) == a.dpre(L["sh"][j]), a.tlen(L["tg"][j]) == a.dlen(L["sh"][j]))))


class TriggeredTime(_P):
    """Progress._triggered_time(spec): the time at the destination if the spec is triggered, else None"""
    target = PROGRESS + "._triggered_time"

    def make_args(self, mk):
        a = mk.s.sched.alg
        self._time = mk.const("time", a.T)
        self._spec = (mk.const("target", a.T), mk.const("shift", a.D), mk.bool("needs_to_pass"))
        return {"self": mk.obj(PROGRESS, time=self._time, _futures=()), "trigger_spec": self._spec}

    def requires(self, A):
        a = self._M.alg
        tg, sh, np_ = self._spec
        return And(a.d_wf(sh), a.tlen(self._time) == a.dpre(sh), a.tlen(tg) == a.dlen(sh))

    def ensures(self, A, result):
        a = self._M.alg
        tg, sh, np_ = self._spec
        t = trig(a, self._time, tg, sh, np_)
        if result is None:
            return Not(t)
        return And(t, result == a.plus(self._time, sh))


class ProgressSet(_P):
    """Progress.set(time): 'cannot progress backwards' iff time < self.time; afterwards self.time ==
    time, every waiter resolved had its trigger condition met by the new time (and gets the
    triggered time), cancelled waiters are not resolved, only triggered waiters are removed and no
    triggered waiter remains registered"""
    target = PROGRESS + ".set"

    def make_args(self, mk):
        a = mk.s.sched.alg
        self._old = mk.const("old_time", a.T)
        self._new = mk.const("time", a.T)
        self._L = None
        return {"self": mk.blank(PROGRESS), "time": self._new}

    def setup(self, p, A, mk):
        super().setup(p, A, mk)
        self._L = self.mk_list("futures")
        p.assume(self._L["len"] >= 0)
        A.self.fields["time"] = self._old
        A.self.fields["_futures"] = self.list_value(self._L)
        self._self = A.self

    def requires(self, A):
        a = self._M.alg
        return And(a.tlen(self._old) == a.tlen(self._new), self.typed(self._new, self._L))

    @property
    def raises(self):
        return {"AssertionError": lambda A: self._M.alg.lt(self._new, self._old)}

    def on_set_result(self, it, node, fut, x):
        a = self._M.alg
        tg, sh, np_ = fut.spec
        it.p.oblige(it.oid(node, "wakeup_sound"), "ghost_assert",
                    And(trig(a, self._new, tg, sh, np_), x == a.plus(self._new, sh), Not(self.cancelled(fut.fid))),
                    it.where(node), "a waiter is resolved only if its trigger condition holds for the new progress, with the "
                                    "triggered time, and not if it was cancelled")
        return None

    def on_delete(self, it, node, seq, idx):
        a = self._M.alg
        (tg, sh, np_), fut = seq.get(idx)
        it.p.oblige(it.oid(node, "removes_only_triggered"), "ghost_assert", trig(a, self._new, tg, sh, np_), it.where(node),
                    "only waiters whose trigger condition is met are removed")

    def _inv(self, k, v, A):
        a = self._M.alg
        cur = self._self.fields["_futures"]
        n0 = self._L["len"]
        L = self._L
        j = z3.Int("j!pi")
        same = z3.ForAll([j], Implies(And(0 <= j, j < n0 - k), And(
            cur.get(j)[0][0] == L["tg"][j], cur.get(j)[0][1] == L["sh"][j], cur.get(j)[0][2] == L["np"][j],
            cur.get(j)[1].fid == L["fid"][j])))
        j2 = z3.Int("j!pk")
        kept_untriggered = z3.ForAll([j2], Implies(And(n0 - k <= j2, j2 < cur.length), Not(
            trig(a, self._new, cur.get(j2)[0][0], cur.get(j2)[0][1], cur.get(j2)[0][2]))))
        j3 = z3.Int("j!pt")
        typed = z3.ForAll([j3], Implies(And(0 <= j3, j3 < cur.length), And(
            a.d_wf(cur.get(j3)[0][1]),
            a.tlen(self._new) == a.dpre(cur.get(j3)[0][1]), a.tlen(cur.get(j3)[0][0]) == a.dlen(cur.get(j3)[0][1]))))
        return {"unprocessed_prefix_untouched": And(cur.length >= n0 - k, same),
                "processed_suffix_untriggered": kept_untriggered,
                "typed": typed,
                "time_set": self._self.fields["time"] == self._new}

    loops = {0: lambda c, k, v, A: c._inv(k, v, A)}

    def split_post(self, A, result):
        a = self._M.alg
        cur = self._self.fields["_futures"]
        j = z3.Int("j!pp")
        return {
            "time_set": self._self.fields["time"] == self._new,
            "no_triggered_waiter_left": z3.ForAll([j], Implies(And(0 <= j, j < cur.length), Not(
                trig(a, self._new, cur.get(j)[0][0], cur.get(j)[0][1], cur.get(j)[0][2])))),
        }

    def ensures(self, A, result):
        return And(*self.split_post(A, result).values())


class AddTrigger(_P):
    """Progress._add_trigger(target, shift, needs_to_pass): returns at once iff the trigger condition
    already holds (with the triggered time); otherwise registers exactly (target, shift', ntp) with a
    new future and waits for it -- so, by the contract of set(), it resumes only after the condition
    has become true (and it stays true: lemma wait_post_stable)"""
    target = PROGRESS + "._add_trigger"
    variants = [{"shift_none": False}, {"shift_none": True}]

    def make_args(self, mk, shift_none=False):
        a = mk.s.sched.alg
        self._time = mk.const("time", a.T)
        self._tg = mk.const("target", a.T)
        self._sh = None if shift_none else mk.const("shift", a.D)
        self._np = mk.bool("needs_to_pass")
        return {"self": mk.blank(PROGRESS), "target": self._tg, "shift": self._sh, "needs_to_pass": self._np}

    def setup(self, p, A, mk):
        super().setup(p, A, mk)
        self._L = self.mk_list("futures")
        p.assume(self._L["len"] >= 0)
        A.self.fields["time"] = self._time
        A.self.fields["_futures"] = self.list_value(self._L)
        self._self = A.self
        self._newfut = None

    def requires(self, A):
        a = self._M.alg
        if self._sh is None:
            return And(a.tlen(self._tg) == a.tlen(self._time), a.tlen(self._time) >= 1)
        return And(a.d_wf(self._sh), a.tlen(self._time) == a.dpre(self._sh), a.tlen(self._tg) == a.dlen(self._sh))

    def new_future(self, it):
        self._newfut = Fut(it.p.fresh("newfut", "int"))
        return self._newfut

    def _cond(self):
        a = self._M.alg
        if self._sh is None:
            return z3.If(self._np, a.lt(self._tg, self._time), a.le(self._tg, self._time))
        return trig(a, self._time, self._tg, self._sh, self._np)

    def ensures(self, A, result):
        # (normal return without suspension)
        return self._cond()

    def on_await_future(self, it, node, fut):
        a = self._M.alg
        cur = self._self.fields["_futures"]
        n0 = self._L["len"]
        (tg, sh, np_), f = cur.get(n0)
        shape = True if self._sh is not None else And(a.dlen(sh) == a.tlen(self._time), a.dcut(sh) == a.tlen(self._time))
        it.p.oblige(it.oid(node, "registered"), "ghost_assert",
                    And(Not(self._cond()), cur.length == n0 + 1, f.fid == fut.fid, tg == self._tg, np_ == self._np,
                        (sh == self._sh) if self._sh is not None else shape),
                    it.where(node), "waits only if the condition does not hold yet, after registering exactly its own "
                                    "trigger spec with the awaited future")


class _Wait(_P):
    """Progress.has_reached / has_passed(target, shift): exactly one _add_trigger(target, shift, needs_to_pass) on the same
    Progress, needs_to_pass False for has_reached ('at or after') and True for has_passed ('strictly after' -- what C01's wait
    for the producers needs), and its result is returned"""
    wrapper_of_add_trigger = True
    needs_to_pass = None
    variants = [{"shift_none": False}, {"shift_none": True}]

    def make_args(self, mk, shift_none=False):
        a = mk.s.sched.alg
        self._tg = mk.const("target", a.T)
        self._sh = None if shift_none else mk.const("shift", a.D)
        self._obj = mk.blank(PROGRESS)
        return {"self": self._obj, "target": self._tg, "shift": self._sh}

    def requires(self, A):
        return True

    def split_post(self, A, result):
        calls = self._p.ghost.get("add_trigger_calls", [])
        out = {"one_add_trigger_call": len(calls) == 1}
        if len(calls) == 1:
            obj, args, kwargs = calls[0]
            names = ["target", "shift", "needs_to_pass"]
            got = dict(zip(names, args), **kwargs)
            same = lambda x, y: (x is y) or (is_z3(x) and is_z3(y) and x.eq(y))  # noqa: E731
            out["on_this_progress_with_the_callers_target_and_shift"] = obj is self._obj and same(got.get("target"), self._tg) \
                and (got.get("shift") is None if self._sh is None else same(got.get("shift"), self._sh))
            out["strictness"] = got.get("needs_to_pass") is self.needs_to_pass
            out["result_handed_on"] = result is self._p.ghost["add_trigger_results"][0]
        return out

    def ensures(self, A, result):
        return And(*self.split_post(A, result).values())

    def native_search(self, budget):
        for prog, target in ((3, 3), (3, 4), (4, 3)):
            yield {"progress": prog, "target": target}

    def native_call(self, m):
        if "progress" not in m:
            return True, "symbolic counter-models are not replayed (the native search is)"
        import asyncio
        from mosaik.progress import Progress
        from mosaik.tiered_time import TieredTime
        loop = asyncio.new_event_loop()
        meth = self.target.rsplit(".", 1)[1]

        async def main():
            pr = Progress(TieredTime(m["progress"]))
            t = asyncio.ensure_future(getattr(pr, meth)(TieredTime(m["target"])))
            for _ in range(3):
                await asyncio.sleep(0)
            done = t.done()
            if not done:
                t.cancel()
            return done
        try:
            done = loop.run_until_complete(main())
        finally:
            loop.close()
        exp = m["progress"] > m["target"] if self.needs_to_pass else m["progress"] >= m["target"]
        return done == exp, f"Progress at {m['progress']}: {meth}({m['target']}) {'returns' if done else 'waits'} (expected: {'returns' if exp else 'waits'})"


class HasReached(_Wait):
    target = PROGRESS + ".has_reached"
    needs_to_pass = False


class HasPassed(_Wait):
    target = PROGRESS + ".has_passed"
    needs_to_pass = True


CONTRACTS = [TriggeredTime(), ProgressSet(), AddTrigger(), HasReached(), HasPassed()]


class WaitPostStable(Lemma):
    """the postcondition of has_passed / has_reached is stable under the rely: once
    progress + shift has passed (reached) the target it stays so when progress grows (A2)"""
    name = "wait_post_stable"
    property_ids = ["C01", "C05", "C10", "C16"]
    configure = "configure"

    def statement(self, mk):
        M = mk.s.sched
        a = M.alg
        p0, p1, tg = mk.const("progress", a.T), mk.const("later_progress", a.T), mk.const("target", a.T)
        sh = mk.const("shift", a.D)
        hyps = list(M.background()) + [a.le(p0, p1), a.tlen(p0) == a.tlen(p1), a.tlen(p0) == a.dpre(sh),
                                       a.tlen(tg) == a.dlen(sh)]
        goal = And(Implies(a.lt(tg, a.plus(p0, sh)), a.lt(tg, a.plus(p1, sh))),
                   Implies(a.le(tg, a.plus(p0, sh)), a.le(tg, a.plus(p1, sh))),
                   Implies(a.lt(tg, p0), a.lt(tg, p1)), Implies(a.le(tg, p0), a.le(tg, p1)))
        return hyps, goal


class DerivedOrderAxioms(Lemma):
    """the trigger-friendly order facts added to the background (le_trans, lt_le_trans, ...) follow
    from the base axioms with C08 provenance"""
    name = "derived_order_axioms"
    property_ids = ["C01", "C05", "C10", "C16", "C02", "C07", "C09", "C13"]
    configure = "configure"

    def statement(self, mk):
        a = mk.s.sched.alg
        return [ax for _, ax, _ in a.axioms], And(*[ax for _, ax in a.derived])


LEMMAS = [WaitPostStable(), DerivedOrderAxioms()]


# ------------------------------------------------------------------ native small-scope search / replay
def _native_progress_cases():
    import itertools
    specs = [(tg, sh, np_) for tg in (0, 1, 2) for sh in (0, 1) for np_ in (False, True)]
    for old in (0, 1):
        for new in (0, 1, 2):
            for k in (0, 1, 2, 3):
                for combo in itertools.islice(itertools.product(specs, repeat=k), 0, 40, 3):
                    for canc in ([], [0], [k - 1] if k else []):
                        yield {"old": old, "new": new, "waiters": [list(c) for c in combo], "cancelled": sorted(set(x for x in canc if 0 <= x < k))}


def _native_set(m):
    import asyncio
    from mosaik.progress import Progress
    from mosaik.tiered_time import TieredTime, TieredInterval

    async def run():
        pr = Progress(TieredTime(m["old"]))
        futs = []
        for i, (tg, sh, np_) in enumerate(m["waiters"]):
            f = asyncio.get_running_loop().create_future()
            if i in m["cancelled"]:
                f.cancel()
            pr._futures.append(((TieredTime(tg), TieredInterval(sh), bool(np_)), f))
            futs.append(f)
        try:
            pr.set(TieredTime(m["new"]))
        except AssertionError:
            return m["new"] < m["old"], f"set({m['new']}) from {m['old']} raised AssertionError"
        if m["new"] < m["old"]:
            return False, "progress moved backwards without an error"
        problems = []
        remaining = [f for _, f in pr._futures]
        for i, (tg, sh, np_) in enumerate(m["waiters"]):
            tad = m["new"] + sh
            triggered = tad > tg if np_ else tad >= tg
            f = futs[i]
            if triggered:
                if f in remaining:
                    problems.append(f"waiter {i} {m['waiters'][i]} is triggered but still registered")
                if i not in m["cancelled"] and not (f.done() and not f.cancelled() and f.result() == TieredTime(tad)):
                    problems.append(f"waiter {i} {m['waiters'][i]} is triggered but was not resolved with {tad}")
            else:
                if f not in remaining:
                    problems.append(f"waiter {i} {m['waiters'][i]} is not triggered but was removed")
                if f.done() and not f.cancelled():
                    problems.append(f"waiter {i} {m['waiters'][i]} was resolved although its condition does not hold")
        if [f for f in remaining] != [futs[i] for i in range(len(futs)) if futs[i] in remaining]:
            problems.append("order of the remaining waiters changed")
        for f in futs:
            if not f.done():
                f.cancel()
        return not problems, f"Progress({m['old']}).set({m['new']}) with waiters {m['waiters']} (cancelled: {m['cancelled']}): {problems}"

    return asyncio.run(run())


def _native_set_search(self, budget):
    n = 0
    for c in _native_progress_cases():
        yield c
        n += 1
        if n >= budget:
            return


def _native_set_call(self, m):
    if "waiters" not in m:
        return True, "symbolic counter-models of Progress.set are not replayed (native search is)"
    return _native_set(m)


ProgressSet.native_search = _native_set_search
ProgressSet.native_call = _native_set_call


def _native_tt_search(self, budget):
    for t in (0, 1, 2):
        for tg in (0, 1, 2, 3):
            for sh in (0, 1):
                for np_ in (False, True):
                    yield {"t": t, "tg": tg, "sh": sh, "np": np_}
    # grouped simulators: two-tier times; intervals between siblings (cut-off 1: sub-steps are NOT carried over), inside one group
    # (cut-off 2), weak (sub-step + 1), from a group to the root and back
    for t in ((1, 0), (1, 1), (1, 2), (2, 0)):
        for sh in ({"tiers": (0, 0), "cutoff": 1, "pre": 2}, {"tiers": (0, 0), "cutoff": 2, "pre": 2}, {"tiers": (0, 1), "cutoff": 2, "pre": 2},
                   {"tiers": (1, 0), "cutoff": 1, "pre": 2}, {"tiers": (0,), "cutoff": 1, "pre": 2}):
            for tg in ((1, 0), (1, 1), (2, 0)) if len(sh["tiers"]) == 2 else ((1,), (2,)):
                for np_ in (False, True):
                    yield {"tiered": True, "t": list(t), "tg": list(tg), "sh": {**sh, "tiers": list(sh["tiers"])}, "np": np_}


def _native_tt_call(self, m):
    if "tg" not in m:
        return True, "symbolic counter-models are not replayed (native search is)"
    from mosaik.progress import Progress
    from mosaik.tiered_time import TieredTime, TieredInterval
    if m.get("tiered"):
        sh = m["sh"]
        iv = TieredInterval(*sh["tiers"], cutoff=sh["cutoff"], pre_length=sh["pre"])
        t, tg = tuple(m["t"]), tuple(m["tg"])
        # the time at the destination, written out from the definition of a delay: the first `cutoff` tiers are added,
        # the tiers behind the cut-off are REPLACED by the interval's
        tad = tuple(a + b for a, b in zip(t[:sh["cutoff"]], sh["tiers"][:sh["cutoff"]])) + tuple(sh["tiers"][sh["cutoff"]:])
        r = Progress(TieredTime(*t))._triggered_time((TieredTime(*tg), iv, m["np"]))
        trig_ = tad > tg if m["np"] else tad >= tg
        ok = (r == TieredTime(*tad)) if trig_ else (r is None)
        return ok, f"Progress({t})._triggered_time(target={tg}, shift={iv!r}, needs_to_pass={m['np']}) = {r!r}, time at the destination is {tad}"
    pr = Progress(TieredTime(m["t"]))
    r = pr._triggered_time((TieredTime(m["tg"]), TieredInterval(m["sh"]), m["np"]))
    tad = m["t"] + m["sh"]
    trig_ = tad > m["tg"] if m["np"] else tad >= m["tg"]
    ok = (r == TieredTime(tad)) if trig_ else (r is None)
    return ok, f"Progress({m['t']})._triggered_time(target={m['tg']}, shift={m['sh']}, needs_to_pass={m['np']}) = {r!r}"


TriggeredTime.native_search = _native_tt_search
TriggeredTime.native_call = _native_tt_call


def _native_at_call(self, m):
    if "tg" not in m:
        return True, "symbolic counter-models are not replayed (native search is)"
    import asyncio
    from mosaik.progress import Progress
    from mosaik.tiered_time import TieredTime, TieredInterval

    async def run():
        pr = Progress(TieredTime(m["t"]))
        sh = TieredInterval(m["sh"]) if m["sh"] is not None else None
        task = asyncio.ensure_future(pr._add_trigger(TieredTime(m["tg"]), sh, m["np"]))
        await asyncio.sleep(0)
        tad = m["t"] + (m["sh"] or 0)
        trig_ = tad > m["tg"] if m["np"] else tad >= m["tg"]
        if trig_:
            ok = task.done() and task.result() == TieredTime(tad) and not pr._futures
        else:
            ok = (not task.done()) and len(pr._futures) == 1 and pr._futures[0][0][0] == TieredTime(m["tg"]) \
                and pr._futures[0][0][2] == m["np"] and pr._futures[0][0][1] == TieredInterval(m["sh"] or 0)
        if not task.done():
            task.cancel()
        return ok, f"Progress({m['t']})._add_trigger(target={m['tg']}, shift={m['sh']}, needs_to_pass={m['np']}): done={task.done()}, registered={pr._futures!r}"

    return asyncio.run(run())


def _native_at_search(self, budget):
    for t in (0, 1, 2):
        for tg in (0, 1, 2, 3):
            for sh in (None, 0, 1):
                for np_ in (False, True):
                    yield {"t": t, "tg": tg, "sh": sh, "np": np_}


AddTrigger.native_search = _native_at_search
AddTrigger.native_call = _native_at_call
