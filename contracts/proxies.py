"""Sidecar contract for mosaik/proxies.py LocalProxy.init (C15): what an in-process simulator is sent at start and when it is
rejected.

  * exactly one ("init", (sid,), kwargs) request; `time_resolution` is never passed to a simulator whose init cannot take it, and
    is passed to a simulator that has both v3 signatures;
  * ScenarioError IFF the simulator lacks a v3 signature (init without time_resolution OR step without max_advance) AND
    announces a version >= 3;
  * otherwise the parsed version is returned and the meta kept.

External / assumed: mosaik_api_v3.check_api_compliance(sim) is True iff init accepts time_resolution AND step accepts max_advance
(its source: both signatures are inspected, **kwargs counts); the simulator's reply to init is arbitrary; extract_version
(string parsing) is covered by the bounded stand-in contracts.adapters_native and appears here as "some int list of length >= 1";
copy.deepcopy returns a copy.  A rewrite that inspects signatures itself leaves the modelled subset: the check is then decided by
the contract's native small-scope search (all four signature combinations x versions, real LocalProxy).
"""
from pyvc.contract import Contract
from pyvc.spec import And, Or, Not, Implies, Iff
try:
    import z3
    from pyvc.values import SymSeq, SymObj, Builtin, Unsupported, Opaque, Func, BoundMethod, is_z3, simp
    from pyvc.interp import Namespace
    from pyvc import extract
    import ast
except Exception:  # pragma: no cover
    z3 = None

LP = "mosaik.proxies.LocalProxy"


class SimTok:
    """the user's simulator object (external)"""


class KwDict:
    """the **kwargs of init: 'time_resolution' plus the simulator parameters"""

    def __init__(self):
        self.has_tr = True


class SendCall:
    def __init__(self, request, has_tr):
        self.request, self.has_tr = request, has_tr


class MetaTok:
    pass


class ProxyModel:
    def __init__(self, sess):
        self.s = sess
        sess.models.insert(0, self)
        sess.proxym = self
        self.init_takes_tr = z3.Bool("init_accepts_time_resolution")
        self.step_takes_ma = z3.Bool("step_accepts_max_advance")
        self.sim = SimTok()
        self.meta = MetaTok()

    def reset(self, p):
        p.ghost["px"] = {"sent": [], "asked": 0}

    def _compliance(self, it, node, sim):
        if sim is not self.sim:
            raise Unsupported("check_api_compliance of something else")
        it.p.ghost["px"]["asked"] += 1
        return And(self.init_takes_tr, self.step_takes_ma)

    def resolve_import(self, dotted):
        if dotted == "mosaik_api_v3.check_api_compliance":
            return Builtin("check_api_compliance", self._compliance)
        if dotted == "copy.deepcopy":
            return Builtin("deepcopy", lambda it, node, x: Opaque("copy of meta", [x]) if x is self.meta else Opaque("copy"))
        return NotImplemented

    def call(self, it, fn, args, kwargs, node, star):
        if isinstance(fn, BoundMethod) and fn.func.qualname == LP + ".send":
            req = args[0]
            kw = req[2] if isinstance(req, tuple) and len(req) == 3 else None
            return SendCall(req, kw.has_tr if isinstance(kw, KwDict) else None)
        if isinstance(fn, Func) and fn.qualname == "mosaik.proxies.extract_version":
            if args[0] is not self.meta:
                raise Unsupported("extract_version of something that is not the simulator's meta")
            return it.p.ghost["px"]["version"]
        return NotImplemented

    def await_value(self, it, v, e, env):
        if isinstance(v, SendCall):
            it.p.ghost["px"]["sent"].append(v)
            return self.meta
        return NotImplemented

    def delete(self, it, t, env):
        if isinstance(t, ast.Subscript):
            obj = it.eval(t.value, env)
            if isinstance(obj, KwDict):
                key = it.eval(t.slice, env)
                if key != "time_resolution":
                    raise Unsupported("del of another key of the init kwargs")
                if not obj.has_tr:
                    it.raise_("KeyError", t, implicit="del")
                obj.has_tr = False
                return True
        return NotImplemented


def configure(sess):
    ProxyModel(sess)
    extract.load_module("mosaik.proxies")


class LocalProxyInit(Contract):
    target = LP + ".init"
    property_ids = ["C15"]
    configure = "configure"

    def make_args(self, mk):
        m = mk.s.proxym
        self._m = m
        self._sid = Opaque("sid")
        self._kw = KwDict()
        self._version = mk.seq("version", "list")
        return {"self": mk.obj(LP, sim=m.sim), "sid": self._sid, "kwargs": self._kw}

    def setup(self, p, A, mk):
        self._p = p
        mk.s.proxym.reset(p)
        p.ghost["px"]["version"] = self._version

    def requires(self, A):
        return self._version.length >= 1

    def lacks_v3(self):
        return Not(And(self._m.init_takes_tr, self._m.step_takes_ma))

    def raise_allowed(self, A, e):
        if e.cls != "ScenarioError":
            return None
        return And(self.lacks_v3(), self._version.get(0) >= 3)

    def _sent(self):
        sent = self._p.ghost["px"]["sent"]
        out = {"exactly_one_init_request": len(sent) == 1}
        if len(sent) == 1:
            r = sent[0].request
            out["request_is_init_sid_kwargs"] = (isinstance(r, tuple) and len(r) == 3 and r[0] == "init" and isinstance(r[1], tuple)
                                                 and len(r[1]) == 1 and r[1][0] is self._sid and r[2] is self._kw)
            has = sent[0].has_tr
            out["no_time_resolution_for_an_init_that_cannot_take_it"] = Implies(z3.BoolVal(bool(has)), self._m.init_takes_tr)
            out["time_resolution_for_a_v3_compliant_simulator"] = Implies(Not(self.lacks_v3()), z3.BoolVal(bool(has)))
        return out

    def raise_post(self, A, e):
        return And(*self._sent().values())

    def split_post(self, A, result):
        out = self._sent()
        out["rejected_if_claiming_v3_without_the_signatures"] = Not(And(self.lacks_v3(), self._version.get(0) >= 3))
        out["returns_the_parsed_version"] = result is self._version
        meta = A.self.fields.get("_meta")
        out["meta_kept"] = isinstance(meta, Opaque) and self._m.meta in meta.mentions
        return out

    # ---- native: real LocalProxy, the four signature combinations x versions
    def native_search(self, budget):
        for init_new in (True, False, "kwargs"):
            for step_new in (True, False, "kwargs"):
                for version in ("1", "2", "2.2", "2.10", "3", "3.0", "3.0.1", "3.1"):
                    yield {"init_new": init_new, "step_new": step_new, "api_version": version}

    def native_call(self, m):
        if "api_version" not in m:
            return True, "symbolic counter-models are not replayed (the native search is)"
        import asyncio
        import contextlib
        import io
        from mosaik.proxies import LocalProxy
        from mosaik.exceptions import ScenarioError
        got = {}

        class Base:
            def __init__(self):
                self.meta = {"api_version": m["api_version"], "type": "time-based", "models": {}}

            def finalize(self):
                pass
        ns = {}
        init_src = {True: "def init(self, sid, time_resolution=1.0, **p):\n    got['init'] = dict(time_resolution=time_resolution); return self.meta",
                    False: "def init(self, sid, step_size=1):\n    got['init'] = {}; return self.meta",
                    "kwargs": "def init(self, sid, **kw):\n    got['init'] = dict(kw); return self.meta"}[m["init_new"]]
        step_src = {True: "def step(self, time, inputs, max_advance):\n    return time + 1",
                    False: "def step(self, time, inputs):\n    return time + 1",
                    "kwargs": "def step(self, time, inputs, **kw):\n    return time + 1"}[m["step_new"]]
        exec(init_src + "\n" + step_src, {"got": got}, ns)  # noqa: S102 (fixed templates above)
        Sim = type("Sim", (Base,), {"init": ns["init"], "step": ns["step"]})
        takes_tr = m["init_new"] in (True, "kwargs")
        takes_ma = m["step_new"] in (True, "kwargs")
        v = [int(x) for x in m["api_version"].split(".")]
        must_reject = not (takes_tr and takes_ma) and v >= [3]
        loop = asyncio.new_event_loop()
        try:
            with contextlib.redirect_stdout(io.StringIO()):
                try:
                    r = loop.run_until_complete(LocalProxy(Sim(), None).init("S-0", time_resolution=0.5))
                    rejected = False
                except ScenarioError:
                    r, rejected = None, True
        finally:
            loop.close()
        what = f"LocalProxy.init for a simulator with init{'(…time_resolution)' if takes_tr else '(old)'}, step{'(…max_advance)' if takes_ma else '(old)'}, api_version {m['api_version']}"
        if rejected != must_reject:
            return False, f"{what}: {'rejected' if rejected else 'accepted'}, must be {'rejected' if must_reject else 'accepted'}"
        if "init" not in got:
            return False, f"{what}: init was not called"
        passed = "time_resolution" in got["init"]
        if passed and not takes_tr:
            return False, f"{what}: time_resolution passed to an init that cannot take it"
        if takes_tr and takes_ma and (not passed or got["init"]["time_resolution"] != 0.5):
            return False, f"{what}: time_resolution not passed on ({got['init']})"
        if not rejected and r != v:
            return False, f"{what}: returned version {r}, expected {v}"
        return True, what + ": ok"


CONTRACTS = [LocalProxyInit()]


# ------------------------------------------------------------------------------------------------ extract_version
class MetaD:
    """a simulator's meta dict: 'api_version' present or not (symbolic), its value a version string"""


class VersionS:
    """the announced version string; '.'-splitting it and mapping int over the parts gives the int list `seq` (the string
    operations themselves -- str.split, int() -- are assumed, and exercised by the bounded stand-in contracts.adapters_native)"""

    def __init__(self, seq):
        self.seq = seq


class PartsS:
    def __init__(self, vs, ints=False):
        self.vs, self.ints = vs, ints


class VersionModel:
    def __init__(self, sess):
        self.s = sess
        sess.models.insert(0, self)
        sess.vm = self
        self.has_version = z3.Bool("meta_has_api_version")
        sess.builtins["map"] = Builtin("map", self._map)

    def _map(self, it, node, f, x):
        if isinstance(x, PartsS) and not x.ints and isinstance(f, Builtin) and f.name == "int":
            return PartsS(x.vs, ints=True)
        raise Unsupported("map(...) of something else than int over the parts of the version string")

    def contains(self, it, container, item, node):
        if isinstance(container, MetaD):
            if item == "api_version":
                return self.has_version
            raise Unsupported("membership test of another key in meta")
        return NotImplemented

    def getitem(self, it, obj, idx, node):
        if isinstance(obj, PartsS) and isinstance(idx, slice) and idx.step is None:
            from pyvc.values import seq_slice
            return PartsS(VersionS(seq_slice(obj.vs.seq, idx.start, idx.stop)), obj.ints)
        if isinstance(obj, MetaD):
            if idx != "api_version":
                raise Unsupported("meta[...] of another key")
            it.check_raise(Not(self.has_version), "KeyError", node, "meta['api_version']")
            return self._vs
        return NotImplemented

    def getattr(self, it, obj, name, node):
        if isinstance(obj, VersionS) and name == "split":
            def split(it2, n2, sep, *a, obj=obj):
                if sep != "." or a:
                    raise Unsupported("version.split with other arguments than ('.')")
                return PartsS(obj)
            return Builtin("str.split", split)
        return NotImplemented

    def to_list(self, it, x, node):
        if isinstance(x, PartsS) and x.ints:
            return SymSeq(x.vs.seq.length, x.vs.seq.get, "list")
        return NotImplemented


def configure_version(sess):
    VersionModel(sess)
    extract.load_module("mosaik.proxies")


class ExtractVersion(Contract):
    """extract_version(meta): [1] if the simulator announces no api_version, else exactly the int list of ALL '.'-separated parts of the
    announced string (major, minor and patch level: init_and_get_adapter compares the whole list with the configured version)"""
    target = "mosaik.proxies.extract_version"
    property_ids = ["C15"]
    configure = "configure_version"

    def make_args(self, mk):
        self._seq = mk.seq("announced_version", "list")
        mk.s.vm._vs = VersionS(self._seq)
        return {"meta": MetaD()}

    def setup(self, p, A, mk):
        self._p = p
        self._m = mk.s.vm

    def requires(self, A):
        return self._seq.length >= 1

    def split_post(self, A, result):
        m = self._m
        r = result
        if isinstance(r, (list, tuple)):
            r = SymSeq.from_tuple(tuple(r), "list")
        if not isinstance(r, SymSeq):
            return {"returns_an_int_list": z3.BoolVal(False)}
        j = z3.Int("j!ev")
        same = And(r.length == self._seq.length, z3.ForAll([j], Implies(And(j >= 0, j < r.length), r.get(j) == self._seq.get(j))))
        one = And(r.length == 1, r.get(0) == 1)
        return {"all_parts_of_the_announced_version_or_1_if_none": z3.If(m.has_version, same, one)}

    def native_search(self, budget):
        for v in (None, "1", "2", "2.2", "2.10", "3.0", "3.0.1", "3.1.4", "10.2"):
            yield {"api_version": v}

    def native_call(self, m):
        if "api_version" not in m:
            return True, "symbolic counter-models are not replayed (the native search is)"
        from mosaik.proxies import extract_version
        meta = {"models": {}}
        if m["api_version"] is not None:
            meta["api_version"] = m["api_version"]
        exp = [1] if m["api_version"] is None else [int(x) for x in m["api_version"].split(".")]
        r = extract_version(meta)
        return r == exp, f"extract_version(api_version={m['api_version']!r}) = {r}, expected {exp}"


CONTRACTS.append(ExtractVersion())
