"""Sidecar contracts for the scheduler core (mosaik/scheduler.py, SimRunner.schedule_step):
the global invariant Inv of DESIGN 8-C01 and its preservation by every function that
writes progress / next_steps / current_step.

Specifications are z3 formulas over the typed heap of pyvc.models.sched (symbolic side
only); native replay of counter-models is done by contracts/scheduler_native.py from
small-scope models.
"""
from pyvc.contract import Contract
from pyvc.spec import And, Or, Not, Implies, Iff
try:  # symbolic side only (native replay imports this module without z3)
    import z3
    from pyvc.models import sched as MS
except Exception:  # pragma: no cover
    z3 = None
    MS = None


def configure(sess, scope="proof"):
    sess.sched = MS.Model(sess, scope)


def configure_small(sess):
    configure(sess, "small")


def configure_small2(sess):
    configure(sess, "small2")


class H:
    """attribute view of a heap dict"""

    def __init__(self, d):
        self.__dict__.update(d)


# ------------------------------------------------------------------ invariant
def pending(M, h, s, x):
    """x is an unfinished step of s: scheduled or in flight"""
    return Or(h.NS[s][x] > 0, And(h.CSd[s], h.CSv[s] == x))


def U(M, s):
    """TieredTime(until) + sim.from_world_time"""
    a = M.alg
    return a.plus(a.mkT1(M.until), M.fwt(s))


def static_ok(M):
    """S: facts about the connection tables, fixed while run() is active"""
    a = M.alg

    def table(dd, vv, pre_of, len_of):
        return a.forall_sims(lambda s: a.forall_sims(lambda b: Implies(dd(s, b), And(
            a.d_wf(vv(s, b)), a.d_nonneg(vv(s, b)),
            a.dpre(vv(s, b)) == a.depth(pre_of(s, b)), a.dlen(vv(s, b)) == a.depth(len_of(s, b))))))

    fw = a.forall_sims(lambda s: And(
        a.depth(s) >= 1, a.dpre(M.fwt(s)) == 1, a.dcut(M.fwt(s)) == 1, a.dlen(M.fwt(s)) == a.depth(s),
        _all_zero(a, M.fwt(s))))
    return And(
        fw,
        table(M.TAd, M.TAv, lambda s, b: b, lambda s, b: s),     # ancestor b -> s
        table(M.IDd, M.IDv, lambda s, b: b, lambda s, b: s),     # predecessor b -> s
        table(M.SUd, M.SUv, lambda s, b: s, lambda s, b: b),     # s -> successor b
        table(M.SWd, M.SWv, lambda s, b: s, lambda s, b: b),
        M.until >= 0,
    )


def _all_zero(a, d):
    if a.small:
        return d == 0   # (small2: cut-off 1, tiers 0, 0 is encoded as 0 as well)
    i = z3.Int("i!z")
    return z3.ForAll([i], z3.Implies(z3.And(0 <= i, i < a.dlen(d)), a.dtier(d, i) == 0))


def typing(M, h):
    """I0"""
    a = M.alg
    ok = lambda s, x: And(a.tlen(x) == a.depth(s), a.t_nonneg(x))  # noqa: E731
    return a.forall_sims(lambda s: And(
        ok(s, h.P[s]),
        Implies(h.CSd[s], ok(s, h.CSv[s])),
        a.forall_times(lambda x: And(h.NS[s][x] >= 0, Implies(h.NS[s][x] > 0, ok(s, x))))))


def I1(M, h):
    a = M.alg
    return a.forall_sims(lambda s: a.forall_times(lambda x: Implies(h.NS[s][x] > 0, a.le(h.P[s], x))))


def I2(M, h):
    a = M.alg
    return a.forall_sims(lambda s: Implies(h.CSd[s], h.P[s] == h.CSv[s]))


def I3(M, h):
    a = M.alg
    return a.forall_sims(lambda s: a.forall_sims(lambda b: Implies(M.TAd(s, b), a.forall_times(
        lambda x: Implies(pending(M, h, b, x), a.le(h.P[s], a.plus(x, M.TAv(s, b))))))))


def I4(M, h):
    a = M.alg
    return a.forall_sims(lambda s: a.le(h.P[s], U(M, s)))


def I5(M, h):
    """no duplicate scheduled steps (schedule_step's dedup)"""
    a = M.alg
    return a.forall_sims(lambda s: a.forall_times(lambda x: h.NS[s][x] <= 1))


def J(M, h):
    """J': once a consumer c has begun a step at begun[c], every simulator p feeding it has
    progressed so far that all its later output is due after begun[c] (C01, 'equivalently')"""
    a = M.alg
    return a.forall_sims(lambda c: a.forall_sims(lambda p: Implies(
        And(M.IDd(c, p), h.BGd[c]), a.lt(h.BGv[c], a.plus(h.P[p], M.IDv(c, p))))))


def K(M, h):
    """every scheduled step of s lies strictly after the last step s began (C02: strictly
    increasing, no repetition)"""
    a = M.alg
    return a.forall_sims(lambda s: a.forall_times(lambda x: Implies(And(h.BGd[s], h.NS[s][x] > 0), a.lt(h.BGv[s], x))))


def BG(M, h):
    """bookkeeping of the ghost begun[]: well-typed, not ahead of progress, equal to the step in flight"""
    a = M.alg
    return a.forall_sims(lambda s: And(
        Implies(h.BGd[s], And(a.tlen(h.BGv[s]) == a.depth(s), a.t_nonneg(h.BGv[s]), a.le(h.BGv[s], h.P[s]))),
        Implies(h.CSd[s], And(h.BGd[s], h.BGv[s] == h.CSv[s]))))


def Inv(M, hd):
    h = H(hd)
    return And(*[f(M, h) for f in INV_PARTS.values()])


INV_PARTS = {"I0_typing": typing, "I1": I1, "I2": I2, "I3": I3, "I4": I4, "I5_nodup": I5, "J_inputs_ready": J,
             "K_increasing": K, "BG_ghost": BG}


def forall_j(M, f):
    if M.alg.small:
        return And(*[f(j) for j in range(M.J)])
    j = z3.Int(f"j!{next(MS._q)}")
    return z3.ForAll([j], Implies(j >= 0, f(j)))


def sem_le(M, d, e, depth_pre):
    """for every departure time t of the right shape: t + d <= t + e"""
    a = M.alg
    return a.forall_times(lambda t: Implies(And(a.tlen(t) == depth_pre, a.t_nonneg(t)), a.le(a.plus(t, d), a.plus(t, e))))


def trig_static(M):
    """S for trigger edges: every trigger edge a -> b (delay d) is covered by the cached
    minimal delays: TA[b][a] <= d and TA[s][a] <= d + TA[s][b] for every s triggered via b
    (closure, established by cache_triggering_ancestors), and input_delays[b][a] <= d
    (connect_one keeps the minimum) -- all in the semantic sense (for every departure time)"""
    a = M.alg

    def edge(x, b, j):
        d = M.TRv(x, b, j)
        return Implies(M.TRd(x, b, j), And(
            M.out_req(x),   # a connection makes the source's attribute part of its output request
            a.d_wf(d), a.d_nonneg(d), a.dpre(d) == a.depth(x), a.dlen(d) == a.depth(b),
            M.TAd(b, x), sem_le(M, M.TAv(b, x), d, a.depth(x)),
            M.IDd(b, x), sem_le(M, M.IDv(b, x), d, a.depth(x)),
            a.forall_sims(lambda s: Implies(M.TAd(s, b), And(
                M.TAd(s, x),
                a.forall_times(lambda t: Implies(
                    And(a.tlen(t) == a.depth(x), a.t_nonneg(t)),
                    a.le(a.plus(t, M.TAv(s, x)), a.plus(a.plus(t, d), M.TAv(s, b))))))))))

    return a.forall_sims(lambda x: a.forall_sims(lambda b: forall_j(M, lambda j: edge(x, b, j))))


def frame(M, h0, h1, changed):
    """every heap field not named in `changed` is unchanged; named ones only at `at`"""
    out = []
    for k in h0:
        if k in changed:
            at = changed[k]
            if at is None:
                continue
            a = M.alg
            out.append(a.forall_sims(lambda s, k=k, at=at: Implies(s != at, h1[k][s] == h0[k][s])))
        else:
            out.append(h1[k] == h0[k])
    return And(*out)


def not_rt(M):
    return Not(And(M.rt_d, M.rt_v != 0))


# ------------------------------------------------------------------ contracts
class _Sched(Contract):
    configure = "configure"
    configure_small = "configure_small"
    configure_small2 = "configure_small2"
    property_ids = ["C01", "C02", "C05"]

    def M(self, mk):
        return mk.s.sched

    def setup(self, p, A, mk):
        M = mk.s.sched
        self._M = M
        self._p = p
        self._h0 = M.fresh_heap(p, "h")
        p.ghost["heap"] = dict(self._h0)
        for ax in M.background():
            p.assume(ax)
        M.small_sync(p, self._h0)

    def cur(self):
        return self._p.ghost["heap"]

    def model_values(self, m):
        return self._M.dump_model(m, self._h0)


class AdvanceProgress(_Sched):
    """advance_progress(sim, world): preserves Inv, never moves progress backwards
    ('cannot progress backwards' unreachable), writes sim.progress only"""
    target = "mosaik.scheduler.advance_progress"

    def make_args(self, mk):
        M = mk.s.sched
        return {"sim": mk.const("sim", M.alg.Sim), "world": M.world}

    def requires(self, A):
        M = self._M
        return And(static_ok(M), Inv(M, self._h0), not_rt(M))

    def ensures(self, A, result):
        M, h0, h1 = self._M, self._h0, self.cur()
        a = M.alg
        return And(Inv(M, h1), frame(M, h0, h1, {"P": A.sim}), a.le(h0["P"][A.sim], h1["P"][A.sim]))

    def native_call(self, m):
        from contracts import scheduler_native as N
        return N.replay_advance_progress(m)

    # ---- modular use (sim_process)
    def call_requires(self, it, A):
        return {"inv": Inv(it.s.sched, it.p.ghost["heap"])}

    def call_effect(self, it, A, node):
        M = it.s.sched
        a = M.alg
        p = it.p
        h = p.ghost["heap"]
        old = h["P"][A.sim]
        new = p.fresh("progress", a.T)
        if a.small:
            p.assume(And(new >= 0, new < a.TB))
        h["P"] = z3.Store(h["P"], A.sim, new)
        p.assume(And(Inv(M, h), a.le(old, new)))
        return None

    def split_post(self, A, result):
        """the postcondition clause by clause (one obligation each)"""
        M, h0, h1 = self._M, self._h0, self.cur()
        a = M.alg
        out = {k: f(M, H(h1)) for k, f in INV_PARTS.items()}
        out["frame"] = frame(M, h0, h1, {"P": A.sim})
        out["monotone"] = a.le(h0["P"][A.sim], h1["P"][A.sim])
        return out


class ScheduleStep(_Sched):
    """SimRunner.schedule_step(t): adds t to next_steps unless already scheduled (set
    semantics), wakes the simulator iff t is a new minimum; preserves Inv provided the step
    is not in the simulator's past and not before any descendant's progress"""
    target = "mosaik.simmanager.SimRunner.schedule_step"
    property_ids = ["C01", "C02", "C05"]

    def make_args(self, mk):
        M = mk.s.sched
        self._x = mk.const("x", M.alg.T)
        return {"self": mk.const("sim", M.alg.Sim), "tiered_time": M.T_(self._x)}

    @staticmethod
    def pre_clauses(M, hd, sim, x):
        a = M.alg
        h = H(hd)
        return {
            "typing": And(a.tlen(x) == a.depth(sim), a.t_nonneg(x)),
            "not_in_past": a.le(h.P[sim], x),
            "descendants": a.forall_sims(lambda s: Implies(M.TAd(s, sim), a.le(h.P[s], a.plus(x, M.TAv(s, sim))))),
            "after_begun": Implies(h.BGd[sim], a.lt(h.BGv[sim], x)),
            "inv": Inv(M, hd),
        }

    @staticmethod
    def effect(M, hd, sim, x):
        """(new NS, new newer) as terms"""
        a = M.alg
        ns = hd["NS"][sim]
        was_in = ns[x] > 0
        empty = Not(M.ns_nonempty(ns))
        new_ns = z3.Store(hd["NS"], sim, z3.Store(ns, x, z3.If(was_in, ns[x], 1)))
        earlier = Or(empty, a.lt(x, M.minT(ns)))
        new_newer = z3.Store(hd["newer"], sim, z3.If(And(Not(was_in), earlier), True, hd["newer"][sim]))
        return new_ns, new_newer

    def requires(self, A):
        M = self._M
        return And(static_ok(M), *self.pre_clauses(M, self._h0, A.self, self._x).values())

    def split_post(self, A, result):
        M, h0, h1 = self._M, self._h0, self.cur()
        new_ns, new_newer = self.effect(M, h0, A.self, self._x)
        out = {k: f(M, H(h1)) for k, f in INV_PARTS.items()}
        out["next_steps_exact"] = h1["NS"] == new_ns
        out["wake_up_exact"] = h1["newer"] == new_newer
        out["frame"] = frame(M, h0, h1, {"NS": None, "newer": None})
        return out

    def ensures(self, A, result):
        return And(*self.split_post(A, result).values())

    # ---- modular use at call sites
    def call_requires(self, it, A):
        M = it.s.sched
        return self.pre_clauses(M, it.p.ghost["heap"], A.self, M.unT(M.as_T(it, A.tiered_time, None)))

    def call_effect(self, it, A, node):
        M = it.s.sched
        h = it.p.ghost["heap"]
        x = M.unT(A.tiered_time)
        top = getattr(it.s, "cur_contract", None)
        if hasattr(top, "justify_demand"):
            it.p.oblige(it.oid(node, "demand_justified"), "ghost_assert", top.justify_demand(it, A.self, x), it.where(node),
                        "C02: a step is demanded only for a documented reason")
        new_ns, new_newer = self.effect(M, h, A.self, x)
        M.min_of(it, h["NS"][A.self])
        h["NS"], h["newer"] = new_ns, new_newer
        M.small_sync(it.p, h)
        it.p.assume(Inv(M, h))   # the callee's postcondition
        return None

    def native_call(self, m):
        from contracts import scheduler_native as N
        if "tiered_case" in m:
            return N.replay_schedule_step_tiered(m["tiered_case"])
        return N.replay_schedule_step(m)

    def native_search(self, budget):
        # a grouped simulator (tiered time of depth 2): queued steps and the step to schedule
        import itertools
        times = [[3, 0], [3, 1], [3, 2], [4, 0], [2, 5]]
        for queued in ([], [[3, 1]], [[3, 1], [4, 0]], [[4, 0]], [[3, 0], [3, 2]]):
            for x in times:
                yield {"tiered_case": {"queued": queued, "x": x}}

    def model_values(self, m):
        d = self._M.dump_model(m, self._h0)
        from pyvc.discharge import model_value
        d["x"] = model_value(m, self._x)
        return d


def use_schedule_step(sess, scope="proof"):
    configure(sess, scope)
    c = ScheduleStep()
    sess.register(c)
    sess.use_contracts_for.add(c.target)


def use_schedule_step_small(sess):
    use_schedule_step(sess, "small")


def use_schedule_step_small2(sess):
    use_schedule_step(sess, "small2")


class NotifyDependencies(_Sched):
    """notify_dependencies(sim), called right after sim.current_step = None: schedules
    output_time + delay for exactly the trigger edges whose port produced output; every
    such step is neither in the destination's past nor before a descendant's progress
    (consumes I3 for the step that has just finished); preserves Inv"""
    target = "mosaik.scheduler.notify_dependencies"
    property_ids = ["C01", "C02", "C05"]
    configure = "use_schedule_step"
    configure_small = "use_schedule_step_small"
    configure_small2 = "use_schedule_step_small2"
    loop_modifies = {0: ["NS", "newer"], 1: ["NS", "newer"]}

    def make_args(self, mk):
        M = mk.s.sched
        return {"sim": mk.const("sim", M.alg.Sim)}

    @staticmethod
    def pre_clauses(M, hd, sim):
        a, h = M.alg, H(hd)
        t = h.LS[sim]
        return {
            "step_done": Not(h.CSd[sim]),
            "last_step_typed": And(a.tlen(t) == a.depth(sim), a.t_nonneg(t)),
            # if the simulator has connected outputs, get_outputs has run for this step and validated the time (C13)
            "output_time_valid": Implies(M.out_req(sim), And(a.tlen(h.OT[sim]) == a.depth(sim), a.t_nonneg(h.OT[sim]),
                                                             a.le(t, h.OT[sim]))),
            "progress_at_step": h.P[sim] == t,          # I2 held until current_step was cleared
            # what I3 said about the step t of `sim` while it was in flight (progress has not moved since)
            "descendants_bounded": a.forall_sims(lambda s: Implies(M.TAd(s, sim), a.le(h.P[s], a.plus(t, M.TAv(s, sim))))),
            "inv": Inv(M, hd),
        }

    def requires(self, A):
        M = self._M
        return And(static_ok(M), trig_static(M), not_rt(M), *self.pre_clauses(M, self._h0, A.sim).values())

    # ---- modular use (sim_process)
    def call_requires(self, it, A):
        return self.pre_clauses(it.s.sched, it.p.ghost["heap"], A.sim)

    def call_effect(self, it, A, node):
        M = it.s.sched
        a = M.alg
        p = it.p
        old = dict(p.ghost["heap"])
        M.havoc_heap(p, ["NS", "newer"], "nd")
        h = p.ghost["heap"]
        p.assume(And(Inv(M, h), a.forall_sims(lambda s: a.forall_times(lambda x: h["NS"][s][x] >= old["NS"][s][x]))))
        return None

    def _loop_inv(self, index, v, A):
        M, h0, h1 = self._M, self._h0, self.cur()
        a = M.alg
        out = {k: f(M, H(h1)) for k, f in INV_PARTS.items()}
        out["only_adds"] = a.forall_sims(lambda s: a.forall_times(lambda x: h1["NS"][s][x] >= h0["NS"][s][x]))
        return out

    loops = {0: lambda c, index, v, A: c._loop_inv(index, v, A), 1: lambda c, index, v, A: c._loop_inv(index, v, A)}

    def _iter_post(self, v, A):
        """inner loop: the trigger edge of this iteration has its step scheduled"""
        M, h1 = self._M, self.cur()
        a = M.alg
        sim, b, j = self._p.ghost["last_trigger"]
        return h1["NS"][b][a.plus(H(h1).OT[sim], M.TRv(sim, b, j))] > 0

    iter_post = {1: lambda c, v, A: c._iter_post(v, A)}

    def justify_demand(self, it, dest, x):
        M, h = self._M, H(self.cur())
        a = M.alg
        sim = self._cur_args_sim
        if a.small:
            return Or(*[And(M.TRd(sim, dest, j), x == a.plus(h.OT[sim], M.TRv(sim, dest, j)),
                            M.has_attr(h.DATA[sim], M.TReid(sim, dest, j), M.TRattr(sim, dest, j))) for j in range(M.J)])
        j = z3.Int(f"j!{next(MS._q)}")
        return z3.Exists([j], And(j >= 0, M.TRd(sim, dest, j), x == a.plus(h.OT[sim], M.TRv(sim, dest, j)),
                                  M.has_attr(h.DATA[sim], M.TReid(sim, dest, j), M.TRattr(sim, dest, j))))

    def setup(self, p, A, mk):
        super().setup(p, A, mk)
        self._cur_args_sim = A.sim

    def split_post(self, A, result):
        M, h0, h1 = self._M, self._h0, self.cur()
        a = M.alg
        out = {k: f(M, H(h1)) for k, f in INV_PARTS.items()}
        out["frame"] = frame(M, h0, h1, {"NS": None, "newer": None})
        out["only_adds"] = a.forall_sims(lambda s: a.forall_times(lambda x: h1["NS"][s][x] >= h0["NS"][s][x]))
        return out

    def ensures(self, A, result):
        return And(*self.split_post(A, result).values())

    def native_call(self, m):
        from contracts import scheduler_native as N
        return N.replay_notify_dependencies(m)


class GetMaxAdvance(_Sched):
    """get_max_advance(world, sim, until): one less than the earliest world time at which a
    step of `sim` can be caused from outside -- by a scheduled or IN-FLIGHT step of a
    triggering ancestor (delayed by the cached minimal distance) or by an already scheduled
    own step -- capped at `until`; writes nothing"""
    target = "mosaik.scheduler.get_max_advance"
    property_ids = ["C07"]

    def make_args(self, mk):
        M = mk.s.sched
        return {"world": M.world, "sim": mk.const("sim", M.alg.Sim), "until": mk.int("until_arg")}

    def requires(self, A):
        M = self._M
        return And(static_ok(M), Inv(M, self._h0))

    def bounds(self, A):
        """the external causes of a step of A.sim: (guard, world time) pairs"""
        M, h = self._M, H(self._h0)
        a, sim = M.alg, A.sim
        out = {
            "scheduled_ancestor": lambda b: (And(M.TAd(sim, b), M.ns_nonempty(h.NS[b])),
                                             a.time(a.plus(M.minT(h.NS[b]), M.TAv(sim, b)))),
            "in_flight_ancestor": lambda b: (And(M.TAd(sim, b), b != sim, h.CSd[b]),
                                             a.time(a.plus(h.CSv[b], M.TAv(sim, b)))),
        }
        own = (M.ns_nonempty(h.NS[sim]), a.time(M.minT(h.NS[sim])))
        return out, own

    def split_post(self, A, result):
        M, h0, h1 = self._M, self._h0, self.cur()
        a = M.alg
        gens, own = self.bounds(A)
        r = result
        out = {}
        for name, g in gens.items():
            out["below_" + name] = a.forall_sims(lambda b, g=g: Implies(g(b)[0], r + 1 <= g(b)[1]))
        out["below_own_next_step"] = Implies(own[0], r + 1 <= own[1])
        out["at_most_until"] = r <= A.until
        out["tight"] = Or(r == A.until, And(own[0], r + 1 == own[1]),
                          *[a.exists_sims(lambda b, g=g: And(g(b)[0], r + 1 == g(b)[1])) for g in gens.values()])
        out["until_without_trigger_inputs"] = Implies(
            And(a.forall_sims(lambda b: Not(M.TAd(A.sim, b))), Not(own[0])), r == A.until)
        out["frame"] = frame(M, h0, h1, {})
        return out

    def ensures(self, A, result):
        return And(*self.split_post(A, result).values())

    def model_values(self, m):
        d = self._M.dump_model(m, self._h0)
        from pyvc.discharge import model_value
        d["until_arg"] = model_value(m, z3.Int("until_arg"))
        return d

    def native_call(self, m):
        from contracts import scheduler_native as N
        return N.replay_get_max_advance(m)


class AssertAsyncRequests(_Sched):
    """MosaikRemote._assert_async_requests(src_sim, dest_sim): ScenarioError IFF dest_sim is not a successor
    of src_sim OR async requests were not enabled for that connection; no effect"""
    target = "mosaik.simmanager.MosaikRemote._assert_async_requests"
    property_ids = ["C16"]
    configure_small = None
    configure_small2 = None

    def make_args(self, mk):
        M = mk.s.sched
        return {"self": Opaque("MosaikRemote"), "src_sim": mk.const("src_sim", M.alg.Sim), "dest_sim": mk.const("dest_sim", M.alg.Sim)}

    @property
    def raises(self):
        return {"ScenarioError": lambda A: Or(Not(self._M.SUd(A.src_sim, A.dest_sim)), Not(self._M.SWd(A.src_sim, A.dest_sim)))}

    def ensures(self, A, result):
        return frame(self._M, self._h0, self.cur(), {})

    def native_search(self, budget):
        for su in (False, True):
            for sw in (False, True):
                for other in (False, True):       # another simulator that IS a legitimate async partner of src_sim
                    yield {"successor": su, "async": sw, "other_async_partner": other}

    def native_call(self, m):
        if "successor" not in m:
            return True, "symbolic counter-models are not replayed (the native search is)"
        import mosaik
        from mosaik.exceptions import ScenarioError
        from mosaik.simmanager import SimRunner, MosaikRemote
        from mosaik.tiered_time import TieredInterval
        from contracts.scheduler_native import _StubProxy
        w = mosaik.World({}, skip_greetings=True)
        try:
            a, b = SimRunner("A", _StubProxy("hybrid")), SimRunner("B", _StubProxy("hybrid"))
            if m["successor"]:
                a.successors[b] = TieredInterval(0)
            if m["async"]:
                a.successors_to_wait_for[b] = TieredInterval(0)
            if m.get("other_async_partner"):
                c = SimRunner("C", _StubProxy("hybrid"))
                a.successors[c] = TieredInterval(0)
                a.successors_to_wait_for[c] = TieredInterval(0)
            try:
                MosaikRemote(w, "B")._assert_async_requests(a, b)
                raised = False
            except ScenarioError:
                raised = True
            expect = not (m["successor"] and m["async"])
            return raised == expect, (f"_assert_async_requests with successor={m['successor']}, async enabled={m['async']}, another async partner: "
                                       f"{bool(m.get('other_async_partner'))}: raised={raised}, expected {expect}")
        finally:
            w.loop.close()


try:
    from pyvc.values import Opaque, SymObj
except Exception:  # pragma: no cover
    Opaque = None


class RtCheck(_Sched):
    """rt_check(rt_factor, rt_start, rt_strict, sim) after the step for time t, `passed` seconds after the start:
      * on time (passed <= rt_factor * t -- including equality: on a virtual clock an instantly answering simulator finishes
        its step exactly then)  =>  no report of any kind;
      * late beyond doubt (passed > rt_factor * (t + 1): even the next period has begun)  =>  reported;
      * a report is a RuntimeError with rt_strict and exactly one warning without it -- never the other kind;
      * nothing is written in either mode (rt_strict changes nothing else); outside real-time mode: silent.
    Which instant between rt_factor * t and rt_factor * (t + 1) is the deadline is NOT fixed by the property (the
    code uses rt_factor * t, which makes the step for time 0 always late: known finding F17), so the contract leaves
    that band open: it must keep holding if the deadline is moved inside it."""
    target = "mosaik.scheduler.rt_check"
    property_ids = ["C17"]
    configure_small = None
    configure_small2 = None
    variants = [{"rt": False}, {"rt": True}]

    def make_args(self, mk, rt=True):
        M = mk.s.sched
        self._rt = z3.Real("rt_factor_arg") if rt else None
        self._start = z3.Real("rt_start_arg")
        self._strict = mk.bool("rt_strict")
        return {"rt_factor": self._rt, "rt_start": self._start, "rt_strict": self._strict, "sim": mk.const("sim", M.alg.Sim)}

    def requires(self, A):
        return And(static_ok(self._M), typing(self._M, H(self._h0)), *([self._rt > 0] if self._rt is not None else []))

    def _band(self, A):
        """(on_time, late) -- for whatever the clock shows if the path never read it"""
        now = self._p.ghost.get("clock")
        if now is None:
            now = z3.Real("clock!unread")
        a = self._M.alg
        t = z3.ToReal(a.time(self._h0["LS"][A.sim]))
        passed = now - self._start
        return passed <= self._rt * t, passed > self._rt * (t + 1)

    def raise_allowed(self, A, e):
        if e.cls != "RuntimeError" or self._rt is None:
            return None
        on_time, _ = self._band(A)
        return And(self._strict, Not(on_time))

    def raise_post(self, A, e):
        return And(self._p.ghost.get("logged", []).count("warning") == 0, frame(self._M, self._h0, self.cur(), {}))

    def split_post(self, A, result):
        warned = self._p.ghost.get("logged", []).count("warning")
        out = {"frame": frame(self._M, self._h0, self.cur(), {})}
        if self._rt is None:
            out["silent_outside_real_time"] = warned == 0
            return out
        on_time, late = self._band(A)
        out["silent_when_on_time"] = Implies(on_time, warned == 0)
        out["late_beyond_doubt_is_reported"] = Implies(late, And(Not(self._strict), warned == 1))
        out["a_warning_only_without_rt_strict"] = Implies(self._strict, warned == 0)
        out["at_most_one_warning"] = warned <= 1
        return out

    def ensures(self, A, result):
        return And(*self.split_post(A, result).values())


def _rt_native_world(depth, rt_factor, until=5):
    import mosaik
    from mosaik.simmanager import SimRunner
    from contracts.scheduler_native import _StubProxy
    from tqdm import tqdm
    w = mosaik.World({}, skip_greetings=True)
    w.until, w.rt_factor = until, rt_factor
    s = SimRunner("S-0", _StubProxy("hybrid"), depth=depth)
    s.tqdm = tqdm(disable=True)
    w.sims["S-0"] = s
    return w, s


def _rtcheck_search(self, budget):
    for rt in (None, 0.5):
        for strict in (False, True):
            for passed, last in ((1.0, 2), (1.0, 1), (1.5, 2), (0.0, 0), (0.25, 0), (0.75, 0), (2.5, 2), (0.4, 1), (0.9, 2)):
                yield {"rt_factor": rt, "rt_strict": strict, "passed": passed, "last_step": last}


def _rtcheck_call(self, m):
    if "passed" not in m:
        return True, "symbolic counter-models of rt_check are not replayed (the native search is)"
    from mosaik import scheduler
    from mosaik.tiered_time import TieredTime
    from loguru import logger
    w, s = _rt_native_world(1, m["rt_factor"])
    msgs = []
    hid = logger.add(lambda x: msgs.append(str(x)), level="WARNING")
    real = scheduler.perf_counter
    try:
        s.last_step = TieredTime(m["last_step"])
        scheduler.perf_counter = lambda: 100.0 + m["passed"]
        try:
            scheduler.rt_check(m["rt_factor"], 100.0, m["rt_strict"], s)
            raised = False
        except RuntimeError:
            raised = True
    finally:
        scheduler.perf_counter = real
        logger.remove(hid)
        w.loop.close()
    rt = m["rt_factor"]
    on_time = (not rt) or m["passed"] <= rt * m["last_step"]
    late = bool(rt) and m["passed"] > rt * (m["last_step"] + 1)
    reported = raised or bool(msgs)
    ok = len(msgs) <= 1 and not (raised and msgs) and not (on_time and reported) and not (late and not reported) \
        and not (raised and not m["rt_strict"]) and not (msgs and m["rt_strict"])
    exp_raise, exp_warn = ("-" if on_time else "?"), ("-" if on_time else "?")
    if late:
        exp_raise, exp_warn = m["rt_strict"], not m["rt_strict"]
    return ok, (f"rt_check(rt_factor={m['rt_factor']}, strict={m['rt_strict']}) {m['passed']} s after the start, last step "
                f"{m['last_step']}: raised={raised} (expected {exp_raise}), warnings={len(msgs)} (expected {exp_warn}; '-' none, '?' either: inside the open band)")


RtCheck.native_search = _rtcheck_search
RtCheck.native_call = _rtcheck_call


class SetEvent(_Sched):
    """MosaikRemote.set_event(t): SimulationError IFF not in real-time mode; for t < until the step (t, 0, .., 0)
    of the calling simulator is scheduled (well-typed for a simulator inside a group as well); otherwise a
    warning and no effect"""
    target = "mosaik.simmanager.MosaikRemote.set_event"
    property_ids = ["C17"]
    configure = "use_schedule_step"
    configure_small = None
    configure_small2 = None

    def make_args(self, mk):
        M = mk.s.sched
        self._sid = mk.const("sid", M.alg.Str)
        self._t = mk.int("event_time")
        return {"self": mk.obj("mosaik.simmanager.MosaikRemote", world=M.world, sid=self._sid), "event_time": self._t}

    def _sim(self):
        M = self._M
        return z3.Function("sim_with_id", M.alg.Str, M.alg.Sim)(self._sid)

    def _x(self):
        M = self._M
        a = M.alg
        return a.plus(a.mkT1(self._t), M.fwt(self._sim()))

    def requires(self, A):
        M = self._M
        a, h, sim = M.alg, H(self._h0), self._sim()
        x = self._x()
        # compliance of the external event: not in the simulator's past, not before a descendant's progress
        return And(static_ok(M), Inv(M, self._h0), self._t >= 0, a.le(h.P[sim], x),
                   a.forall_sims(lambda s: Implies(M.TAd(s, sim), a.le(h.P[s], a.plus(x, M.TAv(s, sim))))),
                   Implies(h.BGd[sim], a.lt(h.BGv[sim], x)))

    def raise_allowed(self, A, e):
        if e.cls != "SimulationError":
            return None
        return And(Not(And(self._M.rt_d, self._M.rt_v != 0)), _Sched_names_sid(e))

    def split_post(self, A, result):
        M, h0, h1 = self._M, self._h0, self.cur()
        sim, x = self._sim(), self._x()
        new_ns, new_newer = ScheduleStep.effect(M, h0, sim, x)
        warned = self._p.ghost.get("logged", []).count("warning")
        out = {"only_in_real_time_mode": And(M.rt_d, M.rt_v != 0),
               "frame": frame(M, h0, h1, {"NS": None, "newer": None})}
        if warned:
            out["ignored_iff_at_or_after_until"] = And(self._t >= M.until, h1["NS"] == h0["NS"], warned == 1)
        else:
            out["scheduled_iff_before_until"] = And(self._t < M.until, h1["NS"] == new_ns)
        return out

    def ensures(self, A, result):
        return And(*self.split_post(A, result).values())


def _Sched_names_sid(e):
    for a_ in e.args_:
        for mnt in getattr(a_, "mentions", ()):
            if "sid" in mnt:
                return True
    return False


class AdvanceProgressRT(_Sched):
    """advance_progress in real-time mode: the new progress never exceeds the wall-clock cap
    ceil(seconds since the simulator started / rt_factor) -- whatever else bounds it (C17 pacing)"""
    target = "mosaik.scheduler.advance_progress"
    property_ids = ["C17"]
    configure_small = None
    configure_small2 = None

    def make_args(self, mk):
        M = mk.s.sched
        return {"sim": mk.const("sim", M.alg.Sim), "world": M.world}

    def requires(self, A):
        M = self._M
        return And(static_ok(M), typing(M, H(self._h0)), M.rt_d, M.rt_v > 0)

    # (progress moving backwards is excluded by the real-time invariant of the whole run, which is not
    #  part of this function-level contract: AssertionError from Progress.set is allowed here)
    def raise_allowed(self, A, e):
        return True if (e.cls == "AssertionError" and e.implicit == "cannot progress backwards") else None

    def split_post(self, A, result):
        M, h0, h1 = self._M, self._h0, self.cur()
        a = M.alg
        now = self._p.ghost.get("clock")
        if now is None:
            # the path never read the clock: the cap must then hold for whatever the clock shows
            now = z3.Real("clock!unread")
        cap = z3.Int("cap")
        passed = (now - h0["rt_start"][A.sim]) / M.rt_v
        return {"capped_by_wall_clock": Implies(And(z3.ToReal(cap) >= passed, z3.ToReal(cap) < passed + 1),
                                                a.time(h1["P"][A.sim]) <= cap),
                "frame": frame(M, h0, h1, {"P": A.sim})}

    def ensures(self, A, result):
        return And(*self.split_post(A, result).values())

CONTRACTS = [AdvanceProgress(), ScheduleStep(), NotifyDependencies(), GetMaxAdvance(), AssertAsyncRequests(),
             RtCheck(), SetEvent(), AdvanceProgressRT()]


def _setevent_search(self, budget):
    for depth in (1, 2, 3):
        for rt in (None, 0.5):
            for t in (1, 4, 5, 9):
                yield {"depth": depth, "rt_factor": rt, "event_time": t}


def _setevent_call(self, m):
    if "depth" not in m:
        return True, "symbolic counter-models of set_event are not replayed (the native search is)"
    from mosaik.exceptions import SimulationError
    from mosaik.simmanager import MosaikRemote
    from mosaik.tiered_time import TieredTime
    from loguru import logger
    w, s = _rt_native_world(m["depth"], m["rt_factor"])
    msgs = []
    hid = logger.add(lambda x: msgs.append(str(x)), level="WARNING")
    try:
        s.next_steps = [TieredTime(*([2] + [0] * (m["depth"] - 1)))]
        try:
            w.loop.run_until_complete(MosaikRemote(w, "S-0").set_event(m["event_time"]))
            err = None
        except SimulationError as e:
            err = e
        except AssertionError as e:
            return False, f"set_event({m['event_time']}) for a simulator of depth {m['depth']}: AssertionError({e})"
        exp_steps = [TieredTime(*([2] + [0] * (m["depth"] - 1)))]
        if m["rt_factor"] and m["event_time"] < 5:
            exp_steps.append(TieredTime(*([m["event_time"]] + [0] * (m["depth"] - 1))))
        ok = (err is not None) == (not m["rt_factor"]) and sorted(s.next_steps) == sorted(exp_steps) \
            and (len(msgs) == 1) == bool(m["rt_factor"] and m["event_time"] >= 5)
        return ok, (f"set_event({m['event_time']}), until=5, rt_factor={m['rt_factor']}, depth {m['depth']}: error={err!r}, "
                    f"next_steps={sorted(s.next_steps)!r} (expected {sorted(exp_steps)!r}), warnings={len(msgs)}")
    finally:
        logger.remove(hid)
        w.loop.close()


SetEvent.native_search = _setevent_search
SetEvent.native_call = _setevent_call


def _aprt_search(self, budget):
    for depth in (1, 2):
        for passed in (0.0, 0.6, 2.4):
            for nxt in (None, 1, 4):
                for anc_next in (None, 4):
                    yield {"depth": depth, "passed": passed, "next_step": nxt, "ancestor_next_step": anc_next}


def _aprt_call(self, m):
    if "passed" not in m or "depth" not in m:
        return True, "symbolic counter-models are not replayed (the native search is)"
    import math
    from mosaik import scheduler
    from mosaik.simmanager import SimRunner
    from mosaik.tiered_time import TieredTime, TieredInterval
    from contracts.scheduler_native import _StubProxy
    from tqdm import tqdm
    w, s = _rt_native_world(m["depth"], 0.5, until=9)
    real = scheduler.perf_counter
    try:
        z = [0] * (m["depth"] - 1)
        s.rt_start = 100.0
        s.next_steps = [TieredTime(m["next_step"], *z)] if m["next_step"] is not None else []
        if m["ancestor_next_step"] is not None:
            anc = SimRunner("A-0", _StubProxy("hybrid"), depth=m["depth"])
            anc.tqdm = tqdm(disable=True)
            anc.next_steps = [TieredTime(m["ancestor_next_step"], *z)]
            w.sims["A-0"] = anc
            s.triggering_ancestors[anc] = TieredInterval(*([0] * m["depth"]), cutoff=m["depth"], pre_length=m["depth"])
        scheduler.perf_counter = lambda: 100.0 + m["passed"]
        try:
            scheduler.advance_progress(s, w)
        except AssertionError as e:
            return False, f"advance_progress in real-time mode for a simulator of depth {m['depth']}: AssertionError({e})"
        cap = math.ceil(m["passed"] / 0.5)
        ok = s.progress.time.time <= cap
        return ok, (f"advance_progress, rt_factor 0.5, {m['passed']} s after the start (cap {cap}), next step {m['next_step']}, ancestor's "
                    f"next step {m['ancestor_next_step']}: progress {s.progress.time!r}")
    finally:
        scheduler.perf_counter = real
        w.loop.close()


AdvanceProgressRT.native_search = _aprt_search
AdvanceProgressRT.native_call = _aprt_call
