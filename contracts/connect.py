"""Sidecar contracts for World.connect_one / connect_async_requests (mosaik/scenario.py):
C11 (validation, rejected pair leaves nothing behind), and the connection-table facts the
scheduler proofs assume (C01, C03, C06, C08, C10, C16: input_delays keeps the MINIMUM delay,
successors, triggers, pulled vs. pushed, memory slots, initial data).

The pre-state containers are lazily initialised (pyvc.models.lazy): every path of the real
function is executed on an arbitrary world; each mutation is logged, and the contract states
the exact set of mutations of the call.
"""
from pyvc.contract import Contract
from pyvc.spec import And, Or, Not, Implies, Iff
try:
    import z3
    from pyvc.models import sched as MS
    from pyvc.models import sets as SETS
    from pyvc.models import lazy as LZ
    from pyvc.values import SymSeq, SymObj, Builtin, Unsupported, Opaque, is_z3, simp
    from pyvc import extract
except Exception:  # pragma: no cover
    z3 = None
from contracts import groups as GR
from contracts import tiered_time as TTC

WORLD = "mosaik.scenario.World"


class DView:
    """a delay term seen as an object with .cutoff / .pre_length / .tiers (for the C08 spec functions)"""

    def __init__(self, a, d):
        self.a, self.d = a, d
        self.cutoff, self.pre_length = a.dcut(d), a.dpre(d)
        self.tiers = _DTiers(a, d)


class _DTiers:
    def __init__(self, a, d):
        self.a, self.d = a, d

    def sym_len(self):
        return self.a.dlen(self.d)

    def __getitem__(self, i):
        return self.a.dtier(self.d, i)


class FullIdFmt:
    pass


class AbsSet:
    """an attribute set (frozenset or OutSet: C12) seen only through membership"""

    def __init__(self, pred):
        self.pred = pred


class ConnectModel:
    """interpreter plug-in: scenario-level constants, full ids, min over delays (via the contract of
    TieredInterval.__lt__), connect_interval seen through its contract"""

    def __init__(self, sess):
        self.s = sess
        sess.models.insert(0, self)
        a = sess.sched.alg
        self.full_id = z3.Function("full_id", a.Str, a.Str, a.Str)
        self.sentinels = {}
        self.dlt = z3.Function("interval_lt", a.D, a.D, z3.BoolSort())

    def module_constant(self, it, mod, name):
        if name == "SENTINEL":
            return self.sentinels.setdefault((mod.name, name), LZ.Sentinel(f"{mod.name}.{name}"))
        if name == "FULL_ID":
            return FullIdFmt()
        return NotImplemented

    def binop(self, it, name, x, y, node):
        if isinstance(x, AbsSet) and isinstance(y, AbsSet):
            # the set algebra itself is verified in C12 (frozenset / OutSet operators)
            if name == "or":
                return AbsSet(lambda e, x=x, y=y: Or(x.pred(e), y.pred(e)))
            if name == "and":
                return AbsSet(lambda e, x=x, y=y: And(x.pred(e), y.pred(e)))
            if name == "sub":
                return AbsSet(lambda e, x=x, y=y: And(x.pred(e), Not(y.pred(e))))
        if name == "mod" and isinstance(x, FullIdFmt):
            if isinstance(y, tuple) and len(y) == 2:
                return self.full_id(y[0], y[1])
            raise Unsupported("FULL_ID % <not a pair>")
        return NotImplemented

    def contains(self, it, container, item, node):
        if isinstance(container, AbsSet):
            return container.pred(item)
        return NotImplemented

    def truth(self, it, v):
        if isinstance(v, AbsSet):
            raise Unsupported("truthiness of an attribute set")
        if is_z3(v) and v.sort() in (SETS.Elem, self.s.sched.alg.Str):
            return True      # attribute names and ids are non-empty strings
        return NotImplemented

    def order(self, it, name, x, y, node):
        M = self.s.sched
        if M.is_D(x) and M.is_D(y):
            if name != "lt":
                raise Unsupported("delay comparison other than <")
            return self.interval_lt(it, M.unD(x), M.unD(y), node)
        return NotImplemented

    def interval_lt(self, it, x, y, node):
        """contract of TieredInterval.__lt__ (C08): AssertionError iff shapes differ or the first
        difference lies where the smaller side adds and the other overwrites; else lexicographic"""
        a = self.s.sched.alg
        vx, vy = DView(a, x), DView(a, y)
        it.check_raise(Or(Not(TTC.same_shape(vx, vy)), TTC.clash(vx, vy)), "AssertionError", node,
                       "TieredInterval.__lt__: incomparable or differently shaped delays")
        r = self.dlt(x, y)
        it.p.assume(r == TTC.code_lt(vx, vy))
        return r

    def min_max(self, it, which, xs, kw, node):
        M = self.s.sched
        if which == "min" and len(xs) == 2 and M.is_D(xs[0]) and M.is_D(xs[1]):
            x, y = xs
            # Python: min(a, b) = b if b < a else a
            lt = self.interval_lt(it, M.unD(y), M.unD(x), node)
            return y if it.decide(lt) else x
        if which == "max" and len(xs) == 2 and M.is_D(xs[0]) and M.is_D(xs[1]):
            x, y = xs
            # Python: max(a, b) = b if b > a else a   (b > a is evaluated as a < b)
            lt = self.interval_lt(it, M.unD(x), M.unD(y), node)
            return y if it.decide(lt) else x
        return NotImplemented

    def to_int(self, it, x, node):
        return NotImplemented

    def unop(self, it, op, v):
        return NotImplemented


def configure(sess):
    sess.sched = MS.Model(sess, "proof")
    GR.GroupModel(sess)
    SETS.install(sess)
    sess.lazy = LZ.LazyModel(sess)
    sess.connect = ConnectModel(sess)
    extract.load_module("mosaik.scenario")
    extract.load_module("mosaik.simmanager")
    extract.load_module("mosaik.in_or_out_set")
    ci = CICall()
    sess.register(ci)
    sess.use_contracts_for.add(ci.target)
    d = GR.Depth()
    sess.register(d)
    sess.use_contracts_for.add(d.target)


def common_of(GM, s, d):
    """(ascent, descent, common group) of two groups under one root, as functions of the two groups:
    the Skolem functions of group_path's verified contract (for every pair under one root group_path
    returns a triple satisfying GroupPath.spec; the spec determines it uniquely)"""
    I = z3.IntSort()
    return (z3.Function("gp_ascent", GM.G, GM.G, I)(s, d), z3.Function("gp_descent", GM.G, GM.G, I)(s, d),
            z3.Function("gp_common", GM.G, GM.G, GM.G)(s, d))


class CICall(GR.ConnectInterval):
    """connect_interval at its call sites: seen only through its contract (verified in contracts.groups)"""

    def call_requires(self, it, A):
        GM = it.s.groups
        return {"same_root": GR.GroupPath().same_root(GM, A.src_group, A.dest_group),
                "shift_nonneg": A.time_shifted >= 0 if is_z3(A.time_shifted) else A.time_shifted >= 0}

    def call_effect(self, it, A, node):
        GM, a = it.s.groups, it.s.sched.alg
        p = it.p
        asc, desc, g = common_of(GM, A.src_group, A.dest_group)
        p.assume(GR.GroupPath().spec(GM, A.src_group, A.dest_group, asc, desc, g))
        w = A.weak
        it.check_raise(And(w != 0, Not(GM.has(g))) if is_z3(w) else (Not(GM.has(g)) if w else False), "ScenarioError", node,
                       "weak connection between simulators that share no group")
        d = p.fresh("delay", a.D)
        cut = GM.depth(g)
        i = z3.Int(f"i!cc{next(MS._q)}")
        ts = A.time_shifted
        expected = lambda i: z3.If(And(i == cut - 1, w != 0) if is_z3(w) else (i == cut - 1 if w else False), w,  # noqa: E731
                                   z3.If(i == 0, ts, 0))
        p.assume(And(a.dpre(d) == GM.depth(A.src_group), a.dlen(d) == GM.depth(A.dest_group), a.dcut(d) == cut, a.d_wf(d),
                     z3.ForAll([i], Implies(And(0 <= i, i < a.dlen(d)), a.dtier(d, i) == expected(i)))))
        p.ghost.setdefault("ci_calls", []).append({"src": A.src_group, "dest": A.dest_group, "ts": ts, "weak": w, "d": d, "common": g})
        return d


# ------------------------------------------------------------------ world construction for one call
def d_schema(sess, shape_of):
    """values of a table of delays: fresh well-formed delay of the shape the table prescribes"""
    def make(it, key, name):
        a = sess.sched.alg
        d = it.p.fresh(name.replace("[..]", ".value"), a.D)
        it.p.assume(And(a.d_wf(d), shape_of(key, d)))
        return d
    return make


class ConnectOne(Contract):
    """World.connect_one(src, dest, src_attr, dest_attr, time_shifted, weak, initial_data)

    ScenarioError IFF  the source attribute is not an output of the source model, OR the destination
    attribute is not an input of the destination model, OR a time-shifted / weak connection into a
    non-trigger input lacks initial data, OR the connection is weak and the simulators share no group;
    a rejected pair leaves NOTHING behind (no container is mutated before the error).

    On success exactly these mutations (delay = connect_interval(src group, dest group, shift, weak)):
      dest.input_delays[src]          = the MINIMUM of the existing entry and delay
      src.successors[dest]            = connect_interval(src group, dest group)   (group adaptation only)
      src.output_request[src.eid]     += src_attr
      persistent source attribute and cache:  dest.pulled_inputs[(src, delay)] += (src port, dest port)
      otherwise:                               src.output_to_push[src port] += (dest, delay, dest port)
      persistent and no cache:        memory slot dest.persistent_inputs[eid][attr][src full id] (None if new)
      trigger input:                  src.triggers[src port] += (dest, delay)
      initial data:                   cache entry at time -shift (pulled) or the memory slot (otherwise)
    """
    target = WORLD + ".connect_one"
    property_ids = ["C11", "C01", "C03", "C04", "C06", "C08", "C10"]
    configure = "configure"
    variants = [{"dest_attr_given": da, "initial": ini} for da in (True, False) for ini in (False, True)]
    shard_variants = True

    # ---- symbolic world
    def make_args(self, mk, dest_attr_given=True, initial=False):
        sess = mk.s
        M, GM, LM = sess.sched, sess.groups, sess.lazy
        a = M.alg
        self._sess = sess
        Elem = SETS.Elem

        def aset(name):
            f = z3.Function(name, Elem, z3.BoolSort())
            return AbsSet(lambda e, f=f: f(e))

        def entity(tag):
            g = mk.const(f"{tag}.group", GM.G)
            mm = mk.obj("mosaik.scenario.ModelMock",
                        event_inputs=aset(f"{tag}.event_inputs"), measurement_inputs=aset(f"{tag}.measurement_inputs"),
                        event_outputs=aset(f"{tag}.event_outputs"), measurement_outputs=aset(f"{tag}.measurement_outputs"),
                        _factory=mk.obj("mosaik.scenario.ModelFactory", _group=g))
            return mk.obj("mosaik.scenario.Entity", sid=mk.const(f"{tag}.sid", a.Str), eid=mk.const(f"{tag}.eid", a.Str),
                          model_mock=mm), g

        self._src, self._sg = entity("src")
        self._dest, self._dg = entity("dest")
        self._src_attr = mk.const("src_attr", Elem)
        self._dest_attr = mk.const("dest_attr", Elem) if dest_attr_given else None
        self._ts = mk.int("time_shifted")
        self._weak = mk.bool("weak")
        self._initial = Opaque("initial data") if initial else None
        self._use_cache = mk.bool("use_cache")
        self._world = mk.obj(WORLD, use_cache=self._use_cache, entity_graph=LZ.NoOp("entity_graph"))
        sentinel = sess.connect.module_constant(None, extract.load_module("mosaik.scenario"), "SENTINEL")
        return {"self": self._world, "src": self._src, "dest": self._dest, "src_attr": self._src_attr,
                "dest_attr": self._dest_attr, "time_shifted": self._ts, "weak": self._weak,
                "initial_data": self._initial if self._initial is not None else sentinel}

    @staticmethod
    def _set(mk, name, kind):
        if kind == "o":
            return mk.obj("mosaik.in_or_out_set.OutSet", _set=SETS.maker_set(mk, name + "._set"))
        return SETS.maker_set(mk, name)

    def sim_object(self, it_or_p, tag):
        sess = self._sess
        LM, a, GM = sess.lazy, sess.sched.alg, sess.groups
        sim = SymObj(extract.find("mosaik.simmanager.SimRunner"), {})
        fields = sim.fields
        self._group_of[id(sim)] = None

        def delay_table(name, src_side):
            # the delay stored for a pair of simulators has the shape of connect_interval of their groups
            def shape(key, d, sim=sim):
                other = self.group_of(key)
                me = self.group_of(sim)
                s, t = (me, other) if src_side else (other, me)
                if s is None or t is None:
                    return True
                asc, desc, g = common_of(GM, s, t)
                return And(GR.GroupPath().spec(GM, s, t, asc, desc, g), a.dpre(d) == GM.depth(s),
                           a.dlen(d) == GM.depth(t), a.dcut(d) == GM.depth(g))
            return LZ.LDict(LM, f"{tag}.{name}", d_schema(sess, shape))

        def nested(name, levels):
            def schema(depth):
                if depth == 0:
                    return lambda it, key, nm: Opaque("stored value")
                return lambda it, key, nm: LZ.LDict(LM, nm, schema(depth - 1))
            return LZ.LDict(LM, f"{tag}.{name}", schema(levels - 1))

        fields["input_delays"] = delay_table("input_delays", src_side=False)
        fields["successors"] = delay_table("successors", src_side=True)
        fields["successors_to_wait_for"] = delay_table("successors_to_wait_for", src_side=True)
        fields["persistent_inputs"] = nested("persistent_inputs", 3)
        fields["output_request"] = LZ.LDict(LM, f"{tag}.output_request", lambda it, key, nm: LZ.LList(LM, nm))
        fields["pulled_inputs"] = LZ.LDict(LM, f"{tag}.pulled_inputs", lambda it, key, nm: LZ.LSet(LM, nm))
        fields["output_to_push"] = LZ.LDict(LM, f"{tag}.output_to_push", lambda it, key, nm: LZ.LList(LM, nm))
        fields["triggers"] = LZ.LDict(LM, f"{tag}.triggers", lambda it, key, nm: LZ.LList(LM, nm))
        fields["sid"] = None
        return sim

    def group_of(self, sim):
        return self._group_of.get(id(sim)) if isinstance(sim, SymObj) else None

    def setup(self, p, A, mk):
        sess = mk.s
        self._p = p
        sess.lazy.reset(p)
        self._group_of = {}
        M, GM, LM = sess.sched, sess.groups, sess.lazy
        for ax in M.background() + GM.axioms():
            p.assume(ax)
        # the two simulators (the same object when the entities belong to one simulator)
        self._src_sim = self.sim_object(p, "src_sim")
        self._dest_sim = self.sim_object(p, "dest_sim")
        self._group_of[id(self._src_sim)] = self._sg
        self._group_of[id(self._dest_sim)] = self._dg
        for sim, tag in ((self._src_sim, "src_sim"), (self._dest_sim, "dest_sim")):
            has_out = p.fresh(f"{tag}.has_outputs", "bool")
            sim.fields["_has_outputs"] = has_out
        sims = LZ.LDict(LM, "world.sims", None)
        e1 = LZ.Entry(self._src.fields["sid"], True, self._src_sim)
        e2 = LZ.Entry(self._dest.fields["sid"], True, self._dest_sim)
        sims.entries = [e1, e2]
        self._world.fields["sims"] = sims
        # outputs: None or a (lazily initialised) cache, decided when first looked at
        for sim, tag in ((self._src_sim, "src_sim"), (self._dest_sim, "dest_sim")):
            sim.fields["outputs"] = LazyOutputs(sim, tag, sess)

    def requires(self, A):
        GM = self._sess.groups
        a = self._sess.sched.alg
        same_sim = self._src.fields["sid"] == self._dest.fields["sid"]
        return And(self._ts >= 0, GR.GroupPath().same_root(GM, self._sg, self._dg),
                   Implies(same_sim, self._sg == self._dg))     # one simulator = one factory = one group

    # ---- the specification
    def _dest_attr_eff(self):
        return self._dest_attr if self._dest_attr is not None else self._src_attr

    def _mem(self, x, S):
        return S.pred(x)

    def reject_condition(self, with_group=True):
        smm, dmm = self._src.fields["model_mock"].fields, self._dest.fields["model_mock"].fields
        sa, da = self._src_attr, self._dest_attr_eff()
        is_output = Or(self._mem(sa, smm["event_outputs"]), self._mem(sa, smm["measurement_outputs"]))
        is_input = Or(self._mem(da, dmm["event_inputs"]), self._mem(da, dmm["measurement_inputs"]))
        special = Or(self._ts != 0, self._weak)
        lacks_initial = And(special, self._mem(da, dmm["measurement_inputs"]), self._initial is None)
        conds = [Not(is_output), Not(is_input), lacks_initial]
        if with_group:
            conds.append(And(self._weak, self._no_shared_group()))
        return Or(*conds)

    def _no_shared_group(self):
        """the deepest common group of the two simulators is the root"""
        GM = self._sess.groups
        return Not(GM.has(common_of(GM, self._sg, self._dg)[2]))

    @property
    def raises(self):
        return {"ScenarioError": lambda A: self.reject_condition()}

    def raise_post(self, A, e):
        """a rejected pair leaves nothing behind"""
        return len(self._p.ghost["log"]) == 0

    def split_post(self, A, result):
        from contracts.connect_spec import check_success
        return check_success(self, A)

    def ensures(self, A, result):
        return And(*self.split_post(A, result).values())

    def native_search(self, budget):
        from contracts.connect_native import cases
        n = 0
        for c in cases():
            yield c
            n += 1
            if n >= budget:
                return

    def native_call(self, m):
        from contracts.connect_native import replay_connect_one
        return replay_connect_one(m)


class LazyOutputs:
    """sim.outputs: None (no cache) or a dict time -> eid -> attr -> value; which one is a symbolic fact"""

    def __init__(self, sim, tag, sess):
        self.sim, self.tag, self.sess = sim, tag, sess
        self.dict = None


class OutputsModel:
    def __init__(self, sess):
        self.s = sess
        sess.models.insert(0, self)

    def _force(self, it, lo):
        """decide whether the simulator has a cache; -> the LDict or None"""
        has = lo.sim.fields["_has_outputs"]
        if it.decide(has):
            if lo.dict is None:
                LM = self.s.lazy

                def lvl(depth):
                    if depth == 0:
                        return lambda it2, key, nm: Opaque("cached value")
                    return lambda it2, key, nm: LZ.LDict(LM, nm, lvl(depth - 1))
                lo.dict = LZ.LDict(LM, f"{lo.tag}.outputs", lvl(2))
            return lo.dict
        return None

    def identical(self, it, a, b):
        for x, y in ((a, b), (b, a)):
            if isinstance(x, LazyOutputs) and y is None:
                return self._force(it, x) is None
        return NotImplemented

    def getattr(self, it, obj, name, node):
        if isinstance(obj, LazyOutputs):
            d = self._force(it, obj)
            if d is None:
                it.raise_("AttributeError", node, implicit="None has no attribute")
            return self.s.lazy.getattr(it, d, name, node)
        return NotImplemented


_orig_configure = configure


def configure(sess):   # noqa: F811
    _orig_configure(sess)
    OutputsModel(sess)


class ConnectAsync(ConnectOne):
    """World.connect_async_requests(src factory, dest factory): successors[dest] = successors_to_wait_for[dest]
    = input_delays'[src] = connect_interval(src group, dest group) -- the zero delay of that shape, which is
    not greater than any delay already recorded for the pair (so overwriting input_delays keeps the minimum)"""
    target = WORLD + ".connect_async_requests"
    property_ids = ["C16", "C10", "C01", "C06"]
    variants = [{}]
    shard_variants = False

    def make_args(self, mk):
        sess = mk.s
        M, GM = sess.sched, sess.groups
        a = M.alg
        self._sess = sess
        self._sg, self._dg = mk.const("src.group", GM.G), mk.const("dest.group", GM.G)
        self._ssid, self._dsid = mk.const("src.sid", a.Str), mk.const("dest.sid", a.Str)
        self._srcf = mk.obj("mosaik.scenario.ModelFactory", _group=self._sg, _sid=self._ssid)
        self._destf = mk.obj("mosaik.scenario.ModelFactory", _group=self._dg, _sid=self._dsid)
        self._use_cache = mk.bool("use_cache")
        self._world = mk.obj(WORLD, use_cache=self._use_cache, entity_graph=LZ.NoOp("entity_graph"))
        # ConnectOne.setup reads the sids from entity-like objects
        self._src = SymObj(None, {"sid": self._ssid})
        self._dest = SymObj(None, {"sid": self._dsid})
        self._ts, self._weak, self._initial = 0, False, None
        return {"self": self._world, "src": self._srcf, "dest": self._destf}

    def requires(self, A):
        GM = self._sess.groups
        return And(GR.GroupPath().same_root(GM, self._sg, self._dg), Implies(self._ssid == self._dsid, self._sg == self._dg))

    raises = {}
    raise_post = None

    def split_post(self, A, result):
        from contracts.connect_spec import ops_on, entry
        a = self._sess.sched.alg
        log = self._p.ghost["log"]
        calls = self._p.ghost.get("ci_calls", [])
        out = {"one_connect_interval_call_without_shift": And(len(calls) == 1, *([calls[0]["src"].eq(self._sg), calls[0]["dest"].eq(self._dg),
                                                                                    calls[0]["ts"] == 0, calls[0]["weak"] == 0] if calls else []))}
        if not calls:
            return out
        d = calls[0]["d"]
        src_sim = self._src_sim
        su = ops_on(log, src_sim.fields["successors"], "set")
        sw = ops_on(log, src_sim.fields["successors_to_wait_for"], "set")
        dest_used = su[0][2] if su else None
        idl = [x for s_ in (self._dest_sim, src_sim) for x in ops_on(log, s_.fields["input_delays"], "set")]
        out["successors"] = And(len(su) == 1, su[0][3] is d if su else False)
        out["successors_to_wait_for"] = And(len(sw) == 1, (sw[0][3] is d and sw[0][2] is dest_used) if sw else False)
        out["input_delays"] = And(len(idl) == 1, (idl[0][3] is d and idl[0][2] is src_sim) if idl else False)
        out["nothing_else"] = len(log) == 3
        # the delay written is minimal among delays of that shape with non-negative tiers
        old = z3.Const("any_delay", a.D)
        vo, vd = DView(a, old), DView(a, d)
        out["zero_delay_is_minimal"] = Implies(And(a.d_wf(old), a.d_nonneg(old), TTC.same_shape(vo, vd), a.dcut(old) == a.dcut(d)),
                                               Not(TTC.code_lt(vo, vd)))
        return out

    def native_search(self, budget):
        for shape in ("both_root", "same_group", "root_to_group"):
            for earlier in (None, 0, 1, 2):
                yield {"async_shape": shape, "earlier_input_delay": earlier}

    def native_call(self, m):
        if "async_shape" not in m:
            return True, "symbolic counter-models of connect_async_requests are not replayed (the native search is)"
        import warnings
        from types import SimpleNamespace
        import mosaik
        from mosaik.scenario import SimGroup
        from mosaik.simmanager import SimRunner
        from mosaik.tiered_time import TieredInterval
        from contracts.connect_native import _StubProxy, GROUP_SHAPES, expected_delay
        warnings.simplefilter("ignore")
        parents, si, di = GROUP_SHAPES[m["async_shape"]]
        groups = []
        for p_ in parents:
            groups.append(SimGroup(parent=None if p_ is None else groups[p_]))
        depth = lambda i: 1 if parents[i] is None else depth(parents[i]) + 1  # noqa: E731
        w = mosaik.World({}, skip_greetings=True)
        try:
            w.main_group = groups[0]
            a, b = SimRunner("A", _StubProxy(), depth=depth(si)), SimRunner("B", _StubProxy(), depth=depth(di))
            w.sims.update({"A": a, "B": b})
            zero, _ = expected_delay(parents, si, di, 0, False)
            if m["earlier_input_delay"] is not None:
                # an earlier data connection A -> B with that time shift
                b.input_delays[a], _ = expected_delay(parents, si, di, m["earlier_input_delay"], False)
            w.connect_async_requests(SimpleNamespace(_sid="A", _group=groups[si]), SimpleNamespace(_sid="B", _group=groups[di]))
            ok = b.input_delays.get(a) == zero and a.successors.get(b) == zero and a.successors_to_wait_for.get(b) == zero
            return ok, (f"connect_async_requests(A, B), groups {m['async_shape']}, earlier data connection with time shift "
                        f"{m['earlier_input_delay']}: input_delays[B][A]={b.input_delays.get(a)!r} (expected {zero!r}: the agent must wait for "
                        f"the step of the same time), successors={a.successors.get(b)!r}, to_wait_for={a.successors_to_wait_for.get(b)!r}")
        finally:
            w.loop.close()


CONTRACTS = [ConnectOne(), ConnectAsync()]
