"""Sidecar contracts for mosaik/adapters.py (C15): the two request adapters and the version logic of
init_and_get_adapter.  Awaits of the wrapped proxy are external calls: the forwarded request is
recorded, the reply is arbitrary.  Version numbers are int lists of arbitrary length; the specification
compares them by explicit case analysis on the leading components (not by the encoder's list order).
"""
from pyvc.contract import Contract
from pyvc.spec import And, Or, Not, Implies, Iff
try:
    import z3
    from pyvc.models import sched as MS
    from pyvc.models import lazy as LZ
    from pyvc.values import SymSeq, SymObj, Builtin, Unsupported, Opaque, is_z3, simp
    from pyvc.interp import PathEnd
    from pyvc import extract
except Exception:  # pragma: no cover
    z3 = None

V3 = "mosaik.adapters.V3ToV2Adapter"
V2 = "mosaik.adapters.V2ToV1Adapter"


class ExtProxy:
    """the wrapped proxy (a BaseProxy or another adapter): external"""

    def __init__(self, name="base", is_base=True):
        self.name, self.is_base = name, is_base


class ExtCall:
    def __init__(self, proxy, what, args):
        self.proxy, self.what, self.args = proxy, what, args


class VersionStr:
    """a version string 'a.b.c'; parsing it yields the int list `seq` (string parsing is covered by the
    bounded stand-in contracts.adapters_native)"""

    def __init__(self, seq):
        self.seq = seq


class _Parts:
    def __init__(self, vs, ints=False):
        self.vs, self.ints = vs, ints


class AdapterModel:
    def __init__(self, sess):
        self.s = sess
        sess.models.insert(0, self)
        self.Str = z3.DeclareSort("AStr")
        self.lits = {}
        sess.builtins["map"] = Builtin("map", self._map)

    def lit(self, s):
        if s not in self.lits:
            self.lits[s] = z3.Const(f"str:{s}", self.Str)
        return self.lits[s]

    def distinct(self):
        ls = list(self.lits.values())
        return [z3.Distinct(*ls)] if len(ls) > 1 else []

    def _map(self, it, node, f, x):
        if isinstance(x, _Parts) and isinstance(f, Builtin) and f.name == "int":
            return _Parts(x.vs, ints=True)
        if isinstance(f, Builtin) and f.name == "str":
            return Opaque("str parts")
        raise Unsupported("map")

    # ---- hooks
    def equal(self, it, a, b, node):
        for x, y in ((a, b), (b, a)):
            if is_z3(x) and x.sort() == self.Str and isinstance(y, str):
                return x == self.lit(y)
        return NotImplemented

    def getattr(self, it, obj, name, node):
        if isinstance(obj, ExtProxy):
            if name in ("send", "init", "stop"):
                return Builtin(f"proxy.{name}", lambda it2, n2, *a, obj=obj, name=name, **k: ExtCall(obj, name, (a, k)))
            if name == "meta":
                return it.p.ghost["meta"]
            raise Unsupported(f"proxy.{name}")
        if isinstance(obj, VersionStr) and name == "split":
            return Builtin("str.split", lambda it2, n2, sep, obj=obj: _Parts(obj))
        return NotImplemented

    def to_list(self, it, x, node):
        if isinstance(x, _Parts) and x.ints:
            return x.vs.seq
        return NotImplemented

    def await_value(self, it, v, e, env):
        if isinstance(v, ExtCall):
            g = it.p.ghost
            g.setdefault("forwarded", []).append(v)
            if v.what == "send":
                r = Opaque("reply")
                g.setdefault("replies", []).append(r)
                return r
            if v.what == "init":
                if it.decide(it.p.fresh("init_raises_ScenarioError", "bool")):
                    g["init_raised"] = True
                    it.raise_("ScenarioError", e, implicit="external call")
                return g["version"]
            return None
        return NotImplemented

    def isinstance(self, it, v, cls, node):
        if isinstance(v, ExtProxy) and getattr(cls, "name", None) == "BaseProxy":
            return v.is_base
        return NotImplemented

    def truth(self, it, v):
        if isinstance(v, ExtProxy):
            return True
        return NotImplemented

    def resolve_import(self, dotted):
        if dotted == "warnings":
            def warn(it, node, *a, **k):
                it.p.ghost["warned"] = it.p.ghost.get("warned", 0) + 1
            from pyvc.interp import Namespace
            return Namespace("warnings", {"warn": Builtin("warnings.warn", warn)})
        return NotImplemented


def configure(sess):
    sess.lazy = LZ.LazyModel(sess)
    sess.adapt = AdapterModel(sess)
    extract.load_module("mosaik.adapters")
    extract.load_module("mosaik.proxies")
    extract.load_module("mosaik.simmanager")


class _A(Contract):
    configure = "configure"
    property_ids = ["C15"]

    def setup(self, p, A, mk):
        self._p = p
        self._AM = mk.s.adapt
        mk.s.lazy.reset(p)


class _Send(_A):
    variants = [{"shape": "call"}, {"shape": "other"}]
    cls = None

    def make_args(self, mk, shape="call"):
        AM = mk.s.adapt
        self._out = ExtProxy("out")
        self._shape = shape
        if shape == "call":
            self._name = mk.const("func_name", AM.Str)
            self._args = mk.seq("args")
            self._kwargs = Opaque("kwargs")
            self._req = (self._name, self._args, self._kwargs)
        else:
            self._req = (Opaque("a"), Opaque("b"))       # not a (name, args, kwargs) triple
        return {"self": mk.obj(self.cls, _out=self._out), "request": self._req}

    def requires(self, A):
        self._AM.lit("step")
        self._AM.lit("setup_done")
        return And(*self._AM.distinct())

    def fw(self):
        return [c for c in self._p.ghost.get("forwarded", []) if c.what == "send"]

    # ---- native small-scope search: the real adapter in front of a recording proxy, every request kind
    REQUESTS = [("init", ("S-0",), {"time_resolution": 1.0, "p": 3}), ("create", (2, "M"), {"x": 1}), ("setup_done", (), {}),
                ("step", (3, {"e": {"a": {"s": 1}}}, 7), {}), ("step", (3, {}), {}), ("get_data", ({"e": ["a"]},), {}),
                ("stop", (), {}), ("my_extra_method", (1, 2), {"k": "v"}), ("get_related_entities", (), {})]

    def native_search(self, budget):
        for i in range(len(self.REQUESTS)):
            yield {"request_index": i}

    def native_call(self, m):
        if "request_index" not in m:
            return True, "symbolic counter-models are not replayed (the native search is)"
        import asyncio
        import importlib
        cls = getattr(importlib.import_module("mosaik.adapters"), self.cls.rsplit(".", 1)[1])
        req = self.REQUESTS[m["request_index"]]
        seen = []

        class P:
            meta = {"api_version": "2.0", "models": {}}

            async def send(self, request):
                seen.append(request)
                return ("reply to", request[0])
        loop = asyncio.new_event_loop()
        try:
            r = loop.run_until_complete(cls(P()).send(req))
        finally:
            loop.close()
        exp_seen, exp_reply = self.native_expected(req)
        ok = [tuple(x) if isinstance(x, list) else x for x in seen] == exp_seen and r == exp_reply
        return ok, f"{cls.__name__}.send({req!r}) forwarded {seen!r} and returned {r!r}; expected {exp_seen!r} / {exp_reply!r}"


class V3Send(_Send):
    """V3ToV2Adapter.send: a ("step", args, kwargs) request is forwarded as ("step", args[0:2], kwargs) -- no
    max_advance before v3; EVERY other request is forwarded unchanged; the reply is passed back"""
    target = V3 + ".send"
    cls = V3

    def native_expected(self, req):
        if req[0] == "step":
            return [("step", tuple(req[1][:2]), req[2])], ("reply to", "step")
        return [req], ("reply to", req[0])

    def split_post(self, A, result):
        fw = self.fw()
        out = {"forwarded_exactly_once": len(fw) == 1,
               "reply_passed_back": bool(fw) and result is self._p.ghost.get("replies", [None])[-1]}
        if not fw:
            return out
        sent = fw[0].args[0][0]
        if self._shape != "call":
            out["unchanged"] = sent is self._req
            return out
        is_step = self._name == self._AM.lit("step")
        if sent is self._req:
            out["only_step_is_adapted"] = Not(is_step)
        else:
            j = z3.Int("j!v3")
            ok = isinstance(sent, tuple) and len(sent) == 3 and sent[0] == "step" and sent[2] is self._kwargs \
                and isinstance(sent[1], SymSeq)
            out["step_without_max_advance"] = And(ok, is_step, *([
                sent[1].length == z3.If(self._args.length < 2, self._args.length, 2),
                z3.ForAll([j], Implies(And(0 <= j, j < sent[1].length), sent[1].get(j) == self._args.get(j)))] if ok else []))
        return out

    def ensures(self, A, result):
        return And(*self.split_post(A, result).values())


class V2Send(_Send):
    """V2ToV1Adapter.send: "setup_done" is answered with None and NOT forwarded (no setup_done before v2.2);
    every other request is forwarded unchanged and its reply passed back"""
    target = V2 + ".send"
    cls = V2

    def native_expected(self, req):
        if req[0] == "setup_done":
            return [], None
        return [req], ("reply to", req[0])

    def split_post(self, A, result):
        fw = self.fw()
        if self._shape != "call":
            return {"forwarded_unchanged": len(fw) == 1 and fw[0].args[0][0] is self._req,
                    "reply_passed_back": bool(fw) and result is self._p.ghost.get("replies", [None])[-1]}
        is_sd = self._name == self._AM.lit("setup_done")
        if not fw:
            return {"only_setup_done_is_swallowed": And(is_sd, result is None)}
        return {"not_setup_done": Not(is_sd), "forwarded_unchanged": len(fw) == 1 and fw[0].args[0][0] is self._req,
                "reply_passed_back": result is self._p.ghost.get("replies", [None])[-1]}

    def ensures(self, A, result):
        return And(*self.split_post(A, result).values())


class InitAndGetAdapter(_A):
    """init_and_get_adapter: ScenarioError IFF init failed, OR the announced version is >= 4, OR an explicit
    api_version is configured and differs; otherwise the base proxy wrapped in V2ToV1Adapter iff version < 2.2
    and (outermost) in V3ToV2Adapter iff version < 3; a warning iff adapted and no explicit version"""
    target = "mosaik.adapters.init_and_get_adapter"
    variants = [{"explicit": False}, {"explicit": True}]

    def make_args(self, mk, explicit=False):
        self._v = mk.seq("version", "list")
        self._ev = mk.seq("explicit_version", "list") if explicit else None
        self._base = ExtProxy("base", is_base=True)
        return {"base_proxy": self._base, "sid": Opaque("sid"), "sim_params": {},
                "explicit_version_str": VersionStr(self._ev) if explicit else None}

    def setup(self, p, A, mk):
        super().setup(p, A, mk)
        p.ghost["version"] = self._v

    def requires(self, A):
        v = self._v
        return And(v.length >= 1, *([self._ev.length >= 1] if self._ev is not None else []))

    # version comparisons by case analysis on the leading components
    def lt_2_2(self):
        v = self._v
        return Or(v.get(0) < 2, And(v.get(0) == 2, Or(v.length == 1, v.get(1) < 2)))

    def lt_3(self):
        return self._v.get(0) < 3

    def ge_4(self):
        return self._v.get(0) >= 4

    def differs(self):
        if self._ev is None:
            return False
        v, ev = self._v, self._ev
        j = z3.Int("j!ve")
        return Not(And(v.length == ev.length, z3.ForAll([j], Implies(And(0 <= j, j < v.length), v.get(j) == ev.get(j)))))

    def raise_allowed(self, A, e):
        if e.cls != "ScenarioError":
            return None
        if self._p.ghost.get("init_raised"):
            return True
        return Or(self.ge_4(), self.differs())

    def split_post(self, A, result):
        out = {"accepted_only_if_valid": And(Not(self.ge_4()), Not(self.differs()))}
        r = result
        if r is self._base:
            out["no_adapter_iff_v3"] = Not(self.lt_3())
            adapted = False
        elif isinstance(r, SymObj) and r.cls.name == "V3ToV2Adapter":
            inner = r.fields.get("_out")
            if inner is self._base:
                out["only_v3_adapter_iff_2_2_to_3"] = And(self.lt_3(), Not(self.lt_2_2()))
            elif isinstance(inner, SymObj) and inner.cls.name == "V2ToV1Adapter" and inner.fields.get("_out") is self._base:
                out["both_adapters_iff_below_2_2"] = self.lt_2_2()
            else:
                out["nesting"] = False
            adapted = True
        else:
            out["nesting"] = False
            adapted = True
        warned = self._p.ghost.get("warned", 0)
        out["warning_iff_adapted_without_explicit_version"] = (warned == 1) == (adapted and self._ev is None) and warned <= 1
        return out

    def ensures(self, A, result):
        return And(*self.split_post(A, result).values())

    def native_call(self, m):
        from contracts.adapters_native import replay_version_model
        return replay_version_model(m)

    def native_search(self, budget):
        for v in ([1], [2], [2, 1], [2, 2], [2, 9], [3], [3, 0], [3, 1], [4], [4, 0]):
            for ev in (None, v, [2, 0], [3, 0]):
                yield {"version": v, "explicit_version": ev}


class V3Meta(_A):
    """V3ToV2Adapter.meta (simulators older than API 3 need not declare a type): the wrapped proxy's meta with the type
    defaulted to "time-based" ONLY IF none is declared -- a declared type (event-based, hybrid) is kept; nothing else in
    the meta changes"""
    target = V3 + ".meta"

    def make_args(self, mk):
        self._out = ExtProxy("out")
        return {"self": mk.obj(V3, _out=self._out)}

    def setup(self, p, A, mk):
        super().setup(p, A, mk)
        self._meta = LZ.LDict(mk.s.lazy, "meta", lambda it, key, nm: Opaque("declared " + str(key)))
        p.ghost["meta"] = self._meta

    def requires(self, A):
        return True

    def split_post(self, A, result):
        log = self._p.ghost.get("log", [])
        sets = [x for x in log if x[0] == "set"]
        e = next((e for e in self._meta.entries if e.key == "type"), None)
        out = {"same_meta_object_or_equal_content": result is self._meta,
               "only_the_type_entry_is_touched": all(x[1] is self._meta and x[2] == "type" for x in log),
               "default_is_time_based": all(x[3] == "time-based" for x in sets) and len(sets) <= 1}
        if e is not None and e.pre_present is not None:
            was = e.pre_present
            out["declared_type_is_kept"] = (len(sets) == 0) if was is True else ((len(sets) == 1) if was is False else
                                                                                 Implies(was, len(sets) == 0))
        else:
            out["type_entry_considered"] = False
        return out

    def ensures(self, A, result):
        return And(*self.split_post(A, result).values())

    def native_search(self, budget):
        for typ in (None, "time-based", "event-based", "hybrid"):
            yield {"declared_type": typ}

    def native_call(self, m):
        if "declared_type" not in m:
            return True, "symbolic counter-models are not replayed (the native search is)"
        from mosaik.adapters import V3ToV2Adapter

        class P:
            def __init__(self, meta):
                self.meta = meta
        meta = {"api_version": "2.4", "models": {"M": {"public": True, "params": [], "attrs": []}}}
        if m["declared_type"] is not None:
            meta["type"] = m["declared_type"]
        before = dict(meta)
        got = V3ToV2Adapter(P(meta)).meta
        exp_type = m["declared_type"] or "time-based"
        ok = got.get("type") == exp_type and {k: v for k, v in got.items() if k != "type"} == {k: v for k, v in before.items() if k != "type"}
        return ok, f"V3ToV2Adapter.meta for a simulator declaring type {m['declared_type']!r}: type {got.get('type')!r} (expected {exp_type!r})"


class _RunnerCall(_A):
    """SimRunner.step / get_data / setup_done are thin wrappers around the proxy: exactly one request of the documented shape
    is sent and the simulator's reply is handed on UNCHANGED -- no coercion (C13: what scheduler.step / get_outputs validate
    is what the simulator sent; a float 3.5 must not silently become 3).  The JSON-serialisation error path of step() (the
    proxy raising TypeError) is not modelled."""
    property_ids = ["C13", "C15"]
    method = None

    def make_args(self, mk):
        self._proxy = ExtProxy("proxy", is_base=False)
        self._vals = self.values(mk)
        return dict(self=mk.obj("mosaik.simmanager.SimRunner", _proxy=self._proxy, sid=Opaque("sid")), **self._vals)

    def values(self, mk):
        return {}

    def expected_request(self):
        raise NotImplementedError

    def requires(self, A):
        return True

    def split_post(self, A, result):
        fw = [c for c in self._p.ghost.get("forwarded", []) if c.what == "send"]
        out = {"one_request": len(fw) == 1, "reply_handed_on_unchanged": bool(fw) and result is self._p.ghost.get("replies", [None])[-1]}
        if fw:
            req = fw[0].args[0][0]
            if isinstance(req, SymSeq) and isinstance(req.length, int):
                req = [req.get(i) for i in range(req.length)]
            name, args, kwargs = self.expected_request()
            ok = isinstance(req, (list, tuple)) and len(req) == 3 and req[0] == name and isinstance(req[1], tuple) and len(req[1]) == len(args) \
                and all(x is y for x, y in zip(req[1], args)) and req[2] == kwargs
            out["request_of_the_documented_shape"] = ok
        return out

    def ensures(self, A, result):
        return And(*self.split_post(A, result).values())


class RunnerStep(_RunnerCall):
    target = "mosaik.simmanager.SimRunner.step"

    def values(self, mk):
        return {"time": Opaque("time"), "inputs": Opaque("inputs"), "max_advance": Opaque("max_advance")}

    def expected_request(self):
        v = self._vals
        return "step", (v["time"], v["inputs"], v["max_advance"]), {}

    def native_search(self, budget):
        for reply in (3, 3.5, 3.0, None, "4", True, [4]):
            yield {"step_reply": repr(reply)}

    def native_call(self, m):
        if "step_reply" not in m:
            return True, "symbolic counter-models are not replayed (the native search is)"
        import asyncio
        from mosaik.simmanager import SimRunner
        reply = eval(m["step_reply"])  # noqa: S307  (literals from native_search only)

        class P:
            meta = {"type": "time-based", "models": {}}

            async def send(self, request):
                return reply
        loop = asyncio.new_event_loop()
        try:
            r = loop.run_until_complete(SimRunner("S", P()).step(1, {}, 5))
        finally:
            loop.close()
        ok = r is reply or (type(r) is type(reply) and r == reply)
        return ok, f"SimRunner.step: the simulator replied {reply!r}, scheduler.step is handed {r!r}"


class RunnerGetData(_RunnerCall):
    target = "mosaik.simmanager.SimRunner.get_data"

    def values(self, mk):
        return {"outputs": Opaque("outputs")}

    def expected_request(self):
        return "get_data", (self._vals["outputs"],), {}


class RunnerSetupDone(_RunnerCall):
    target = "mosaik.simmanager.SimRunner.setup_done"

    def expected_request(self):
        return "setup_done", (), {}


CONTRACTS = [V3Send(), V2Send(), InitAndGetAdapter(), V3Meta(), RunnerStep(), RunnerGetData(), RunnerSetupDone()]
