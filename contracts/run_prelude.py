"""Sidecar contract for mosaik.scheduler.run (the prelude of every run; C17, and the start-up half of C05/C14):

  * ValueError IFF an rt_factor <= 0 is given, and then nothing has been started;
  * world.until = until;  world.rt_factor = rt_factor * world.time_resolution (None stays None);
  * setup_done is sent to every simulator exactly once and ALL of these are awaited before any simulator
    process exists;
  * exactly one sim_process(world, sim, until, adjusted rt_factor, rt_strict, lazy_stepping) per simulator is
    created as a task, stored in sim.task, and all of them are awaited;
  * every simulator's rt_start is defined before the processes run (a process advances the progress of all
    simulators, reading their rt_start, possibly before their own process has started).

The set of simulators is an abstract collection (arbitrary size, arbitrary iteration order; loop rule with a
ghost `seen` set).  Jobs (coroutine objects / tasks) are terms of a datatype that carries the callee's
arguments, task lists are multisets of jobs.  create_task, gather and tqdm are external: create_task(job) records
the job and returns it, awaiting gather(*list) records which jobs were awaited and what had been created so far.
"""
from pyvc.contract import Contract, Lemma
from pyvc.spec import And, Or, Not, Implies, Iff
try:
    import z3
    from pyvc.models import lazy as LZ
    from pyvc.values import SymSeq, SymObj, Builtin, Unsupported, Opaque, Func, is_z3, simp
    from pyvc.interp import Namespace
    from pyvc import extract
except Exception:  # pragma: no cover
    z3 = None


class WorldR:
    pass


class SimsDictR:
    pass


class LoopR:
    pass


class TqdmR:
    pass


class JobList:
    """a list of jobs as a multiset (order abstracted away)"""
    is_abstract_collection = True

    def __init__(self, arr):
        self.arr = arr


class GatherR:
    def __init__(self, arr, return_exceptions=False):
        self.arr = arr
        self.return_exceptions = return_exceptions


class WaitR:
    def __init__(self, arr):
        self.arr = arr


class SimsColl:
    def __init__(self, M):
        self.M = M
        self.key_sort = M.Sim

    def arbitrary(self, it):
        return it.p.fresh("sim", self.M.Sim)

    def member(self, x):
        return z3.BoolVal(True)

    def key_of(self, item):
        return item


class RunModel:
    def __init__(self, sess):
        self.s = sess
        sess.models.insert(0, self)
        sess.runm = self
        self.Sim = z3.DeclareSort("RSim")
        J = z3.Datatype("Job")
        J.declare("setup", ("s_sim", self.Sim))
        J.declare("proc", ("p_sim", self.Sim), ("p_world", z3.BoolSort()), ("p_until", z3.IntSort()),
                  ("p_rt_d", z3.BoolSort()), ("p_rt", z3.RealSort()), ("p_strict", z3.BoolSort()), ("p_lazy", z3.BoolSort()))
        self.Job = J.create()
        self.world = WorldR()
        self.tr = z3.Real("time_resolution")
        self.empty = z3.K(self.Job, z3.IntVal(0))

        def perf_counter(it, node):
            it.p.ghost["clock_reads"] += 1
            return it.p.fresh("clock", z3.RealSort())
        sess.builtins["perf_counter"] = Builtin("perf_counter", perf_counter)

    def reset(self, p):
        p.ghost["world"] = {}
        p.ghost["created"] = self.empty
        p.ghost["task_of"] = p.fresh("task_of0", z3.ArraySort(self.Sim, self.Job))
        p.ghost["task_cnt"] = z3.K(self.Sim, z3.IntVal(0))
        p.ghost["gathers"] = []
        p.ghost["rt_init"] = z3.K(self.Sim, z3.BoolVal(False))     # sim.rt_start has been assigned
        p.ghost["clock_reads"] = 0

    # ---- hooks
    def getattr(self, it, obj, name, node):
        g = it.p.ghost
        if is_z3(obj) and obj.sort() == self.Job and name == "cancel":
            def cancel(it2, n2, *a, **k):
                it2.p.ghost["cancelled"] = True
            return Builtin("Task.cancel", cancel)
        if isinstance(obj, WorldR):
            if name == "time_resolution":
                return self.tr
            if name == "sims":
                return SimsDictR()
            if name == "loop":
                return LoopR()
            if name in g["world"]:
                return g["world"][name]
            raise Unsupported(f"world.{name}")
        if isinstance(obj, SimsDictR) and name == "values":
            return Builtin("sims.values", lambda it2, n2: SimsColl(self))
        if isinstance(obj, LoopR) and name == "create_task":
            return Builtin("loop.create_task", self._create_task)
        if is_z3(obj) and obj.sort() == self.Sim:
            if name == "tqdm":
                return TqdmR()
            if name == "setup_done":
                return Builtin("sim.setup_done", lambda it2, n2, obj=obj: self.Job.setup(obj))
            if name == "sid":
                return Opaque("sid")
            raise Unsupported(f"sim.{name}")
        if isinstance(obj, TqdmR):
            return Builtin("tqdm." + name, lambda it2, n2, *a, **k: None)
        if isinstance(obj, JobList) and name == "append":
            def append(it2, n2, j, obj=obj):
                obj.arr = z3.Store(obj.arr, j, obj.arr[j] + 1)
            return Builtin("list.append", append)
        return NotImplemented

    def setattr(self, it, obj, name, v, node):
        g = it.p.ghost
        if isinstance(obj, WorldR):
            g["world"] = dict(g["world"], **{name: v})
            return True
        if is_z3(obj) and obj.sort() == self.Sim and name == "rt_start":
            g["rt_init"] = z3.Store(g["rt_init"], obj, True)
            return True
        if is_z3(obj) and obj.sort() == self.Sim and name == "task":
            if not (is_z3(v) and v.sort() == self.Job):
                raise Unsupported("sim.task = <not a task>")
            g["task_of"] = z3.Store(g["task_of"], obj, v)
            g["task_cnt"] = z3.Store(g["task_cnt"], obj, g["task_cnt"][obj] + 1)
            return True
        return NotImplemented

    def _create_task(self, it, node, job, name=None):
        if not (is_z3(job) and job.sort() == self.Job):
            raise Unsupported("create_task of something that is not a modelled coroutine")
        g = it.p.ghost
        g["created"] = z3.Store(g["created"], job, g["created"][job] + 1)
        return job

    def call(self, it, fn, args, kwargs, node, star):
        if isinstance(fn, Func) and fn.qualname == "mosaik.scheduler.sim_process" and not getattr(it, "_awaiting", 0):
            if kwargs or star is not None or len(args) != 6:
                raise Unsupported("sim_process(...) argument shape")
            w, sim, until, rt, strict, lazy = args
            if not (is_z3(sim) and sim.sort() == self.Sim):
                raise Unsupported("sim_process for something that is not a simulator of the world")
            B = lambda x: x if is_z3(x) else z3.BoolVal(bool(x))  # noqa: E731
            return self.Job.proc(sim, z3.BoolVal(w is self.world), until if is_z3(until) else z3.IntVal(until),
                                 z3.BoolVal(rt is not None), z3.RealVal(0) if rt is None else rt, B(strict), B(lazy))
        return NotImplemented

    def list_display(self, it, e, env):
        if not e.elts:
            return JobList(self.empty)
        import ast
        if not any(isinstance(x, ast.Starred) for x in e.elts):
            vs = [it.eval(x, env) for x in e.elts]
            if all(is_z3(v) and v.sort() == self.Job for v in vs):
                arr = self.empty
                for v in vs:
                    arr = z3.Store(arr, v, arr[v] + 1)
                return JobList(arr)
            return SymSeq.from_tuple(tuple(vs), "list")
        return NotImplemented

    def iter_plan(self, it, x):
        if isinstance(x, SimsColl):
            return ("abstract", x)
        return NotImplemented

    def havoc_value(self, it, nm, cur):
        if isinstance(cur, JobList):
            return JobList(it.p.fresh(nm, z3.ArraySort(self.Job, z3.IntSort())))
        if is_z3(cur) and cur.sort() == self.Job:
            return it.p.fresh(nm, self.Job)
        return NotImplemented

    def havoc_loop_heap(self, it, st, env):
        g = it.p.ghost
        g["created"] = it.p.fresh("created", z3.ArraySort(self.Job, z3.IntSort()))
        g["task_of"] = it.p.fresh("task_of", z3.ArraySort(self.Sim, self.Job))
        g["task_cnt"] = it.p.fresh("task_cnt", z3.ArraySort(self.Sim, z3.IntSort()))
        g["rt_init"] = it.p.fresh("rt_init", z3.ArraySort(self.Sim, z3.BoolSort()))

    def await_value(self, it, v, e, env):
        if isinstance(v, GatherR):
            it.p.ghost["gathers"] = it.p.ghost["gathers"] + [(v.arr, it.p.ghost["created"], v.return_exceptions)]
            if not v.return_exceptions and it.decide(it.p.fresh("an_awaited_job_fails", "bool")):
                # gather passes the first failure of an awaited job on at once (the other jobs keep running)
                it.p.ghost["gather_failed"] = True
                it.raise_("SimulationError", e, implicit="a job awaited by gather failed")
            return Opaque("gather result")
        if isinstance(v, WaitR):
            it.p.ghost["waits"] = it.p.ghost.get("waits", []) + [v.arr]
            return (Opaque("done"), Opaque("pending"))
        return NotImplemented

    @staticmethod
    def _real(x):
        return is_z3(x) and z3.is_real(x)

    def binop(self, it, op, a, b, node):
        if (self._real(a) or self._real(b)) and op == "mul" and all(self._real(x) or isinstance(x, (int, float)) for x in (a, b)):
            return a * b
        return NotImplemented

    def order(self, it, name, a, b, node):
        if (self._real(a) or self._real(b)) and all(self._real(x) or isinstance(x, (int, float)) for x in (a, b)):
            return {"lt": lambda: a < b, "le": lambda: a <= b, "gt": lambda: a > b, "ge": lambda: a >= b}[name]()
        return NotImplemented

    def resolve_import(self, dotted):
        if dotted == "time.perf_counter":
            return self.s.builtins["perf_counter"]
        if dotted == "asyncio":
            def gather(it, node, *a, _star=None, return_exceptions=False):
                if a or not isinstance(_star, JobList):
                    raise Unsupported("gather(...) of something other than one task list")
                if not isinstance(return_exceptions, bool):
                    raise Unsupported("gather(return_exceptions=<symbolic>)")
                return GatherR(_star.arr, return_exceptions)

            def wait(it, node, lst, **kw):
                # asyncio.wait completes without raising what the tasks raised: not a gather
                if not isinstance(lst, JobList):
                    raise Unsupported("wait(...) of something other than one task list")
                return WaitR(lst.arr)
            return Namespace("asyncio", {"gather": Builtin("asyncio.gather", gather), "wait": Builtin("asyncio.wait", wait)})
        return NotImplemented


def configure(sess):
    RunModel(sess)
    extract.load_module("mosaik.scheduler")


class Run(Contract):
    target = "mosaik.scheduler.run"
    configure = "configure"
    property_ids = ["C17", "C05", "C14", "C09", "C13"]
    variants = [{"rt": False}, {"rt": True}]

    def make_args(self, mk, rt=False):
        M = mk.s.runm
        self._M = M
        self._rt = mk.const("rt_factor", z3.RealSort()) if rt else None
        self._until = mk.const("until", z3.IntSort())
        self._strict = mk.const("rt_strict", z3.BoolSort())
        self._lazy = mk.const("lazy_stepping", z3.BoolSort())
        return {"world": M.world, "until": self._until, "rt_factor": self._rt, "rt_strict": self._strict,
                "lazy_stepping": self._lazy}

    def setup(self, p, A, mk):
        self._p = p
        self._M.reset(p)

    def requires(self, A):
        return True

    # ---- the specified jobs
    def adjusted(self):
        return None if self._rt is None else self._rt * self._M.tr

    def proc_of(self, s):
        adj = self.adjusted()
        return self._M.Job.proc(s, z3.BoolVal(True), self._until, z3.BoolVal(adj is not None),
                                z3.RealVal(0) if adj is None else adj, self._strict, self._lazy)

    def is_expected_proc(self, j):
        J = self._M.Job
        return And(J.is_proc(j), j == self.proc_of(J.p_sim(j)))

    # ---- loops
    def _inv_setup(self, index, v, A):
        M, g = self._M, self._p.ghost
        J = M.Job
        j = z3.Const("j!is", J)
        return {"list_holds_one_setup_job_per_simulator_seen": z3.ForAll([j], v.setup_done_events.arr[j] == z3.If(
                    And(J.is_setup(j), v.seen[J.s_sim(j)]), 1, 0)),
                "nothing_else_created": z3.ForAll([j], g["created"][j] == v.setup_done_events.arr[j]),
                "no_gather_yet": len(g["gathers"]) == 0,
                "no_task_recorded": g["task_cnt"] == z3.K(M.Sim, z3.IntVal(0))}

    def _inv_procs(self, index, v, A):
        M, g = self._M, self._p.ghost
        J = M.Job
        j = z3.Const("j!ip", J)
        s = z3.Const("s!ip", M.Sim)
        if len(g["gathers"]) != 1:
            return {"exactly_one_gather_before_the_processes": False}
        created0 = g["gathers"][0][1]
        return {"list_holds_one_process_per_simulator_seen": z3.ForAll([j], v.processes.arr[j] == z3.If(
                    And(self.is_expected_proc(j), v.seen[J.p_sim(j)]), 1, 0)),
                "nothing_else_created": z3.ForAll([j], g["created"][j] == created0[j] + v.processes.arr[j]),
                "rt_start_defined_for_every_simulator_with_a_process": z3.ForAll([s], Implies(v.seen[s], g["rt_init"][s])),
                "task_recorded_once": z3.ForAll([s], And(
                    g["task_cnt"][s] == z3.If(v.seen[s], 1, 0), Implies(v.seen[s], g["task_of"][s] == self.proc_of(s))))}

    loops = {0: lambda c, index, v, A: c._inv_setup(index, v, A),
             1: lambda c, index, v, A: c._inv_procs(index, v, A)}

    # ---- exceptions
    @property
    def raises(self):
        return {"ValueError": lambda A: (self._rt <= 0) if self._rt is not None else False,
                # the failure of a simulator (setup_done or its process) ends run() with that error
                "SimulationError": lambda A: bool(self._p.ghost.get("gather_failed"))}

    def raise_post(self, A, e):
        g = self._p.ghost
        j = z3.Const("j!rp", self._M.Job)
        if e.cls == "ValueError":
            return z3.ForAll([j], g["created"][j] == 0)
        # C14: run() itself does not cancel the processes of the other simulators -- they may be in the middle of a request to a
        # remote simulator (cancelling that request breaks the channel's reader, after which RemoteProxy.stop() waits for ever);
        # World.shutdown() cancels what is left AFTER every simulator has been stopped
        return z3.BoolVal(not g.get("cancelled"))

    # ---- success
    def split_post(self, A, result):
        M, g = self._M, self._p.ghost
        J = M.Job
        j = z3.Const("j!post", J)
        s = z3.Const("s!post", M.Sim)
        w = g["world"]
        adj = self.adjusted()
        got = w.get("rt_factor", "unset")
        out = {"until_stored": ("until" in w) and is_z3(w["until"]) and simp(w["until"] == self._until) is True
               or And("until" in w, w.get("until") == self._until),
               "rt_factor_adjusted_to_time_resolution": (got is None) if adj is None else (is_z3(got) and got == adj)}
        gs = g["gathers"]
        if len(gs) != 2:
            # (errors of the awaited jobs reach the caller through gather only)
            out["setup_and_processes_each_awaited_by_one_gather"] = False
            return out
        (l0, c0, keep0), (l1, c1, keep1) = gs
        # C09 / C13 / C14: the first failure (SimulationError of the loop guard, an invalid reply, a lost connection) ends run()
        # at once -- gather must pass it on immediately, not collect it until every other process has finished (the others
        # may be waiting for the failed one for ever)
        out["first_failure_ends_run_at_once"] = not keep0 and not keep1
        out["every_simulator_is_sent_setup_done_once_and_all_are_awaited_first"] = And(
            z3.ForAll([j], l0[j] == z3.If(J.is_setup(j), 1, 0)), z3.ForAll([j], c0[j] == l0[j]))
        out["one_process_per_simulator_with_the_adjusted_arguments_all_awaited"] = And(
            z3.ForAll([j], l1[j] == z3.If(self.is_expected_proc(j), 1, 0)),
            z3.ForAll([j], g["created"][j] == l0[j] + l1[j]), z3.ForAll([j], c1[j] == g["created"][j]))
        # C17 (no internal error in real-time mode): once the first process runs it may advance the progress of EVERY simulator
        # (advance_progress reads sim.rt_start), also of those whose own process has not started yet
        out["rt_start_defined_for_every_simulator_before_the_processes_run"] = z3.ForAll([s], g["rt_init"][s])
        out["task_recorded_in_sim_task"] = z3.ForAll([s], And(g["task_cnt"][s] == 1, g["task_of"][s] == self.proc_of(s)))
        return out

    def ensures(self, A, result):
        return And(*self.split_post(A, result).values())

    # ---- native replay: the real run() with stub simulators and a recording loop
    def native_search(self, budget):
        for rt in (None, 0.5, 2.0, 0, -1.0):
            for tr in (1.0, 0.25):
                for n in (0, 1, 3):
                    yield {"rt_factor_arg": rt, "time_resolution_arg": tr, "nsims": n}
        yield {"real_time_run_with": 2}
        yield {"rt_factor_arg": None, "time_resolution_arg": 1.0, "nsims": 3, "setup_fails": 1}
        yield {"rt_factor_arg": None, "time_resolution_arg": 1.0, "nsims": 3, "process_fails": 1}
        yield {"rt_factor_arg": None, "time_resolution_arg": 1.0, "nsims": 3, "process_fails": 1, "others_wait_forever": True}

    def native_call(self, m):
        if "real_time_run_with" in m:
            return _replay_rt_run(m["real_time_run_with"])
        if "nsims" not in m:
            return True, "symbolic counter-models of run() are not replayed (the native search is)"
        import asyncio
        import mosaik
        from mosaik import scheduler
        from mosaik.simmanager import SimRunner
        from contracts.scheduler_native import _StubProxy
        from tqdm import tqdm
        rt, tr, n = m["rt_factor_arg"], m["time_resolution_arg"], m["nsims"]
        w = mosaik.World({}, skip_greetings=True, time_resolution=tr)
        seen, order, done = [], [], []
        real = scheduler.sim_process

        async def fake(world, sim, until, rt_factor, rt_strict, lazy_stepping):
            seen.append((world is w, sim.sid, until, rt_factor, rt_strict, lazy_stepping))
            order.append("proc")
            for _ in range(3 * (n - int(sim.sid[2:]))):     # earlier simulators finish later
                await asyncio.sleep(0)
            if m.get("process_fails") == int(sim.sid[2:]):
                raise ConnectionResetError(sim.sid)
            if m.get("others_wait_forever"):
                await asyncio.Future()        # waits for the failed simulator: never done
            done.append(sim.sid)
        try:
            for i in range(n):
                s = SimRunner(f"S-{i}", _StubProxy("hybrid"), depth=1)
                s.tqdm = tqdm(disable=True)

                async def sd(order=order, i=i):
                    await asyncio.sleep(0)
                    if m.get("setup_fails") == i:
                        raise ConnectionResetError(f"S-{i}")
                    order.append("setup")
                s.setup_done = sd
                w.sims[s.sid] = s
            scheduler.sim_process = fake
            try:
                w.loop.run_until_complete(asyncio.wait_for(scheduler.run(w, 7, rt, True, False), 3))
                err = None
            except (ValueError, ConnectionResetError) as e:
                err = e
            except asyncio.TimeoutError:
                for t in asyncio.all_tasks(w.loop):
                    t.cancel()
                return False, (f"run() with {n} simulators where the process of S-1 fails while the others wait for it: still not "
                               f"returned after 3 s (events {order})")
            if "setup_fails" in m or "process_fails" in m:
                ok = isinstance(err, ConnectionResetError) and ("setup_fails" not in m or "proc" not in order)
                if m.get("others_wait_forever"):
                    # run() leaves the processes of the other simulators alone (World.shutdown cancels them after the simulators
                    # have been stopped): cancelling a process in the middle of a remote request breaks the channel
                    touched = [s.sid for s in w.sims.values() if s.task is not None and (s.task.cancelled() or s.task.cancelling())]
                    if touched:
                        for t in asyncio.all_tasks(w.loop):
                            t.cancel()
                        return False, (f"run() with {n} simulators where the process of S-1 fails while the others wait for it: run() "
                                       f"cancelled the still running processes of {touched} itself")
                for t in asyncio.all_tasks(w.loop):
                    t.cancel()
                return ok, (f"run() with {n} simulators where {'setup_done' if 'setup_fails' in m else 'the process'} of S-1 fails with "
                            f"ConnectionResetError: error reaching the caller: {err!r}, events {order}")
            must_raise = rt is not None and rt <= 0
            if must_raise or err is not None:
                ok = must_raise and err is not None and not order
                return ok, f"run(rt_factor={rt}): error={err!r}, started before the error: {order}"
            exp_rt = None if rt is None else rt * tr
            exp = sorted((True, f"S-{i}", 7, exp_rt, True, False) for i in range(n))
            ok = (w.until == 7 and w.rt_factor == exp_rt and sorted(seen, key=str) == sorted(exp, key=str)
                  and order == ["setup"] * n + ["proc"] * n and all(s.task is not None for s in w.sims.values())
                  and len(done) == n)
            return ok, (f"run(until=7, rt_factor={rt}) with time_resolution={tr}, {n} simulators: world.rt_factor={w.rt_factor!r} "
                        f"(expected {exp_rt!r}), world.until={w.until}, processes started with {seen} (expected {exp}), order {order}, "
                        f"finished when run() returned: {done}")
        finally:
            scheduler.sim_process = real
            w.loop.close()


def _replay_rt_run(n):
    """a complete real-time run of n unconnected, instantly answering in-process simulators must not fail with an internal
    error (C17)"""
    import sys
    import types
    import warnings
    import mosaik
    import mosaik_api_v3
    warnings.simplefilter("ignore")
    meta = {"api_version": "3.0", "type": "time-based", "models": {"M": {"public": True, "params": [], "attrs": ["x"]}}}

    class Sim(mosaik_api_v3.Simulator):
        def __init__(self):
            super().__init__(meta)

        def init(self, sid, time_resolution=1.0, **kw):
            return self.meta

        def create(self, num, model, **kw):
            return [{"eid": f"e{i}", "type": model} for i in range(num)]

        def step(self, time, inputs, max_advance):
            return time + 1

        def get_data(self, outputs):
            return {}
    mod = types.ModuleType("_rt_sims")
    mod.Sim = Sim
    sys.modules["_rt_sims"] = mod
    w = mosaik.World({"D": {"python": "_rt_sims:Sim"}}, skip_greetings=True)
    try:
        for _ in range(n):
            w.start("D").M()
        try:
            w.run(until=2, rt_factor=0.05, print_progress=False)
            err = None
        except Exception as e:  # noqa: BLE001
            err = e
    finally:
        if not w.loop.is_closed():
            w.shutdown()
    return err is None, f"real-time run (rt_factor=0.05, until=2) of {n} instantly answering in-process simulators: " + \
        ("completed" if err is None else f"failed with {type(err).__name__}: {err}")


class PacingFromCap(Lemma):
    """C17 pacing as a consequence of the contracts: sim_process begins the step for time t only when
    t == progress.time (its own check, C13), progress.time was last set by the simulator's own advance_progress
    (P is owned) under the cap  progress.time <= ceil((clock - rt_start) / world.rt_factor)  (AdvanceProgressRT),
    world.rt_factor = rt_factor * time_resolution > 0 (Run), and the clock never runs backwards.  Hence at every
    later instant `now`:  now - rt_start > rt_factor * time_resolution * (t - 1)."""
    name = "pacing_from_cap"
    property_ids = ["C17"]

    def statement(self, mk):
        R, I = z3.RealSort(), z3.IntSort()
        rt_arg, tr, start, clock0, now = (mk.const(n, R) for n in ("rt_factor", "time_resolution", "rt_start", "clock_at_advance", "now"))
        cap, t = mk.const("cap", I), mk.const("t", I)
        rt = rt_arg * tr
        q = mk.const("passed_over_rt", R)
        hyps = [rt > 0, q * rt == clock0 - start, z3.ToReal(cap) >= q, z3.ToReal(cap) < q + 1, t <= cap, now >= clock0]
        return hyps, now - start > rt * z3.ToReal(t - 1)


CONTRACTS = [Run()]
LEMMAS = [PacingFromCap()]
