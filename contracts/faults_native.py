"""Bounded stand-in for the whole-run clause of C14 (fault containment): the REAL World.run is driven with in-process
simulators of the small scenarios of contracts/determinism_native.py, and ONE fault is injected per run -- at every request
index (setup_done, the k-th step, the k-th get_data) of every simulator, for two fault kinds (the simulator raises / its
connection is reset).  After each run:
    * run() has come back with an error within the watchdog time (it does not hang, it does not "succeed");
    * every OTHER simulator has received finalize exactly once (the failing one at most once);
    * the event loop is closed and no task of it is still pending.
Runs under /venv/bin/python.  Labelled bounded (fault enumeration over a stated family); nothing here is counted as proved.
The thorough tier adds runs with one simulator as a separate process (process exit as the fault; the transport clause of C04).
"""
from __future__ import annotations
import asyncio
import json
import signal


class _Hang(Exception):
    pass


# API-violating replies of step() (C13), as functions of the step time
BAD_REPLIES = {"same_time": lambda t: t, "earlier": lambda t: t - 1, "float": lambda t: t + 1.5, "string": lambda t: str(t + 1),
               "bad_output_time": None}


def _make_class(spec, fault, log, role):
    import mosaik_api_v3
    from contracts.determinism_native import _meta, behave, produce
    counters = {"step": 0, "get_data": 0, "setup_done": 0}

    def maybe_fail(method):
        k = counters[method]
        counters[method] += 1
        if fault["role"] == role and fault["method"] == method and fault["index"] == k:
            log.append(("fault", role, method, k))
            if fault["kind"] in BAD_REPLIES:
                return True
            raise (ConnectionResetError("connection reset") if fault["kind"] == "connection" else ValueError("boom"))
        return False

    class Sim(mosaik_api_v3.Simulator):
        def __init__(self):
            super().__init__(_meta(spec["type"]))
            self.st = {"val": 0, "time": -1, "count": 0}

        def init(self, sid, time_resolution=1.0, **kw):
            self.sid = sid
            return self.meta

        def create(self, num, model, **kw):
            return [{"eid": f"e{i}", "type": model} for i in range(num)]

        def setup_done(self):
            maybe_fail("setup_done")

        def step(self, time, inputs, max_advance):
            yield asyncio.sleep(0)          # steps of different simulators overlap
            bad = maybe_fail("step")
            self.st, nxt = behave(spec, self.st, time, inputs)
            if bad:
                return BAD_REPLIES[fault["kind"]](time)
            return nxt

        def get_data(self, outputs):
            bad = maybe_fail("get_data")
            if bad:
                return {"time": self.st["time"] - 1}      # an output time before the step time
            out = {}
            for eid, attrs in outputs.items():
                d, _ = produce(spec, self.st, attrs)
                if d:
                    out[eid] = d
            if spec["type"] != "time-based":
                out["time"] = self.st["time"] + spec.get("out_shift", 0)
            return out

        def finalize(self):
            log.append(("finalize", role))
    return Sim


def run_with_fault(name, fault, watchdog=5, debug=False, cache=True):
    import sys
    import types
    import mosaik
    from contracts.determinism_native import SCENARIOS, UNTIL
    sims, conns, groups = SCENARIOS[name][:3]
    log = []
    mod = types.ModuleType("_c14_sims")
    cfg = {}
    for r, spec in sims.items():
        setattr(mod, r, _make_class(spec, fault, log, r))
        cfg[r] = {"python": f"_c14_sims:{r}"}
    sys.modules["_c14_sims"] = mod
    world = mosaik.World(cfg, skip_greetings=True, debug=debug, cache=cache)
    message = ""

    def on_alarm(*a):
        raise _Hang()
    old = signal.signal(signal.SIGALRM, on_alarm)
    outcome = None
    try:
        ents = {}
        grouped = {r for g in groups for r in g}
        for r in sims:
            if r not in grouped:
                ents[r] = world.start(r).M()
        for g in groups:
            with world.group():
                for r in g:
                    ents[r] = world.start(r).M()
        for s, d, sa, da, kw in conns:
            world.connect(ents[s], ents[d], (sa, da), **kw)
        signal.alarm(watchdog)
        try:
            world.run(until=UNTIL, print_progress=False)
            outcome = "returned normally"
        except _Hang:
            outcome = "hang"
        except BaseException as e:  # noqa: BLE001
            outcome = f"error {type(e).__name__}"
            message = str(e)
        finally:
            signal.alarm(0)
    finally:
        signal.signal(signal.SIGALRM, old)
    pending = [t.get_name() for t in asyncio.all_tasks(world.loop) if not t.done()] if outcome != "hang" else ["?"]
    closed = world.loop.is_closed()
    if not closed:
        try:
            for t in asyncio.all_tasks(world.loop):
                t.cancel()
            world.loop.close()
        except Exception:  # noqa: BLE001
            pass
    return {"outcome": outcome, "log": log, "loop_closed": closed, "pending": pending, "message": message}


def run_remote(name, remote_role, fault, watchdog=8):
    """the scenario with `remote_role` as a separate process (cmd); fault = None or {'method', 'index'}: the process exits there"""
    import os
    import shlex
    import sys
    import tempfile
    import time
    import types
    import mosaik
    from contracts.determinism_native import SCENARIOS, UNTIL
    sims, conns, groups = SCENARIOS[name][:3]
    log = []
    none = {"role": None, "method": None, "index": None, "kind": None}
    mod = types.ModuleType("_c14_sims")
    cfg = {}
    tmp = tempfile.mkdtemp(prefix="pyvc_remote_")
    trace = os.path.join(tmp, "trace.jsonl")
    script = os.path.join(os.path.dirname(os.path.dirname(os.path.abspath(__file__))), "native", "remote_sim.py")
    for r, spec in sims.items():
        if r == remote_role:
            cfg[r] = {"cmd": "%(python)s " + " ".join(shlex.quote(x) for x in (script, json.dumps(spec), trace, json.dumps(fault) if fault else "-")) + " %(addr)s"}
        else:
            setattr(mod, r, _make_class(spec, none, log, r))
            cfg[r] = {"python": f"_c14_sims:{r}"}
    sys.modules["_c14_sims"] = mod
    before = set(_children())
    import socket
    with socket.socket() as sk:          # a free port of the loopback interface (several checks may run at once)
        sk.bind(("127.0.0.1", 0))
        port = sk.getsockname()[1]
    world = mosaik.World(cfg, skip_greetings=True, mosaik_config={"addr": ("127.0.0.1", port)})

    def on_alarm(*a):
        raise _Hang()
    old = signal.signal(signal.SIGALRM, on_alarm)
    outcome = None
    try:
        ents = {r: world.start(r).M() for r in sims}
        for s_, d, sa, da, kw in conns:
            world.connect(ents[s_], ents[d], (sa, da), **kw)
        signal.alarm(watchdog)
        try:
            world.run(until=UNTIL, print_progress=False)
            outcome = "returned normally"
        except _Hang:
            outcome = "hang"
        except BaseException as e:  # noqa: BLE001
            outcome = f"error {type(e).__name__}"
        finally:
            signal.alarm(0)
    finally:
        signal.signal(signal.SIGALRM, old)
    pending = [t.get_name() for t in asyncio.all_tasks(world.loop) if not t.done()] if outcome != "hang" else ["?"]
    closed = world.loop.is_closed()
    if not closed:
        try:
            for t in asyncio.all_tasks(world.loop):
                t.cancel()
            world.loop.close()
        except Exception:  # noqa: BLE001
            pass
    # the simulator process must be gone shortly after run() has come back
    left = []
    for _ in range(30):
        left = [c for c in _children() if c not in before and _alive(c)]
        if not left:
            break
        time.sleep(0.1)
    for c in left:
        try:
            os.kill(c, 9)
        except OSError:
            pass
    rtrace = [json.loads(ln) for ln in open(trace)] if os.path.exists(trace) else []
    import shutil
    shutil.rmtree(tmp, ignore_errors=True)
    return {"outcome": outcome, "log": log, "loop_closed": closed, "pending": pending, "processes_left": len(left), "remote_trace": rtrace}


def _children():
    import os
    me = os.getpid()
    out = []
    for d in os.listdir("/proc"):
        if d.isdigit():
            try:
                with open(f"/proc/{d}/stat") as fh:
                    parts = fh.read().rsplit(")", 1)[1].split()
                if int(parts[1]) == me:
                    out.append(int(d))
            except (OSError, IndexError, ValueError):
                pass
    return out


def _alive(pid):
    try:
        with open(f"/proc/{pid}/stat") as fh:
            return fh.read().rsplit(")", 1)[1].split()[0] != "Z"
    except OSError:
        return False


def remote_cases(failures, samples):
    """thorough tier: one simulator of the scenario runs as a separate process.  (a) no fault: the remote simulator observes the
    same (time, inputs) sequence as in-process (C04, transport) and its process is gone afterwards; (b) the process exits at a
    request: run() ends with an error, the other simulators are finalized once, nothing is left behind"""
    from contracts.determinism_native import SCENARIOS, BASE, run_once
    cases = 0
    for name, role in (("chain_1_1", "B"), ("chain_1_1", "A"), ("events", "E")):
        sims = SCENARIOS[name][0]
        base = run_once(name, BASE, list(sims), {})
        cases += 1
        r = run_remote(name, role, None)
        steps = [(e[1], e[2]) for e in r["remote_trace"] if e[0] == "step"]
        fin_r = sum(1 for e in r["remote_trace"] if e[0] == "finalize")
        problems = []
        if r["outcome"] != "returned normally":
            problems.append(f"run() {r['outcome']}")
        elif isinstance(base, dict) and steps != base[role]:
            problems.append(f"the remote simulator observed {steps[:3]}... instead of {base[role][:3]}... (in-process)")
        if fin_r != 1:
            problems.append(f"the remote simulator received stop/finalize {fin_r} times")
        if r["processes_left"] or r["pending"] or not r["loop_closed"]:
            problems.append(f"left behind: {r['processes_left']} processes, pending tasks {r['pending'][:3]}, loop closed: {r['loop_closed']}")
        if problems:
            failures.append({"desc": f"{name} with {role} as a separate process, no fault: " + "; ".join(problems), "case": {"scenario": name, "remote": role}})
        for method, k in (("setup_done", 0), ("step", 0), ("step", 2), ("get_data", 1)):
            cases += 1
            fault = {"method": method, "index": k}
            r = run_remote(name, role, fault)
            if not any(e[0] == "fault" for e in r["remote_trace"]):
                continue
            fin = [e[1] for e in r["log"] if e[0] == "finalize"]
            problems = []
            if not r["outcome"].startswith("error"):
                problems.append(f"run() {r['outcome']} instead of ending with an error")
            for other in sims:
                if other != role and fin.count(other) != 1:
                    problems.append(f"simulator {other} received finalize {fin.count(other)} times")
            if r["processes_left"] or r["pending"] or not r["loop_closed"]:
                problems.append(f"left behind: {r['processes_left']} processes, pending tasks {r['pending'][:3]}, loop closed: {r['loop_closed']}")
            if len(samples) < 5:
                samples.append({"scenario": name, "remote": role, "process_exits_at": fault, "outcome": r["outcome"]})
            if problems:
                failures.append({"desc": f"{name} with {role} as a separate process exiting at {fault}: " + "; ".join(problems),
                                 "case": {"scenario": name, "remote": role, **fault}})
    return cases


def bounded_fault_containment(tier, seed):
    import warnings
    from contracts.determinism_native import SCENARIOS
    warnings.simplefilter("ignore")
    try:
        from loguru import logger
        logger.remove()
    except Exception:  # noqa: BLE001
        pass
    names = ["chain_1_1", "diamond", "events", "shifted_loop", "async_agent", "weak_group"] if tier == "thorough" else \
        ["chain_1_1", "diamond", "events", "async_agent"]
    idxs = (0, 1, 2, 4) if tier == "thorough" else (0, 1, 2)
    failures, cases, nontrivial = [], 0, 0
    samples = []
    for name in names:
        sims = SCENARIOS[name][0]
        for role in sims:
            for method in ("setup_done", "step", "get_data"):
                for k in idxs:
                    if method == "setup_done" and k > 0:
                        continue
                    for kind in ("exception", "connection"):
                        fault = {"role": role, "method": method, "index": k, "kind": kind}
                        cases += 1
                        r = run_with_fault(name, fault)
                        fired = any(e[0] == "fault" for e in r["log"])
                        if not fired:
                            # the run has fewer requests of that kind than the index: nothing was injected
                            if r["outcome"] != "returned normally":
                                failures.append({"desc": f"{name}, no fault injected ({fault}): run() ended with {r['outcome']}", "case": {"scenario": name, **fault}})
                            continue
                        nontrivial += 1
                        if len(samples) < 3:
                            samples.append({"scenario": name, "fault": fault, "outcome": r["outcome"], "finalize": [e[1] for e in r["log"] if e[0] == "finalize"]})
                        fin = [e[1] for e in r["log"] if e[0] == "finalize"]
                        problems = []
                        if not r["outcome"].startswith("error"):
                            problems.append(f"run() {r['outcome']} instead of ending with an error")
                        for other in sims:
                            n = fin.count(other)
                            if other != role and n != 1:
                                problems.append(f"simulator {other} received finalize {n} times")
                            if other == role and n > 1:
                                problems.append(f"the failing simulator received finalize {n} times")
                        if not r["loop_closed"]:
                            problems.append("the event loop was left open")
                        if r["pending"]:
                            problems.append(f"tasks left pending on the loop: {r['pending'][:3]}")
                        if problems:
                            failures.append({"desc": f"{name}, fault {fault}: " + "; ".join(problems), "case": {"scenario": name, **fault}})
                            if len(failures) >= 5:
                                return _result(names, idxs, cases, nontrivial, failures, samples)
    remote = 0
    if tier == "thorough":
        remote = remote_cases(failures, samples)
        cases += remote
        nontrivial += remote
    return _result(names, idxs, cases, nontrivial, failures, samples, remote)


def _result(names, idxs, cases, nontrivial, failures, samples, remote=0):
    return {"bound": f"scenarios {names} (in-process simulators, overlapping steps) x every simulator x (setup_done | step #k | get_data #k, k in {list(idxs)}) "
                     "x (the simulator raises | its connection is reset); one fault per run; watchdog 5 s; "
                     + (f"plus {remote} runs with one simulator as a separate process (no fault: same observations as in-process, process gone "
                        "afterwards; process exit at setup_done / step / get_data)" if remote else "remote simulators only in the thorough tier"),
            "cases": cases, "nontrivial": nontrivial, "failures": failures, "samples": samples}


def bounded_transport(tier, seed):
    """C04, transport clause: a simulator run as a separate process (JSON over a socket) observes the same (time, inputs)
    sequence as in-process, and so do the in-process simulators it is connected to"""
    import warnings
    from contracts.determinism_native import SCENARIOS, BASE, run_once
    warnings.simplefilter("ignore")
    try:
        from loguru import logger
        logger.remove()
    except Exception:  # noqa: BLE001
        pass
    combos = [("chain_1_1", "B")] if tier != "thorough" else [("chain_1_1", "B"), ("chain_1_1", "A"), ("events", "E"), ("diamond", "B"),
                                                               ("shifted_loop", "A"), ("explicit_output_time", "A")]
    failures, cases = [], 0
    for name, role in combos:
        sims = SCENARIOS[name][0]
        base = run_once(name, BASE, list(sims), {})
        cases += 1
        r = run_remote(name, role, None)
        steps = [(e[1], e[2]) for e in r["remote_trace"] if e[0] == "step"]
        if r["outcome"] != "returned normally":
            failures.append({"desc": f"{name} with {role} as a separate process: run() {r['outcome']}", "case": {"scenario": name, "remote": role}})
        elif isinstance(base, dict) and steps != base[role]:
            i = next((i for i, (a, b) in enumerate(zip(steps, base[role])) if a != b), min(len(steps), len(base[role])))
            failures.append({"desc": f"{name}: {role} as a separate process observes {steps[i] if i < len(steps) else 'no further step'} where the "
                                     f"in-process run gives {base[role][i] if i < len(base[role]) else 'no further step'} (item {i})",
                             "case": {"scenario": name, "remote": role}})
    return {"bound": f"{combos}: (scenario, the simulator run as a separate process through 'cmd'); baseline configuration", "cases": cases,
            "nontrivial": cases, "failures": failures}


def _run_odd_type(typ):
    import sys
    import types
    import mosaik
    import mosaik_api_v3
    from mosaik.exceptions import ScenarioError
    meta = {"api_version": "3.0", "type": typ, "models": {"M": {"public": True, "params": [], "attrs": ["x"]}}}

    class Sim(mosaik_api_v3.Simulator):
        def __init__(self):
            super().__init__(meta)

        def init(self, sid, time_resolution=1.0, **kw):
            return self.meta

        def create(self, num, model, **kw):
            return [{"eid": f"e{i}", "type": model} for i in range(num)]

        def step(self, time, inputs, max_advance):
            return None

        def get_data(self, outputs):
            return {}
    mod = types.ModuleType("_c13_sims")
    mod.Sim = Sim
    sys.modules["_c13_sims"] = mod
    w = mosaik.World({"D": {"python": "_c13_sims:Sim"}}, skip_greetings=True)
    try:
        try:
            w.start("D").M()
        except ScenarioError:
            return "rejected at start"
        try:
            w.run(until=3, print_progress=False)
            return "run() finished normally"
        except BaseException as e:  # noqa: BLE001
            return f"error {type(e).__name__}"
    finally:
        if not w.loop.is_closed():
            try:
                w.shutdown()
            except BaseException:  # noqa: BLE001
                pass


def bounded_reply_validation(tier, seed):
    """C13 end to end: one API-violating reply per run (a next step that is not later / not an int, an output time before the step
    time) at the k-th step / get_data of every simulator, with debug mode off and on: run() must end with a SimulationError that
    names the simulator -- never finish normally, never step into the past."""
    import warnings
    from contracts.determinism_native import SCENARIOS
    warnings.simplefilter("ignore")
    try:
        from loguru import logger
        logger.remove()
    except Exception:  # noqa: BLE001
        pass
    names = ["chain_1_1", "events", "events_and_data"] if tier == "thorough" else ["chain_1_1", "events"]
    failures, cases, nontrivial = [], 0, 0
    for name in names:
        sims = SCENARIOS[name][0]
        for role, spec in sims.items():
            for k in (0, 1):
                kinds = ["same_time", "earlier", "float", "string"] if spec["type"] != "event-based" else ["same_time", "earlier", "string"]
                if spec["type"] != "time-based":
                    kinds.append("bad_output_time")
                for kind in kinds:
                    for debug, cache in ((False, True), (True, True), (False, False)):
                        method = "get_data" if kind == "bad_output_time" else "step"
                        fault = {"role": role, "method": method, "index": k, "kind": kind}
                        cases += 1
                        r = run_with_fault(name, fault, debug=debug, cache=cache)
                        if not any(e[0] == "fault" for e in r["log"]):
                            continue
                        nontrivial += 1
                        ok = r["outcome"] == "error SimulationError" and f"{role}-0" in r["message"]
                        if not ok:
                            failures.append({"desc": f"{name}, debug={debug}, cache={cache}: {role} answers its {method} #{k} with an API violation ({kind}): run() "
                                                     f"{r['outcome']} {('(' + r['message'][:80] + ')') if r['message'] else ''} instead of a "
                                                     f"SimulationError naming {role}-0", "case": {"scenario": name, "debug": debug, "cache": cache, **fault}})
                            if len(failures) >= 5:
                                break
    # a simulator that announces its type with another capitalisation and, treated as time-based, violates the API (no next step):
    # it must be turned away at start or stopped by the reply validation -- whoever reads the type must read it the same way
    for typ in ("Time-based", "TIME-BASED", "time-based"):
        cases += 1
        nontrivial += 1
        r = _run_odd_type(typ)
        if r not in ("rejected at start", "error SimulationError"):
            failures.append({"desc": f"a simulator announcing type {typ!r} whose step() returns no next step: {r}", "case": {"type": typ}})
    return {"bound": f"scenarios {names} x every simulator x step / get_data #0, #1 x (next step same / earlier / float / string; output time before "
                     "the step time) x (debug off / on with the cache, cache off); plus the type announced as Time-based / TIME-BASED / time-based with a missing next step", "cases": cases, "nontrivial": nontrivial, "failures": failures[:5]}
