"""Sidecar contract for World.group (mosaik/scenario.py) -- the context manager behind `with world.group():` (C11: distinct groups,
including sibling groups, are distinct; sub-time is shared only inside the common enclosing group; C06 / C09 read the group tree).

  * while the block runs (at the `yield`), world.current_group is a NEWLY created SimGroup -- a different object from every group that
    existed before (SimGroup compares by identity: @dataclass(eq=False), contract contracts.groups) -- whose parent is the group
    that was current at entry;
  * when the block ends normally, world.current_group is again the group that was current at entry -- whatever the block did to it
    in between (nested / consecutive groups): the restored value is the one saved at entry, not derived from the current one.

The block itself is external: at the yield world.current_group is recorded and then set to an arbitrary value.  An exception
raised inside the block is not modelled (the generator has no try/finally: the group would stay current -- not part of C11).
"""
from pyvc.contract import Contract
from pyvc.spec import And, Or, Not, Implies, Iff
try:
    import z3
    from pyvc.values import SymObj, Builtin, Unsupported, Opaque
    from pyvc import extract
except Exception:  # pragma: no cover
    z3 = None


class GroupModel:
    def __init__(self, sess):
        self.s = sess
        sess.models.insert(0, self)
        sess.gm = self

    def yield_value(self, it, e, env):
        w = self.world
        it.p.ghost["at_yield"] = it.p.ghost.get("at_yield", []) + [w.fields.get("current_group")]
        # the with-block runs: it may open and close further groups, start simulators, ...
        w.fields["current_group"] = Opaque("whatever the block left in world.current_group")
        return None


def configure(sess):
    GroupModel(sess)
    extract.load_module("mosaik.scenario")


class WorldGroup(Contract):
    target = "mosaik.scenario.World.group"
    property_ids = ["C11", "C06", "C09"]
    configure = "configure"

    def make_args(self, mk):
        self._outer_parent = Opaque("parent of the entry group")
        self._entry = mk.obj("mosaik.scenario.SimGroup", parent=self._outer_parent)
        self._other = mk.obj("mosaik.scenario.SimGroup", parent=self._outer_parent)      # some other existing group (a sibling)
        self._world = SymObj(mk.s.class_by_name("mosaik.scenario.World"), {"current_group": self._entry, "main_group": Opaque("main")}, frozen=False)
        mk.s.gm.world = self._world
        return {"self": self._world}

    def setup(self, p, A, mk):
        self._p = p

    def requires(self, A):
        return True

    def split_post(self, A, result):
        ys = self._p.ghost.get("at_yield", [])
        out = {"exactly_one_yield": len(ys) == 1}
        if len(ys) == 1:
            g = ys[0]
            out["inside_the_block_a_new_group_is_current"] = (isinstance(g, SymObj) and g.cls.name == "SimGroup" and g is not self._entry
                                                              and g is not self._other)
            out["its_parent_is_the_group_current_at_entry"] = isinstance(g, SymObj) and g.fields.get("parent") is self._entry
        out["entry_group_restored_at_the_end"] = self._world.fields.get("current_group") is self._entry
        out["main_group_untouched"] = isinstance(self._world.fields.get("main_group"), Opaque) and set(self._world.fields) == {"current_group", "main_group"}
        return out

    def native_search(self, budget):
        for shape in ("single", "nested", "siblings", "nested_siblings"):
            yield {"shape": shape}

    def native_call(self, m):
        if "shape" not in m:
            return True, "symbolic counter-models are not replayed (the native search is)"
        import mosaik
        w = mosaik.World({}, skip_greetings=True)
        try:
            root = w.current_group
            seen = []
            if m["shape"] == "single":
                with w.group():
                    seen.append(w.current_group)
                exp = [root]
            elif m["shape"] == "nested":
                with w.group():
                    seen.append(w.current_group)
                    with w.group():
                        seen.append(w.current_group)
                    seen.append(w.current_group)
                if seen[2] is not seen[0]:
                    return False, "after a nested group the outer group is not current again"
                seen = seen[:2]
                exp = [root, seen[0]]
            elif m["shape"] == "siblings":
                with w.group():
                    seen.append(w.current_group)
                with w.group():
                    seen.append(w.current_group)
                exp = [root, root]
            else:
                with w.group():
                    outer = w.current_group
                    with w.group():
                        seen.append(w.current_group)
                    with w.group():
                        seen.append(w.current_group)
                exp = [outer, outer]
            ok = (w.current_group is root and [g.parent for g in seen] == exp and len({id(g) for g in seen}) == len(seen)
                  and all(a != b for i, a in enumerate(seen) for b in seen[i + 1:]) and all(g is not root and g != root for g in seen))
            return ok, f"with world.group() [{m['shape']}]: parents {[g.parent for g in seen]}, distinct: {len({id(g) for g in seen}) == len(seen)}, restored: {w.current_group is root}"
        finally:
            w.loop.close()


CONTRACTS = [WorldGroup()]
