"""L2: sim_process and the coroutines it awaits (next_step_settled, wait_for_dependencies,
step, get_outputs) as one thread of a cooperative program -- DESIGN section 6.

Every primitive `await` (asyncio.wait / gather, the external step / get_data call) is a
cut point: the global invariant Inv and the guarantee G are obligations there, then all
shared state is havocked subject to Inv and the rely R, then the awaited primitive's
postcondition is assumed.  Each coroutine has its own L2 contract (requires at the call,
ensures at the return, cut rules inside) and is verified separately; its callers see only
that contract.  The property statements of C01, C02, C05, C10, C16 are ghost assertions
at BEGIN (the point where the step's inputs are read) and postconditions at termination.

`SimProcessWhole` (thorough tier) re-verifies sim_process with all four coroutines inlined
instead of abstracted by their contracts: a non-modular cross-check of the same obligations.
"""
from pyvc.contract import Contract
from pyvc.spec import And, Or, Not, Implies, Iff
try:
    import z3
    from pyvc.models import sched as MS
    from pyvc.values import Opaque
except Exception:  # pragma: no cover
    z3 = MS = None
from contracts import scheduler as SC
from contracts.scheduler import H, Inv, INV_PARTS, static_ok, trig_static, not_rt, pending

OWNED = ["CSd", "CSv", "LS", "OT", "DATA", "in_step", "BGd", "BGv", "NSSd", "NSSv", "started", "rt_start"]


def G(M, me, hs, h):
    """guarantee of one atomic region of simulator `me` (= what the others rely on)"""
    a = M.alg
    return {
        "progress_monotone": a.forall_sims(lambda s: a.le(hs["P"][s], h["P"][s])),
        "others_next_steps_only_grow": a.forall_sims(lambda s: Implies(s != me, a.forall_times(
            lambda x: h["NS"][s][x] >= hs["NS"][s][x]))),
        "others_own_fields_untouched": a.forall_sims(lambda s: Implies(s != me, And(
            *[h[k][s] == hs[k][s] for k in OWNED]))),
    }


def R(M, me, h, h2, owned=OWNED):
    """rely of simulator `me` across a suspension"""
    a = M.alg
    return And(
        Inv(M, h2),
        a.forall_sims(lambda s: a.le(h["P"][s], h2["P"][s])),
        a.forall_times(lambda x: h2["NS"][me][x] >= h["NS"][me][x]),
        *[h2[k][me] == h[k][me] for k in owned],
    )


def sub_tier_at_bound(M, t):
    """some tier i >= 1 of t is >= max_loop_iterations (number of weak hops in this time step)"""
    a = M.alg
    if a.two:
        return a.tier(t, 1) >= M.max_loop
    if a.small:
        return False
    # (index shifted by one, like `tiers[1:]`, so that the solver matches the guard's own quantifier)
    j = z3.Int(f"j!{next(MS._q)}")
    return z3.Exists([j], And(0 <= j, j < a.tlen(t) - 1, a.tier(t, j + 1) >= M.max_loop))


def begin_assertions(M, hd, me, lazy):
    """the property statements at BEGIN(me, t), t = the step just popped"""
    a, h = M.alg, H(hd)
    t = h.CSv[me]
    out = {
        "in_step": h.CSd[me],
        # C01 (a): every unfinished step of every simulator feeding me is due strictly after t
        "C01_inputs_ready": a.forall_sims(lambda p: Implies(M.IDd(me, p), a.forall_times(
            lambda x: Implies(pending(M, h, p, x), a.lt(t, a.plus(x, M.IDv(me, p))))))),
        # C01 (b): no consumer of mine has begun a step that my output for t could still be due for
        "C01_no_late_producer": a.forall_sims(lambda c: Implies(And(M.IDd(c, me), h.BGd[c], c != me),
                                                                a.lt(h.BGv[c], a.plus(t, M.IDv(c, me))))),
        # C02 (d): never before 0 and never at or after until
        "C02_in_range": And(0 <= a.time(t), a.time(t) < M.until),
        # C10: with lazy stepping no direct consumer has an earlier step outstanding
        "C10_lazy": Implies(lazy, a.forall_sims(lambda c: Implies(M.SUd(me, c), a.forall_times(
            lambda x: Implies(pending(M, h, c, x), a.le(a.plus(t, M.SUv(me, c)), x)))))),
        # C16: a simulator whose async requests I must wait for is not in a step earlier than mine
        "C16_async_partner": a.forall_sims(lambda b: Implies(And(M.SWd(me, b), h.CSd[b]),
                                                             a.le(a.plus(t, M.SWv(me, b)), h.CSv[b]))),
        # C09: a step begins only while every sub-step tier is below the bound
        "C09_below_bound": Not(sub_tier_at_bound(M, t)),
    }
    out.update({"inv_" + k: f(M, h) for k, f in INV_PARTS.items()})
    return out


TOP = [None]


# ------------------------------------------------------------------ stubs for callees without scheduler effect
class _Stub(Contract):
    """a callee of sim_process that does not touch scheduler state (its own contract is
    proved elsewhere or it is listed as assumed)"""
    property_ids = []
    result_kind = "opaque"

    def call_requires(self, it, A):
        return {}

    def call_effect(self, it, A, node):
        if self.result_kind == "int":
            return it.p.fresh("stub", "int")
        if self.result_kind == "none":
            return None
        return Opaque(self.target.split(".")[-1] + " result")


class GetInputDataAtBegin(_Stub):
    """BEGIN anchor: the step's inputs are read here; the property statements are the
    precondition of reading them"""
    target = "mosaik.scheduler.get_input_data"

    def call_requires(self, it, A):
        return begin_assertions(it.s.sched, it.p.ghost["heap"], A.sim, TOP[0]._lazy)

    def call_effect(self, it, A, node):
        it.p.ghost["began"] = it.p.ghost.get("began", 0) + 1
        return Opaque("input data")


class GetProgressStub(_Stub):
    target = "mosaik.scheduler.get_progress"


class GetAvgProgressStub(_Stub):
    target = "mosaik.scheduler.get_avg_progress"
    result_kind = "int"


class PruneStub(_Stub):
    target = "mosaik.scheduler.prune_dataflow_cache"
    result_kind = "none"


class RtCheckAfterStep(_Stub):
    """rt_check(rt_factor, rt_start, rt_strict, sim) -- its own contract is RtCheck (C17).  At the call in sim_process the
    step it judges must be the one just performed: sim.last_step == the step in flight (C17: 'a run whose simulators answer
    instantly is never reported as too slow' -- judged against the previous step every step would look late)."""
    target = "mosaik.scheduler.rt_check"
    result_kind = "none"

    def call_requires(self, it, A):
        h = it.p.ghost["heap"]
        sim = A.sim
        # (begun[sim] is the ghost "last step this simulator began": it outlives current_step, so the clause does not depend on
        #  where exactly between the step and the next loop iteration the check is made)
        return {"C17_judges_the_step_just_performed": And(h["BGd"][sim], h["LS"][sim] == h["BGv"][sim])}


class GetMaxAdvanceStub(_Stub):
    """pure (frame proved in contracts.scheduler.GetMaxAdvance); value irrelevant for C01-C05"""
    target = "mosaik.scheduler.get_max_advance"
    result_kind = "int"


class _Loops(Contract):
    property_ids = []


class GetOutputsLoops(_Loops):
    target = "mosaik.scheduler.get_outputs"
    loops = {0: lambda c, index, v, A: True, 1: lambda c, index, v, A: True}
    loop_modifies = {0: [], 1: []}


# ------------------------------------------------------------------ L2 base
class _L2(SC._Sched):
    """a coroutine of the scheduler: requires at the call, ensures at the return, cut rules inside"""
    property_ids = ["C01", "C02", "C03", "C05", "C09", "C10", "C13", "C16"]
    configure = "configure"
    configure_small = "configure_small"
    changes_owned = []     # owned fields this coroutine may change
    sim_param = "sim"

    def setup(self, p, A, mk):
        super().setup(p, A, mk)
        TOP[0] = self
        self._me = A[self.sim_param]
        self._A = A
        if not hasattr(self, "_lazy"):
            self._lazy = z3.Bool("lazy_stepping")
        p.ghost["region_start"] = dict(self._h0)

    def model_values(self, m, ob=None):
        """small scope: the state at the call and the state at the end of the failing path"""
        M = self._M
        d = M.dump_model(m, self._h0)
        if ob is not None and ob.ghost is not None and "heap" in ob.ghost:
            d["after"] = M.dump_model(m, ob.ghost["heap"])
        from pyvc.discharge import model_value
        d["lazy_stepping"] = model_value(m, self._lazy) if hasattr(self, "_lazy") else None
        d["sim"] = str(model_value(m, self._me))
        return d

    # -- to be provided
    def pre(self, M, hd, A):
        return {}

    def post(self, M, hc, h, A, result):
        return {}

    # -- verification of the coroutine itself
    def requires(self, A):
        M = self._M
        return And(static_ok(M), trig_static(M), not_rt(M), Inv(M, self._h0), *self.pre(M, self._h0, A).values())

    def common_post(self, M, me, hc, h):
        a = M.alg
        out = {k: f(M, H(h)) for k, f in INV_PARTS.items()}
        out["progress_monotone_since_call"] = a.forall_sims(lambda s: a.le(hc["P"][s], h["P"][s]))
        keep = [k for k in OWNED if k not in self.changes_owned]
        out["owned_unchanged"] = And(*[h[k][me] == hc[k][me] for k in keep])
        return out

    def split_post(self, A, result):
        M, h = self._M, self.cur()
        out = self.common_post(M, self._me, self._h0, h)
        out.update({"G_" + k: v for k, v in G(M, self._me, self._p.ghost["region_start"], h).items()})
        out.update(self.post(M, self._h0, h, A, result))
        return out

    def ensures(self, A, result):
        return And(*self.split_post(A, result).values())

    def at_cut(self, it, h):
        M = self._M
        out = {k: f(M, H(h)) for k, f in INV_PARTS.items()}
        out.update({"G_" + k: v for k, v in G(M, self._me, it.p.ghost["region_start"], h).items()})
        return out

    def rely(self, it, old, new):
        return R(self._M, self._me, old, new)

    def loop_inv(self):
        M, h = self._M, self.cur()
        out = {k: f(M, H(h)) for k, f in INV_PARTS.items()}
        out.update({"G_" + k: v for k, v in G(M, self._me, self._p.ghost["region_start"], h).items()})
        out.update(self.loop_local(M, h))
        return out

    def loop_local(self, M, h):
        return {"no_step_in_flight": And(Not(h["CSd"][self._me]), Not(h["in_step"][self._me]))}

    propagates_connection_error = True

    def site_condition(self, site, e):
        """the exact condition under which the SimulationError of this site is raised (C13, C09);
        None = not specified by this contract (then the site is merely allowed)"""
        return None

    @staticmethod
    def names_simulator(e):
        """the error message mentions the simulator id"""
        for a_ in e.args_:
            for mnt in getattr(a_, "mentions", ()):
                if ".sid" in mnt:
                    return True
        return False

    def raise_allowed(self, A, e):
        site = (e.site or "").split("[")[0]
        if e.cls == "SimulationError" and site in ALLOWED_SITES:
            if e.implicit == "contract":
                return True       # raised by a callee under ITS contract (checked there)
            c = self.site_condition(site, e)
            if c is None:
                return True
            return And(c, self.names_simulator(e))
        if e.cls == "ConnectionError" and self.propagates_connection_error and e.implicit in ("external call", "contract"):
            return True   # the simulator closed its connection: passed on to sim_process (which maps it, C14)
        return None   # every other exception site must be unreachable

    # -- modular use: the caller sees only this contract
    result_kind = "none"

    def call_requires(self, it, A):
        M = it.s.sched
        top = TOP[0]
        h = it.p.ghost["heap"]
        out = {"inv_" + k: f(M, H(h)) for k, f in INV_PARTS.items()}
        # a cut may occur inside the callee: the caller's region so far must satisfy its guarantee
        out.update({"G_" + k: v for k, v in G(M, top._me, it.p.ghost["region_start"], h).items()})
        out.update(self.pre(M, h, A))
        return out

    def call_effect(self, it, A, node):
        M = it.s.sched
        p = it.p
        top = TOP[0]
        hc = dict(p.ghost["heap"])
        M.havoc_heap(p, None, "ret")
        h = p.ghost["heap"]
        if self.result_kind == "bool":
            result = p.fresh("result", "bool")
            result = it.decide(result)
        else:
            result = None
        me = A[self.sim_param]
        clauses = self.common_post(M, me, hc, h)
        clauses.update(self.post(M, hc, h, A, result))
        p.assume(And(*clauses.values()))
        # the callee may raise what its own contract allows
        for cls, site in self.may_raise:
            if it.decide(p.fresh("raises_" + site.replace(":", "_").replace("#", ""), "bool")):
                from pyvc.interp import PyRaise
                e = PyRaise(cls, (), node, implicit="contract")
                e.site, e.where = site, it.where(node)
                raise e
        p.ghost["region_start"] = dict(h)
        return result

    may_raise = []


ALLOWED_SITES = {
    # C13: reply validation in step() / get_outputs(); C09: the same-time loop guard; C14: lost connection
    "step:raise#0": "C13 next step time not an int",
    "step:raise#1": "C13 next step time not later than the current step",
    "step:raise#2": "C13 time-based simulator returned no next step",
    "get_outputs:raise#0": "C13 output time earlier than the step",
    "sim_process:raise#1": "C09 same-time loop guard",
    "sim_process:raise#2": "C14 connection closed by the simulator",
}


# ------------------------------------------------------------------ the four coroutines
class NextStepSettled(_L2):
    """next_step_settled(sim, world): True only when the earliest scheduled step has met the
    progress (it is then final) and lies before `until`; False only when progress has
    reached `until`"""
    target = "mosaik.scheduler.next_step_settled"
    result_kind = "bool"

    def make_args(self, mk):
        M = mk.s.sched
        return {"sim": mk.const("me", M.alg.Sim), "world": M.world}

    def pre(self, M, hd, A):
        return {"no_step_in_flight": And(Not(hd["CSd"][A.sim]), Not(hd["in_step"][A.sim]))}

    def post(self, M, hc, h, A, result):
        a, me = M.alg, A.sim
        ns = h["NS"][me]
        settled = And(M.ns_nonempty(ns), M.minT(ns) == h["P"][me], a.time(h["P"][me]) < M.until)
        return {
            "next_steps_only_grow": a.forall_times(lambda x: h["NS"][me][x] >= hc["NS"][me][x]),
            "settled_iff_true": Implies(result, settled) if not isinstance(result, bool) else (settled if result else True),
            "end_reached_iff_false": (Implies(Not(result), a.time(h["P"][me]) >= M.until) if not isinstance(result, bool)
                                      else (True if result else a.time(h["P"][me]) >= M.until)),
        }

    def native_search(self, budget):
        for t in (3, 5, 10):
            for consumer in ("event-based", "hybrid"):
                yield {"native_case": {"initial_event_at": t, "until": 5, "consumer": consumer}}
        for nxt in ([5, 1], [5, 0], [4, 2], [7, 0]):
            yield {"native_case": {"queued_tiered_step": nxt, "until": 5}}

    def native_call(self, m):
        case = m.get("native_case")
        if case and "queued_tiered_step" in case:
            from contracts.scheduler_native import replay_settled_at_end
            return replay_settled_at_end(case)
        if not case or "initial_event_at" not in case:
            return True, "symbolic counter-models of next_step_settled are not replayed (the native search is)"
        from contracts.scheduler_native import replay_event_beyond_until
        return replay_event_beyond_until(case)

    def wait_obligations(self, it, coro, h):
        """C05 (no wait on a condition that cannot become true): progress never exceeds `until` (advance_progress caps it),
        so waiting for the own progress to reach a time beyond `until` -- with nothing else to wake the task but a newer
        step -- would never end.  Outside real-time mode (no timeout)."""
        M = self._M
        a = M.alg
        out = {}
        if coro.kind != "wait":
            return out
        tasks = coro.kw["tasks"]
        tasks = list(tasks) if isinstance(tasks, (list, tuple)) else [tasks.get(i) for i in range(tasks.length)] \
            if isinstance(getattr(tasks, "length", None), int) else []
        for i, c in enumerate(tasks):
            if getattr(c, "kind", None) == "has_reached" and c.kw.get("shift") is None:
                # (I4: progress <= U = TieredTime(until) + from_world_time, in the tiered order: until:1 is already beyond it)
                out[f"C05_awaited_progress_is_not_beyond_until#{i}"] = a.le(M.unT(c.kw["target"]), SC.U(M, self._me))
        return out

    loops = {0: lambda c, index, v, A: TOP[0].loop_inv()}

    def loop_inv(self):
        out = super().loop_inv()
        M, h = self._M, self.cur()
        a = M.alg
        out["progress_monotone_since_call"] = a.forall_sims(lambda s: a.le(self._h0["P"][s], h["P"][s]))
        out["next_steps_only_grow"] = a.forall_times(lambda x: h["NS"][self._me][x] >= self._h0["NS"][self._me][x])
        out["owned_unchanged"] = And(*[h[k][self._me] == self._h0[k][self._me] for k in OWNED])
        return out


class WaitForDependencies(_L2):
    """wait_for_dependencies(sim, lazy): at the return every simulator feeding `sim` has passed
    the time needed for sim's next step t (progress + input delay > t), every async-request
    partner and -- with lazy stepping -- every direct consumer has reached t"""
    target = "mosaik.scheduler.wait_for_dependencies"
    property_ids = _L2.property_ids + ["C04"]   # lazy_stepping is symbolic: the same readiness either way

    def make_args(self, mk):
        M = mk.s.sched
        self._lazy = mk.bool("lazy_stepping")
        return {"sim": mk.const("me", M.alg.Sim), "lazy_stepping": self._lazy}

    def pre(self, M, hd, A):
        return {"no_step_in_flight": And(Not(hd["CSd"][A.sim]), Not(hd["in_step"][A.sim])),
                "has_next_step": M.ns_nonempty(hd["NS"][A.sim])}

    def post(self, M, hc, h, A, result):
        a, me = M.alg, A.sim
        t = M.minT(hc["NS"][me])
        lazy = A.lazy_stepping
        return {
            "next_steps_only_grow": a.forall_times(lambda x: h["NS"][me][x] >= hc["NS"][me][x]),
            "inputs_passed": a.forall_sims(lambda p_: Implies(M.IDd(me, p_), a.lt(t, a.plus(h["P"][p_], M.IDv(me, p_))))),
            "async_partners_reached": a.forall_sims(lambda b: Implies(M.SWd(me, b), a.le(a.plus(t, M.SWv(me, b)), h["P"][b]))),
            "lazy_consumers_reached": Implies(lazy, a.forall_sims(lambda c: Implies(
                M.SUd(me, c), a.le(a.plus(t, M.SUv(me, c)), h["P"][c])))),
        }


    def native_call(self, m):
        from contracts import scheduler_native as N
        return N.replay_wait_for_dependencies(m)


class Step(_L2):
    """step(world, sim, inputs, max_advance): performs the external step for current_step;
    afterwards last_step = current_step, a valid returned time r < until is scheduled as
    (r, 0, .., 0); API-violating replies raise SimulationError (C13) before any effect"""
    target = "mosaik.scheduler.step"
    changes_owned = ["LS", "in_step", "NSSd", "NSSv"]
    may_raise = [("SimulationError", "step:raise#0"), ("SimulationError", "step:raise#1"),
                 ("SimulationError", "step:raise#2"), ("ConnectionError", "step:external")]

    def make_args(self, mk):
        M = mk.s.sched
        return {"world": M.world, "sim": mk.const("me", M.alg.Sim), "inputs": Opaque("inputs"),
                "max_advance": mk.int("max_advance")}

    def pre(self, M, hd, A):
        return {"in_step": hd["CSd"][A.sim]}

    def post(self, M, hc, h, A, result):
        a, me = M.alg, A.sim
        out = {
            "next_steps_only_grow": a.forall_times(lambda x: h["NS"][me][x] >= hc["NS"][me][x]),
            "last_step_is_current": h["LS"][me] == hc["CSv"][me],
            "not_in_step_call": Not(h["in_step"][me]),
        }
        if TOP[0] is self:
            # C02 (b), completeness: a valid returned time before `until` IS scheduled, as (r, 0, .., 0)
            g = self._p.ghost
            kind, r = g.get("step_reply_kind"), g.get("step_reply")
            if kind == "int":
                out["C02_self_step_scheduled"] = Implies(r < M.until, h["NS"][me][a.plus(a.mkT1(r), M.fwt(me))] > 0)
            # C13: a reply is accepted only if it is valid for this simulator
            out["C13_reply_accepted_only_if_valid"] = {
                "none": M.typ(me) != 0, "int": (r > a.time(hc["CSv"][me])) if kind == "int" else True,
                "other": False}.get(kind, True)
        return out

    def site_condition(self, site, e):
        M, h = self._M, self.cur()
        a, me = M.alg, self._me
        g = self._p.ghost
        kind, r = g.get("step_reply_kind"), g.get("step_reply")
        if site == "step:raise#0":
            return kind == "other"
        if site == "step:raise#1":
            return And(kind == "int", r <= a.time(h["CSv"][me])) if kind == "int" else False
        if site == "step:raise#2":
            return And(kind == "none", M.typ(me) == 0)
        return None

    def raise_post(self, A, e):
        """C13: an API-violating reply has no effect: nothing is scheduled after it"""
        h, rs = self.cur(), self._p.ghost["region_start"]
        if e.cls != "SimulationError":
            return True
        return And(h["NS"] == rs["NS"], h["P"] == rs["P"])

    def model_values(self, m, ob=None):
        d = super().model_values(m, ob)
        from pyvc.discharge import model_value
        g = ob.ghost if ob is not None and ob.ghost else {}
        if "sims" in d and g.get("step_reply_kind"):
            me = d["sims"][d["sim"]]
            d["native_case"] = {"current_step": [me["CS"] if me["CS"] is not None else 0], "type": me["type"], "until": d["until"],
                                "reply_kind": g["step_reply_kind"], "next_self_step": me.get("NSS"),
                                "reply": model_value(m, g["step_reply"]) if g.get("step_reply_kind") == "int" else None}
        return d

    def native_call(self, m):
        from contracts import scheduler_native as N
        return N.replay_step(m)

    def native_search(self, budget):
        for cs in ([2], [2, 1]):
            for typ in ("time-based", "event-based", "hybrid"):
                for kind, reply in (("none", None), ("int", 1), ("int", 2), ("int", 3), ("int", 9), ("other", 2.5), ("other", "3")):
                    yield {"native_case": {"current_step": cs, "type": typ, "until": 5, "reply_kind": kind, "reply": reply}}

    def justify_demand(self, it, dest, x):
        """C02 (b), soundness: the only step demanded by step() is the returned time, if it is
        an int later than the current step and before `until`, as (r, 0, .., 0) for this simulator"""
        M, h = self._M, self.cur()
        a = M.alg
        r = it.p.ghost.get("step_reply")
        if r is None:
            return False
        return And(dest == self._me, x == a.plus(a.mkT1(r), M.fwt(self._me)), r < M.until, r > a.time(h["CSv"][self._me]))

    def loop_local(self, M, h):
        return {}


class GetOutputs(_L2):
    """get_outputs(world, sim): fetches the outputs of the step; the output time is validated
    (>= step time, C13) before anything is cached or pushed; sets output_time and data"""
    target = "mosaik.scheduler.get_outputs"
    changes_owned = ["OT", "DATA"]
    may_raise = [("SimulationError", "get_outputs:raise#0"), ("ConnectionError", "get_outputs:external")]
    loops = {0: lambda c, index, v, A: True, 1: lambda c, index, v, A: True}
    loop_modifies = {0: [], 1: []}

    def make_args(self, mk):
        M = mk.s.sched
        return {"world": M.world, "sim": mk.const("me", M.alg.Sim)}

    def pre(self, M, hd, A):
        return {"in_step": hd["CSd"][A.sim], "last_step_is_current": hd["LS"][A.sim] == hd["CSv"][A.sim]}

    def post(self, M, hc, h, A, result):
        a, me = M.alg, A.sim
        t = h["LS"][me]
        ot = h["OT"][me]
        if a.two:
            exact = Or(ot == t, And(a.time(ot) != a.time(t), a.tier(ot, 1) == 0))
        elif a.small:
            exact = True
        else:
            i = z3.Int("i!ot")
            # the step's own tiered time if the output is for the step time, else (time, 0, .., 0):
            # sub-step tiers are reset when time advances (C09 'time then advances normally', C02)
            exact = Or(ot == t, And(a.time(ot) != a.time(t),
                                    z3.ForAll([i], Implies(And(1 <= i, i < a.tlen(ot)), a.tier(ot, i) == 0))))
        out = {
            "next_steps_only_grow": a.forall_times(lambda x: h["NS"][me][x] >= hc["NS"][me][x]),
            "output_time_valid": Implies(M.out_req(me), And(a.tlen(ot) == a.depth(me), a.t_nonneg(ot), a.le(t, ot))),
            "output_time_exact": Implies(M.out_req(me), exact),
        }
        if TOP[0] is self:
            od = self._p.ghost.get("out_reply")
            if od is not None:
                # C13: a reply whose output time lies before the step time is never accepted
                out["C13_past_output_time_rejected"] = Not(And(od.has_time, od.time < a.time(t)))
                # C03: the reply is cached under ITS output time (if the simulator has a cache), nowhere else
                otime = z3.If(od.has_time, od.time, a.time(t))
                writes = [e for e in self._p.ghost.get("events", []) if e[0] == "cache_write"]
                out["C03_cached_under_output_time"] = And(
                    len(writes) <= 1,
                    (M.has_outputs(me) if writes else Not(M.has_outputs(me))),
                    (writes[0][1].eq(me) if writes else True), (writes[0][2] == otime) if writes else True)
            else:
                out["C03_no_cache_write_without_reply"] = len(self._p.ghost.get("events", [])) == 0
        return out

    def _push_effect(self, v, A):
        """inner push loop: this iteration added exactly one buffer entry for its destination, due at the
        output time plus the connection's time shift, attributed to this simulator and source entity"""
        if TOP[0] is not self:
            return True     # get_outputs inlined into the whole-function cross-check: the data clauses are GetOutputs' own
        M, h = self._M, self.cur()
        a, me = M.alg, self._me
        g = self._p.ghost
        lp, od = g.get("last_push"), g.get("out_reply")
        ev = g.get("events", [])[lp["events_before"]:] if lp else []
        if lp is None or od is None:
            return False
        otime = z3.If(od.has_time, od.time, a.time(h["LS"][me]))
        ok = len(ev) == 1 and ev[0][0] == "buffer_add" and ev[0][1].eq(lp["dest"]) and len(ev[0][2]) == 6
        if not ok:
            return False
        args = ev[0][2]
        port = g.get("last_push_port")
        return And(args[0] == otime + a.dtier(lp["delay"], 0), args[1] == M.sid(me), args[2] == port[0],
                   args[3] == lp["dest_eid"], args[4] == lp["dest_attr"])

    iter_post = {1: lambda c, v, A: c._push_effect(v, A)}

    def loop_local(self, M, h):
        return {}

    def site_condition(self, site, e):
        M, h = self._M, self.cur()
        a, me = M.alg, self._me
        od = self._p.ghost.get("out_reply")
        if site == "get_outputs:raise#0" and od is not None:
            return And(od.has_time, od.time < a.time(h["LS"][me]))
        return None

    def raise_post(self, A, e):
        """C13: an output time in the past is rejected before anything is cached or pushed"""
        if e.cls != "SimulationError":
            return True
        return len(self._p.ghost.get("events", [])) == 0

    def native_call(self, m):
        from contracts import scheduler_native as N
        return N.replay_get_outputs(m)

    def model_values(self, m, ob=None):
        d = super().model_values(m, ob)
        from pyvc.discharge import model_value
        od = ob.ghost.get("out_reply") if ob is not None and ob.ghost else None
        if od is not None and "sims" in d:
            has = model_value(m, od.has_time)
            d["native_case"] = {"current_step": [d["sims"][d["sim"]]["LS"]],
                                "reply_time": model_value(m, od.time) if has is True else None}
        return d

    def native_search(self, budget):
        for cs in ([2], [2, 0], [2, 1], [2, 3, 1]):
            for reply_time in (None, 2, 3, 5, 1):
                yield {"native_case": {"current_step": cs, "reply_time": reply_time}}


L2_CALLEES = [NextStepSettled, WaitForDependencies, Step, GetOutputs]


def _base(sess, scope):
    SC.configure(sess, scope)
    for c in (SC.ScheduleStep(), SC.AdvanceProgress(), SC.NotifyDependencies(), GetInputDataAtBegin(), GetProgressStub(),
              GetAvgProgressStub(), PruneStub(), GetMaxAdvanceStub(), RtCheckAfterStep()):
        sess.register(c)
        sess.use_contracts_for.add(c.target)


def configure(sess, scope="proof"):
    """modular: every coroutine is seen through its contract (the one under verification is
    registered by the driver and executed, the others are abstracted)"""
    _base(sess, scope)
    for cls in L2_CALLEES:
        c = cls()
        sess.register(c)
        sess.use_contracts_for.add(c.target)


def configure_small(sess):
    configure(sess, "small")


def configure_small2(sess):
    configure(sess, "small2")


def configure_whole_small2(sess):
    configure_whole(sess, "small2")


def configure_whole(sess, scope="proof"):
    """non-modular cross-check: the four coroutines are inlined into sim_process"""
    _base(sess, scope)
    for cls in L2_CALLEES:
        c = cls()
        sess.register(c)     # for their loop invariants only


def configure_whole_small(sess):
    configure_whole(sess, "small")


class SimProcess(_L2):
    """sim_process(world, sim, ...): the main loop of one simulator"""
    target = "mosaik.scheduler.sim_process"
    loop_modifies = {1: ["P"]}
    propagates_connection_error = False   # it must turn a lost connection into a SimulationError
    property_ids = _L2.property_ids + ["C14", "C17"]

    def make_args(self, mk):
        M = mk.s.sched
        self._lazy = mk.bool("lazy_stepping")
        return {"world": M.world, "sim": mk.const("me", M.alg.Sim), "until": M.until, "rt_factor": None,
                "rt_strict": mk.bool("rt_strict"), "lazy_stepping": self._lazy}

    def pre(self, M, hd, A):
        return {"no_step_in_flight": And(Not(hd["CSd"][A.sim]), Not(hd["in_step"][A.sim]))}

    loops = {0: lambda c, index, v, A: c.loop_inv(), 1: lambda c, index, v, A: c.loop_inv()}

    def loop_local(self, M, h):
        # the advance_progress loop runs after current_step has been cleared as well
        return {"no_step_in_flight": And(Not(h["CSd"][self._me]), Not(h["in_step"][self._me]))}

    def post(self, M, hc, h, A, result):
        a, me = M.alg, A.sim
        return {
            # C02 (e): nothing demanded before `until` is left behind
            "C02_nothing_lost": a.forall_times(lambda x: Implies(h["NS"][me][x] > 0, a.time(x) >= M.until)),
            "C02_no_step_in_flight": Not(h["CSd"][me]),
        }

    def common_post(self, M, me, hc, h):
        out = super().common_post(M, me, hc, h)
        out.pop("owned_unchanged")
        out.pop("progress_monotone_since_call")   # sim_process has no caller that needs it (G covers every region)
        return out

    def native_call(self, m):
        from contracts import scheduler_native as N
        return N.replay_sim_process_begin(m)

    def native_search(self, budget):
        for cs in ([0], [0, 0], [0, 4], [0, 5], [0, 0, 0], [0, 5, 0], [0, 0, 5], [0, 4, 4], [1, 6, 0, 0]):
            yield {"native_case": {"current_step": cs, "max_loop_iterations": 5}}
        # (the guard is the same for every simulator type: hybrid simulators have trigger inputs as well)
        for cs in ([0, 5], [0, 4], [1, 6, 0]):
            yield {"native_case": {"current_step": cs, "max_loop_iterations": 5, "type": "hybrid"}}
        for where in ("step", "get_data"):
            for err in ("ConnectionResetError", "BrokenPipeError", "ConnectionError", "ConnectionAbortedError"):
                yield {"native_case": {"connection_lost_in": where, "error": err}}

    def site_condition(self, site, e):
        """C09: the guard fires exactly when some sub-step tier of the step has reached the bound"""
        M, h = self._M, self.cur()
        a, me = M.alg, self._me
        if site == "sim_process:raise#1":
            return sub_tier_at_bound(M, h["CSv"][me])
        return None


class SimProcessWhole(SimProcess):
    configure = "configure_whole"
    configure_small = "configure_whole_small"
    configure_small2 = "configure_whole_small2"
    thorough_only = True
    max_timeout_ms = 30000     # a cross-check of the modular decomposition: the quick budget per obligation is enough

    def loop_inv(self):
        return SimProcess.loop_inv(self)


CONTRACTS = [SimProcess(), NextStepSettled(), WaitForDependencies(), Step(), GetOutputs(), SimProcessWhole()]
