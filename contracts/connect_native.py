"""Native small-scope search / replay for World.connect_one: real World, real SimRunner and
Entity objects (stub proxies, hand-made model mocks), an independent native statement of the
contract.  Runs under /venv/bin/python."""
from __future__ import annotations
import copy
import itertools
from types import SimpleNamespace


class _StubProxy:
    def __init__(self):
        self.meta = {"type": "hybrid", "models": {}}

    async def send(self, request):
        return None

    async def stop(self):
        return None


GROUP_SHAPES = {
    # name: (parent vector, src node, dest node)
    "both_root": ([None], 0, 0),
    "same_group": ([None, 0], 1, 1),
    "siblings": ([None, 0, 0], 1, 2),
    "root_to_group": ([None, 0], 0, 1),
    "group_to_root": ([None, 0], 1, 0),
    "nested": ([None, 0, 1], 1, 2),
    "cousins": ([None, 0, 1, 1], 2, 3),
}


def cases():
    for shape in GROUP_SHAPES:
        for same_sim in (False, True):
            if same_sim and GROUP_SHAPES[shape][1] != GROUP_SHAPES[shape][2]:
                continue
            for src_kind, dest_kind in itertools.product(("persistent", "event", "none"), ("trigger", "non-trigger", "none")):
                for ts, weak in ((0, False), (1, False), (2, False), (0, True), (1, True)):
                    for initial in (False, True):
                        for cache in (True, False):
                            for first in (None, (0, False), (2, False), (0, True)):
                                yield {"shape": shape, "same_sim": same_sim, "src_kind": src_kind, "dest_kind": dest_kind,
                                       "time_shifted": ts, "weak": weak, "initial": initial, "cache": cache, "first": first}


def build(m):
    import mosaik
    from mosaik.scenario import SimGroup, Entity
    from mosaik.simmanager import SimRunner
    parents, si, di = GROUP_SHAPES[m["shape"]]
    groups = []
    for p in parents:
        groups.append(SimGroup(parent=None if p is None else groups[p]))
    depth = lambda i: 1 if parents[i] is None else depth(parents[i]) + 1  # noqa: E731
    world = mosaik.World({}, skip_greetings=True, cache=m["cache"])
    world.main_group = groups[0]

    def mk_sim(sid, gi):
        s = SimRunner(sid, _StubProxy(), depth=depth(gi))
        if m["cache"]:
            s.outputs = {}
        world.sims[sid] = s
        return s

    src_sim = mk_sim("A", si)
    dest_sim = src_sim if m["same_sim"] else mk_sim("B", di)

    def mock(group, outs_p, outs_e, ins_t, ins_n):
        mm = SimpleNamespace(name="M", event_inputs=frozenset(ins_t), measurement_inputs=frozenset(ins_n),
                             event_outputs=frozenset(outs_e), measurement_outputs=frozenset(outs_p),
                             _factory=SimpleNamespace(_group=group))
        mm.input_attrs = mm.event_inputs | mm.measurement_inputs
        mm.output_attrs = mm.event_outputs | mm.measurement_outputs
        return mm

    sm = mock(groups[si], ["p"] if m["src_kind"] == "persistent" else [], ["p"] if m["src_kind"] == "event" else [], [], [])
    dm = mock(groups[di], [], [], ["q"] if m["dest_kind"] == "trigger" else [], ["q"] if m["dest_kind"] == "non-trigger" else [])
    src = Entity("A", "e1", "Sim", sm, None)
    dest = Entity(dest_sim.sid, "e2", "Sim", dm, None)
    return world, groups, (parents, si, di), src_sim, dest_sim, src, dest


def expected_delay(parents, si, di, ts, weak):
    from mosaik.tiered_time import TieredInterval

    def chain(i):
        out = [i]
        while parents[out[-1]] is not None:
            out.append(parents[out[-1]])
        return out
    cs, cd = chain(si), chain(di)
    common = next(x for x in cd if x in cs)
    cut = len(chain(common))
    no_group = parents[common] is None
    tiers = [0] * len(cd)
    tiers[0] = ts
    if weak:
        tiers[cut - 1] = 1
    return TieredInterval(*tiers, cutoff=cut, pre_length=len(cs)), no_group


def snapshot(sims):
    out = {}
    for s in sims:
        out[s.sid] = copy.deepcopy({
            "input_delays": {k.sid: v for k, v in s.input_delays.items()},
            "successors": {k.sid: v for k, v in s.successors.items()},
            "output_request": s.output_request, "persistent_inputs": s.persistent_inputs,
            "pulled_inputs": {(k[0].sid, k[1]): sorted(v) for k, v in s.pulled_inputs.items()},
            "output_to_push": {k: [(d.sid, dl, p) for d, dl, p in v] for k, v in s.output_to_push.items()},
            "triggers": {k: [(d.sid, dl) for d, dl in v] for k, v in s.triggers.items()},
            "outputs": s.outputs,
        })
    return out


def _connect(world, src, dest, ts, weak, initial):
    """through the public entry point: World.connect(src, dest, (src_attr, dest_attr), ...) calls connect_one per pair"""
    from mosaik.scenario import SENTINEL
    kw = {}
    if initial is not SENTINEL:
        kw["initial_data"] = {"p": initial}
    world.connect(src, dest, ("p", "q"), time_shifted=ts, weak=weak, **kw)


def replay_connect_one(m):
    from mosaik.exceptions import ScenarioError
    from mosaik.scenario import SENTINEL
    if "shape" not in m:
        return True, "symbolic counter-models of connect_one are not replayed (the native search is)"
    world, groups, (parents, si, di), src_sim, dest_sim, src, dest = build(m)
    sims = [src_sim] if dest_sim is src_sim else [src_sim, dest_sim]
    try:
        # optional earlier connection between the same pair (so that input_delays already has an entry)
        if m["first"] is not None and m["src_kind"] != "none" and m["dest_kind"] != "none":
            fts, fweak = m["first"]
            _, ng = expected_delay(parents, si, di, fts, fweak)
            if not (fweak and ng):
                _connect(world, src, dest, fts, fweak, 0 if (fts or fweak) and m["dest_kind"] == "non-trigger" else SENTINEL)
        before = snapshot(sims)
        ts, weak = m["time_shifted"], m["weak"]
        delay, no_group = expected_delay(parents, si, di, ts, weak)
        adapt, _ = expected_delay(parents, si, di, 0, False)
        reject = (m["src_kind"] == "none" or m["dest_kind"] == "none"
                  or ((ts or weak) and m["dest_kind"] == "non-trigger" and not m["initial"]) or (weak and no_group))
        desc = f"connect_one({m}): "
        try:
            _connect(world, src, dest, ts, weak, 7 if m["initial"] else SENTINEL)
        except ScenarioError:
            after = snapshot(sims)
            if not reject:
                return False, desc + "rejected although the connection is valid"
            return after == before, desc + ("rejected, but left data-flow behind: " +
                                            str({k: (before[k], after[k]) for k in after if before[k] != after[k]})[:400]
                                            if after != before else "rejected, nothing left behind")
        if reject:
            return False, desc + "accepted although it must be rejected"
        after = snapshot(sims)
        exp = copy.deepcopy(before)
        S, D = "A", dest_sim.sid
        old = exp[D]["input_delays"].get(S)
        exp[D]["input_delays"][S] = delay if old is None or delay < old else old
        exp[S]["successors"][D] = adapt
        exp[S]["output_request"].setdefault("e1", []).append("p")
        persistent = m["src_kind"] == "persistent"
        pulled = persistent and m["cache"]
        if persistent and not m["cache"]:
            exp[D]["persistent_inputs"].setdefault("e2", {}).setdefault("q", {}).setdefault("A.e1", None)
        if pulled:
            exp[D]["pulled_inputs"].setdefault((S, delay), [])
            exp[D]["pulled_inputs"][(S, delay)] = sorted(set(exp[D]["pulled_inputs"][(S, delay)]) | {(("e1", "p"), ("e2", "q"))})
        else:
            exp[S]["output_to_push"].setdefault(("e1", "p"), []).append((D, delay, ("e2", "q")))
        if m["dest_kind"] == "trigger":
            exp[S]["triggers"].setdefault(("e1", "p"), []).append((D, delay))
        if m["initial"]:
            if pulled:
                exp[S]["outputs"].setdefault(-ts, {}).setdefault("e1", {})["p"] = 7
            else:
                exp[D]["persistent_inputs"].setdefault("e2", {}).setdefault("q", {})["A.e1"] = 7
        diff = {s: {k: (exp[s][k], after[s][k]) for k in exp[s] if exp[s][k] != after[s][k]} for s in exp}
        diff = {s: d for s, d in diff.items() if d}
        return not diff, desc + (f"tables differ from the specified ones (expected, actual): {str(diff)[:600]}" if diff
                                 else "tables as specified")
    finally:
        world.loop.close()


def bounded_entity_models(tier, seed):
    """Bounded stand-in for ModelMock.create / _make_entities (C11: connect() validates an attribute against the model OF
    THE ENTITY): a real in-process simulator with two models whose create() returns entities with children of the other
    model, to nesting depth 2; every entity must carry the model description of its own type, and connect() must
    accept / reject attribute pairs accordingly."""
    import itertools
    import sys
    import types
    import warnings
    import mosaik
    import mosaik_api_v3
    from mosaik.exceptions import ScenarioError
    warnings.simplefilter("ignore")
    try:
        from loguru import logger
        logger.remove()
    except Exception:  # noqa: BLE001
        pass
    meta = {"api_version": "3.0", "type": "time-based", "models": {
        "P": {"public": True, "params": [], "attrs": ["p_out", "p_in"]},
        "Q": {"public": True, "params": [], "attrs": ["q_out", "q_in"]}}}
    failures, cases = [], 0
    shapes = [("P", []), ("P", [("Q", [])]), ("Q", [("P", []), ("Q", [])]), ("P", [("Q", [("P", [])])])]

    def mk(shape, prefix="e"):
        typ, kids = shape
        d = {"eid": prefix, "type": typ}
        if kids:
            d["children"] = [mk(k, f"{prefix}_{i}") for i, k in enumerate(kids)]
        return d

    for shape in shapes:
        class Sim(mosaik_api_v3.Simulator):
            def __init__(self):
                super().__init__(meta)

            def init(self, sid, time_resolution=1.0, **kw):
                return self.meta

            def create(self, num, model, shape=shape, **kw):
                if model != shape[0]:
                    return [{"eid": f"o{i}", "type": model} for i in range(num)]
                return [mk(shape, f"e{i}") for i in range(num)]

            def step(self, time, inputs, max_advance):
                return time + 1

            def get_data(self, outputs):
                return {}
        mod = types.ModuleType("_c11_sims")
        mod.Sim = Sim
        sys.modules["_c11_sims"] = mod
        w = mosaik.World({"S": {"python": "_c11_sims:Sim"}}, skip_greetings=True)
        try:
            fa, fb = w.start("S"), w.start("S")
            top = getattr(fa, shape[0])()
            other = fb.Q() if shape[0] == "P" else fb.P()
            dest_in = "q_in" if shape[0] == "P" else "p_in"

            def walk(ent, sh):
                yield ent, sh[0]
                for c, k in zip(ent.children or [], sh[1]):
                    yield from walk(c, k)
            for ent, typ in walk(top, shape):
                cases += 1
                if ent.model_mock is not getattr(fa, typ) or ent.type != typ:
                    failures.append({"desc": f"entity {ent.full_id} of type {typ} (created inside {shape}) carries the model description of "
                                             f"{ent.model_mock.name!r}", "case": {"shape": str(shape), "eid": ent.eid}})
                    continue
                out_ok, out_bad = ("p_out", "q_out") if typ == "P" else ("q_out", "p_out")
                for attr, must_accept in ((out_ok, True), (out_bad, False)):
                    cases += 1
                    try:
                        w.connect(ent, other, (attr, dest_in))
                        accepted = True
                    except ScenarioError:
                        accepted = False
                    if accepted != must_accept:
                        failures.append({"desc": f"connect({ent.full_id} [{typ}], ..., ({attr!r}, {dest_in!r})) was "
                                                 f"{'accepted' if accepted else 'rejected'}; {attr!r} is {'an' if must_accept else 'not an'} "
                                                 f"output of model {typ}", "case": {"shape": str(shape), "eid": ent.eid, "attr": attr}})
        finally:
            w.shutdown()
    return {"bound": f"{len(shapes)} entity trees (two models, children of the other model, nesting depth <= 2), every entity x (own output, "
                     "other model's output) connected to a plain entity", "cases": cases, "failures": failures[:5]}


def bounded_classification_wiring(tier, seed):
    """Bounded stand-in for the WIRING around parse_attrs (which is under contract, C12): World.start -> ModelFactory ->
    ModelMock.__init__ must store the four sets parse_attrs returns under the right names, input_attrs / output_attrs must be
    their unions, Entity.triggered_by / is_persistent must read the right sets -- and a description parse_attrs rejects must be
    rejected at start.  Real in-process simulators, model descriptions over the attributes a, b, c."""
    import itertools
    import sys
    import types
    import warnings
    import mosaik
    import mosaik_api_v3
    from mosaik.exceptions import ScenarioError
    from mosaik.scenario import parse_attrs
    warnings.simplefilter("ignore")
    try:
        from loguru import logger
        logger.remove()
    except Exception:  # noqa: BLE001
        pass
    attrs = ["a", "b", "c"]
    opts = [None, [], ["a"], ["a", "b"]]
    descs = []
    for trig, nontrig, pers, nonpers in itertools.product(opts, opts, [None, ["c"]], [None, ["c"], []]):
        d = {"public": True, "params": [], "attrs": list(attrs)}
        for k, v in (("trigger", trig), ("non-trigger", nontrig), ("persistent", pers), ("non-persistent", nonpers)):
            if v is not None:
                d[k] = list(v)
        descs.append(d)
    descs.append({"public": True, "params": [], "any_inputs": True, "attrs": ["c"], "trigger": ["a"]})
    descs.append({"public": True, "params": [], "any_inputs": True, "attrs": ["c"], "non-trigger": ["a"]})
    if tier != "thorough":
        descs = descs[::3] + descs[-2:]
    failures, cases = [], 0
    for typ in ("time-based", "event-based", "hybrid"):
        for desc in descs:
            cases += 1
            meta = {"api_version": "3.0", "type": typ, "models": {"M": desc}}

            class Sim(mosaik_api_v3.Simulator):
                def __init__(self, meta=meta):
                    super().__init__(meta)

                def init(self, sid, time_resolution=1.0, **kw):
                    return self.meta

                def create(self, num, model, **kw):
                    return [{"eid": f"e{i}", "type": model} for i in range(num)]

                def step(self, time, inputs, max_advance):
                    return time + 1

                def get_data(self, outputs):
                    return {}
            mod = types.ModuleType("_c12_sims")
            mod.Sim = Sim
            sys.modules["_c12_sims"] = mod
            try:
                exp = parse_attrs(desc, typ)
            except ValueError:
                exp = None
            w = mosaik.World({"S": {"python": "_c12_sims:Sim"}}, skip_greetings=True)
            try:
                try:
                    f = w.start("S")
                    started = True
                except (ScenarioError, ValueError):
                    started = False
                problems = []
                if started != (exp is not None):
                    problems.append(f"start {'accepted' if started else 'rejected'} the description although parse_attrs "
                                    f"{'rejects' if exp is None else 'accepts'} it")
                elif started:
                    mm = f.M
                    got = (mm.measurement_inputs, mm.event_inputs, mm.measurement_outputs, mm.event_outputs)
                    names = ("measurement_inputs (non-trigger)", "event_inputs (trigger)", "measurement_outputs (persistent)", "event_outputs (non-persistent)")
                    for n_, g_, e_ in zip(names, got, exp):
                        if not (g_ == e_):
                            problems.append(f"ModelMock.{n_} is {g_!r}, parse_attrs gives {e_!r}")
                    ent = f.M()
                    for x in attrs + ["zzz"]:
                        if (x in mm.input_attrs) != ((x in exp[0]) or (x in exp[1])):
                            problems.append(f"input_attrs membership of {x!r}")
                        if (x in mm.output_attrs) != ((x in exp[2]) or (x in exp[3])):
                            problems.append(f"output_attrs membership of {x!r}")
                        if ent.triggered_by(x) != (x in exp[1]):
                            problems.append(f"Entity.triggered_by({x!r}) is {ent.triggered_by(x)}")
                        if ent.is_persistent(x) != (x in exp[2]):
                            problems.append(f"Entity.is_persistent({x!r}) is {ent.is_persistent(x)}")
                if problems:
                    failures.append({"desc": f"type {typ}, description {desc}: " + "; ".join(problems[:4]), "case": {"type": typ, "desc": desc}})
            finally:
                w.shutdown()
            if len(failures) >= 5:
                break
        if len(failures) >= 5:
            break
    return {"bound": f"{len(descs)} model descriptions over attrs a, b, c (trigger / non-trigger / persistent / non-persistent absent or listed, any_inputs) "
                     "x three simulator types, through World.start", "cases": cases, "failures": failures}


def bounded_group_scoping(tier, seed):
    """Bounded stand-in for World.group / World.start's group bookkeeping (C11: 'distinct groups, including sibling groups, are
    distinct: sub-time is shared only inside the common enclosing group'): real worlds with nested and sibling `with
    world.group()` blocks; every started simulator must sit in the group of the innermost enclosing block (the main group outside
    all blocks, also AFTER a block), its SimRunner must have that group's depth, blocks opened one after the other give distinct
    groups with the same parent, and a weak connection is accepted exactly between simulators that share a non-root group."""
    import sys
    import types
    import warnings
    import mosaik
    import mosaik_api_v3
    from mosaik.exceptions import ScenarioError
    warnings.simplefilter("ignore")
    try:
        from loguru import logger
        logger.remove()
    except Exception:  # noqa: BLE001
        pass
    meta = {"api_version": "3.0", "type": "event-based", "models": {"M": {"public": True, "params": [], "attrs": ["x"]}}}

    class Sim(mosaik_api_v3.Simulator):
        def __init__(self):
            super().__init__(meta)

        def init(self, sid, time_resolution=1.0, **kw):
            return self.meta

        def create(self, num, model, **kw):
            return [{"eid": f"e{i}", "type": model} for i in range(num)]

        def step(self, time, inputs, max_advance):
            return None

        def get_data(self, outputs):
            return {}
    mod = types.ModuleType("_c11g_sims")
    mod.Sim = Sim
    sys.modules["_c11g_sims"] = mod
    # a block structure is a nested list; "s" starts a simulator at that place
    shapes = [["s", ["s"], "s"], [["s", "s"], ["s"], "s"], [["s", ["s", "s"], "s"], "s"], ["s", [["s"], ["s"]], "s"], [["s"], ["s"], ["s"]]]
    failures, cases = [], 0
    for shape in shapes:
        w = mosaik.World({"S": {"python": "_c11g_sims:Sim"}}, skip_greetings=True)
        try:
            placed = []          # (factory, path of block indices)

            def walk(items, path):
                k = 0
                for it in items:
                    if it == "s":
                        placed.append((w.start("S"), tuple(path)))
                    else:
                        with w.group():
                            walk(it, path + [k])
                        k += 1
            walk(shape, [])
            cases += 1
            problems = []
            groups = {}
            for f, path in placed:
                g = f._group
                if g.depth != len(path) + 1 or w.sims[f._sid].progress.time.tiers.__len__() != len(path) + 1:
                    problems.append(f"{f._sid} started at block path {path}: group depth {g.depth}, time depth {len(w.sims[f._sid].progress.time)} "
                                    f"(expected {len(path) + 1})")
                if path in groups and groups[path] is not g:
                    problems.append(f"two simulators of block {path} sit in different groups")
                groups.setdefault(path, g)
            for p1, g1 in groups.items():
                for p2, g2 in groups.items():
                    if p1 != p2 and (g1 is g2 or g1 == g2):
                        problems.append(f"blocks {p1} and {p2} share one group object / compare equal")
                if p1 and p1[:-1] in groups and g1.parent is not groups[p1[:-1]]:
                    problems.append(f"the group of block {p1} does not have the group of block {p1[:-1]} as its parent")
            # weak connections: accepted iff the two simulators share a non-root group
            for (f1, p1), (f2, p2) in [(a, b) for a in placed for b in placed if a is not b][:12]:
                cases += 1
                common = 0
                while common < min(len(p1), len(p2)) and p1[common] == p2[common]:
                    common += 1
                e1, e2 = f1.M(), f2.M()
                try:
                    w.connect(e1, e2, ("x", "x"), weak=True)
                    accepted = True
                except ScenarioError:
                    accepted = False
                if accepted != (common >= 1):
                    problems.append(f"weak connection {f1._sid} (block {p1}) -> {f2._sid} (block {p2}) was {'accepted' if accepted else 'rejected'}")
            if problems:
                failures.append({"desc": f"block structure {shape}: " + "; ".join(problems[:4]), "case": {"shape": str(shape)}})
        finally:
            w.shutdown()
    return {"bound": f"{len(shapes)} nestings of `with world.group()` blocks (depth <= 3, siblings, simulators before / inside / after blocks), up to 12 "
                     "weak connections each", "cases": cases, "failures": failures[:5]}
