"""Bounded stand-in (native) for the parts of C15 outside the deductive reach: version STRING parsing
(extract_version, explicit api_version), LocalProxy.init (compliance check, time_resolution), and the adapters
end to end: in-process simulators announce a version, mosaik starts and runs them for two steps, the requests
they actually received are compared with the property statement."""
from __future__ import annotations
import os
import sys
import warnings

sys.path.insert(0, os.path.join(os.path.dirname(os.path.dirname(os.path.abspath(__file__))), "native"))

VERSIONS = ["1", "2", "2.0", "2.1", "2.2", "2.2.1", "2.9", "2.10", "3", "3.0", "3.0.2", "3.1", "4", "4.0", "10.2"]


def _parse(v):
    return [1] if v is None else [int(x) for x in v.split(".")]


def run_case(version, explicit, legacy, order_hint=0):
    """-> list of problems"""
    import mosaik
    from mosaik.exceptions import ScenarioError
    from loguru import logger
    logger.remove()
    import api_sims_a
    import api_sims_b
    mod = api_sims_b if legacy else api_sims_a
    mod.LOG.clear()
    cfg = {"python": f"{mod.__name__}:Simulator"}
    if explicit is not None:
        cfg["api_version"] = explicit
    w = mosaik.World({"S": cfg}, skip_greetings=True)
    v = _parse(version)
    problems = []
    must_reject = v >= [4] or (explicit is not None and _parse(explicit) != v) or (legacy and v >= [3])
    try:
        with warnings.catch_warnings(record=True) as caught:
            warnings.simplefilter("always")
            try:
                f = w.start("S", api_version=version, sim_type=None if v < [3] else "time-based")
                started = True
            except ScenarioError as e:
                started = False
            if started == must_reject:
                problems.append(f"start {'accepted' if started else 'rejected'} although it must be {'rejected' if must_reject else 'accepted'}")
            if started and not must_reject:
                if f.meta.get("type") != "time-based":
                    problems.append(f"missing type not defaulted to time-based: {f.meta.get('type')}")
                f.M()
                w.run(until=2, print_progress=False)
                log = list(mod.LOG)
                init = [x for x in log if x[0] == "init"][0]
                if ("time_resolution" in init[2]) != (not legacy):
                    problems.append(f"init kwargs {init[2]} for a {'legacy' if legacy else 'compliant'} simulator")
                steps = [x for x in log if x[0] == "step"]
                if [s[1] for s in steps] != [0, 1]:
                    problems.append(f"steps {steps}, expected at 0 and 1 (same scheduling as a current-version simulator)")
                if not legacy:
                    got_ma = [s[2] != "MISSING" for s in steps]
                    if any(g != (v >= [3]) for g in got_ma):
                        problems.append(f"max_advance passed: {got_ma} for version {version}")
                if (("setup_done",) in log) != (v >= [2, 2]):
                    problems.append(f"setup_done {'sent' if ('setup_done',) in log else 'not sent'} for version {version}")
                warned = any("outdated API" in str(c.message) for c in caught)
                if warned != (v < [3] and explicit is None):
                    problems.append(f"outdated-version warning: {warned} (version {version}, explicit {explicit})")
    finally:
        if not w.loop.is_closed():
            w.shutdown()
    return problems


def run_repeated(announced, configured):
    import mosaik
    from mosaik.exceptions import ScenarioError
    import api_sims_a
    w = mosaik.World({"S": {"python": f"{api_sims_a.__name__}:Simulator", "api_version": configured}}, skip_greetings=True)
    must_reject = _parse(announced) != _parse(configured)
    out = []
    try:
        with warnings.catch_warnings():
            warnings.simplefilter("ignore")
            for _ in range(3):
                try:
                    w.start("S", api_version=announced, sim_type=None if _parse(announced) < [3] else "time-based")
                    out.append("accepted")
                except ScenarioError:
                    out.append("rejected")
    finally:
        if not w.loop.is_closed():
            w.shutdown()
    exp = ["rejected" if must_reject else "accepted"] * 3
    return [] if out == exp else [f"starts {out}, expected {exp}"]


def _bump_patch(version):
    parts = version.split(".")
    if len(parts) >= 3:
        return ".".join(parts[:2] + [str(int(parts[2]) + 1)])
    return ".".join(parts + ["0"] * (2 - len(parts)) + ["1"])


def bounded_api_versions(tier, seed):
    failures, cases = [], 0
    for legacy in (False, True):
        for version in VERSIONS:
            # (configured: none, the same string, two fixed ones, and the announced one with the patch level changed / added)
            for explicit in dict.fromkeys((None, version, "2.0", "3.0", _bump_patch(version))):
                if explicit is None and version is None and legacy:
                    pass
                cases += 1
                try:
                    pr = run_case(version, explicit, legacy)
                except Exception as e:   # noqa: BLE001
                    pr = [f"unexpected {type(e).__name__}: {e}"]
                if pr:
                    failures.append({"desc": f"simulator announcing api_version {version!r} ({'legacy' if legacy else 'v3'} signatures), configured "
                                             f"api_version {explicit!r}: " + "; ".join(pr),
                                     "case": {"version": version, "explicit": explicit, "legacy": legacy}})
    # the same configured simulator started several times in one world: the configured api_version applies to every start
    for announced, configured in (("2.1", "3.0"), ("3.0", "2.2"), ("3.0", "3.0")):
        cases += 1
        try:
            pr = run_repeated(announced, configured)
        except Exception as e:   # noqa: BLE001
            pr = [f"unexpected {type(e).__name__}: {e}"]
        if pr:
            failures.append({"desc": f"simulator announcing {announced!r}, configured api_version {configured!r}, started three times: " + "; ".join(pr),
                             "case": {"version": announced, "explicit": configured, "repeated": True}})
    # two simulator classes with the same class name but different API generations, one after the other
    for first_legacy in (False, True):
        cases += 1
        pr = []
        for legacy in (first_legacy, not first_legacy):
            try:
                pr += [f"({'legacy' if legacy else 'v3'} started {'first' if legacy == first_legacy else 'second'}) " + x
                       for x in run_case("2.0" if legacy else "3.0", None, legacy)]
            except Exception as e:   # noqa: BLE001
                pr.append(f"unexpected {type(e).__name__}: {e}")
        if pr:
            failures.append({"desc": "two classes named Simulator of different API generations in one process: " + "; ".join(pr),
                             "case": {"first_legacy": first_legacy}})
    return {"bound": f"announced versions {VERSIONS} x configured api_version in (none, same, 2.0, 3.0, same with another patch level) x (v3 | legacy signatures), two steps each; "
                     "plus two same-named classes of different generations in sequence", "cases": cases, "failures": failures[:5]}


def replay_version_model(m):
    """replay of a symbolic counter-model of init_and_get_adapter: version lists -> strings"""
    v = m.get("version")
    if not v:
        return True, "no version in the model"
    vs = ".".join(str(x) for x in v)
    ev = m.get("explicit_version")
    es = ".".join(str(x) for x in ev) if ev else None
    if any(x < 0 for x in v) or (ev and any(x < 0 for x in ev)):
        return True, "negative version component (not a version string)"
    pr = run_case(vs, es, False)
    return not pr, f"announced {vs!r}, configured {es!r}: {pr}"
