"""Bounded stand-ins for the path-closure algorithms (see contracts/closure_native.py)."""
from pyvc.bounded import NativeBounded


class TriggeringAncestorsBounded(NativeBounded):
    property_ids = ["C01", "C02", "C05", "C07"]
    module = "contracts.closure_native"
    func = "bounded_triggering_ancestors"
    what = "mosaik.scenario.World.cache_triggering_ancestors"


class CycleDetectionBounded(NativeBounded):
    property_ids = ["C06", "C05"]
    module = "contracts.closure_native"
    func = "bounded_cycle_detection"
    what = "mosaik.scenario.World.ensure_no_dataflow_cycles"


BOUNDED = [TriggeringAncestorsBounded(), CycleDetectionBounded()]
