"""Sidecar contract for World.connect (mosaik/scenario.py) -- the argument handling in front of connect_one (C11; the data-flow
tables that C01 / C02 / C03 read are written by the connect_one calls made here).

  * every attribute pair given by the caller ("a" stands for ("a", "a")) is handed to connect_one EXACTLY ONCE -- no pair is
    dropped, none connected twice --, with the caller's src / dest / time_shifted / weak and initial_data.get(src_attr, SENTINEL);
  * ScenarioError IFF connect_one rejects at least one of the pairs (the other pairs are still tried);
  * connect_async_requests(src factory, dest factory) exactly once iff async_requests;
  * the entity-graph edge is added exactly once on success and not at all on rejection.

connect_one is under its own contract (contracts.connect); here it is an external call that raises ScenarioError for an arbitrary
(uninterpreted) set of pairs.  *attr_pairs is a tuple of arbitrary length whose elements are strings or pairs.
"""
from pyvc.contract import Contract
from pyvc.spec import And, Or, Not, Implies, Iff
try:
    import z3
    from pyvc.values import SymSeq, Builtin, Unsupported, Opaque, is_z3, simp
    from pyvc.interp import Env
    from pyvc import extract
    import ast
except Exception:  # pragma: no cover
    z3 = None

if z3 is not None:
    Attr = z3.DeclareSort("WAttr")
    Pair, mkpair, (p1, p2) = z3.TupleSort("WPair", [Attr, Attr])
    I, B = z3.IntSort(), z3.BoolSort()
    is_str = z3.Function("arg_is_str", I, B)
    nm = z3.Function("arg_name", I, Attr)
    fst = z3.Function("arg_first", I, Attr)
    snd = z3.Function("arg_second", I, Attr)
    fails = z3.Function("connect_one_rejects", Pair, B)
    N = z3.Int("n_attr_pairs")
    CntS = z3.ArraySort(Pair, I)

_n = iter(range(1, 10 ** 9))


def _c(prefix, sort):
    return z3.Const(f"{prefix}!w{next(_n)}", sort)


def norm(i):
    return z3.If(is_str(i), mkpair(nm(i), nm(i)), mkpair(fst(i), snd(i)))


def given(x):
    """x is one of the caller's pairs"""
    i = _c("i", I)
    return z3.Exists([i], And(i >= 0, i < N, norm(i) == x))


class ArgPairs:
    pass


class Elem:
    def __init__(self, i):
        self.i = i


class NormGen:
    def __init__(self, i, term):
        self.i, self.term = i, term


class PairSet:
    is_abstract_collection = True

    def __init__(self, gen):
        self.gen = gen
        self.key_sort = Pair

    def member(self, x):
        j = _c("j", I)
        return z3.Exists([j], And(j >= 0, j < N, z3.substitute(self.gen.term, (self.gen.i, j)) == x))

    def arbitrary(self, it):
        pr = it.p.fresh("pair", Pair)
        return (p1(pr), p2(pr))

    def key_of(self, item):
        return mkpair(item[0], item[1])


class ErrList:
    def __init__(self, n):
        self.n = n


class WorldW:
    pass


class Ent:
    def __init__(self, name):
        self.name = name


class MM:
    def __init__(self, ent):
        self.ent = ent


class Fac:
    def __init__(self, ent):
        self.ent = ent


class InitData:
    pass


class IData:
    def __init__(self, attr, default):
        self.attr, self.default = attr, default


class Sentinel:
    pass


class AnySet:
    pass


class Graph:
    pass


SENT = Sentinel()


class ConnectModel:
    def __init__(self, sess):
        self.s = sess
        sess.models.insert(0, self)
        sess.wcm = self
        self.world, self.src, self.dest, self.idata, self.args = WorldW(), Ent("src"), Ent("dest"), InitData(), ArgPairs()
        self.trig = z3.Function("dest_triggered_by", Attr, B)
        sess.builtins["set"] = Builtin("set", self._set)

    def reset(self, p, A):
        self.A = A
        p.ghost["wc"] = {"cnt": z3.K(Pair, z3.IntVal(0)), "ok": z3.BoolVal(True), "async": [], "edges": []}

    def _set(self, it, node, x=None):
        if x is None:
            return AnySet()
        if isinstance(x, NormGen):
            return PairSet(x)
        raise Unsupported("set(iterable)")

    def _connect_one(self, it, node, *args, **kw):
        g = dict(it.p.ghost["wc"])
        A = self.A
        names = ["src", "dest", "src_attr", "dest_attr"]
        d = dict(zip(names, args))
        d.update(kw)
        ok = (len(args) <= 4 and set(d) == {"src", "dest", "src_attr", "dest_attr", "time_shifted", "weak", "initial_data"}
              and d["src"] is self.src and d["dest"] is self.dest and d["time_shifted"] is A.time_shifted and d["weak"] is A.weak
              and isinstance(d["initial_data"], IData) and d["initial_data"].default is SENT)
        if not ok or not (is_z3(d["src_attr"]) and is_z3(d["dest_attr"])):
            g["ok"] = z3.BoolVal(False)
            it.p.ghost["wc"] = g
            return None
        pr = mkpair(d["src_attr"], d["dest_attr"])
        g["ok"] = And(g["ok"], d["initial_data"].attr == d["src_attr"])
        g["cnt"] = z3.Store(g["cnt"], pr, g["cnt"][pr] + 1)
        it.p.ghost["wc"] = g
        if it.decide(fails(pr)):
            it.raise_("ScenarioError", node, implicit="connect_one rejects the pair")
        return None

    def comprehension(self, it, e, env, kind):
        g = e.generators[0]
        src = it.eval(g.iter, env)
        if isinstance(src, ArgPairs) and kind == "gen" and not g.ifs and len(e.generators) == 1:
            i = _c("i", I)
            sub = Env({}, env)
            it.pure_depth += 1
            try:
                it.assign(g.target, Elem(i), sub)
                v = it.eval(e.elt, sub)
            finally:
                it.pure_depth -= 1
            return NormGen(i, self.as_pair(v))
        if isinstance(src, ErrList):
            return Opaque("messages")
        raise Unsupported("comprehension")

    def as_pair(self, v):
        if is_z3(v) and v.sort() == Pair:
            return v
        if isinstance(v, tuple) and len(v) == 2 and all(isinstance(x, Elem) for x in v):
            # (a, a): a is used as an attribute name
            return mkpair(nm(v[0].i), nm(v[1].i))
        if isinstance(v, Elem):
            # a itself is the pair
            return mkpair(fst(v.i), snd(v.i))
        if isinstance(v, tuple) and len(v) == 2 and all(is_z3(x) and x.sort() == Attr for x in v):
            return mkpair(v[0], v[1])
        raise Unsupported("normalised attribute pair of unknown shape")

    def merge(self, it, c, a, b):
        try:
            return z3.If(c, self.as_pair(a), self.as_pair(b))
        except Unsupported:
            return NotImplemented

    def getitem(self, it, obj, idx, node):
        if isinstance(obj, Elem) and idx in (0, 1):
            # (element used as a pair)
            return fst(obj.i) if idx == 0 else snd(obj.i)
        return NotImplemented

    def isinstance(self, it, v, cls, node):
        if isinstance(v, Elem) and isinstance(cls, Builtin) and cls.name == "str":
            return is_str(v.i)
        return NotImplemented

    def module_constant(self, it, mod, name):
        if name == "SENTINEL":
            return SENT
        return NotImplemented

    def list_display(self, it, e, env):
        if not e.elts:
            return ErrList(z3.IntVal(0))
        return NotImplemented

    def getattr(self, it, obj, name, node):
        if isinstance(obj, WorldW):
            if name == "connect_one":
                return Builtin("World.connect_one", self._connect_one)
            if name == "connect_async_requests":
                def car(it2, n2, *a, **k):
                    g = dict(it2.p.ghost["wc"])
                    g["async"] = g["async"] + [(a, k)]
                    it2.p.ghost["wc"] = g
                return Builtin("World.connect_async_requests", car)
            if name == "entity_graph":
                return Graph()
            raise Unsupported(f"world.{name}")
        if isinstance(obj, Graph) and name == "add_edge":
            def add_edge(it2, n2, *a, **k):
                g = dict(it2.p.ghost["wc"])
                g["edges"] = g["edges"] + [(a, k)]
                it2.p.ghost["wc"] = g
            return Builtin("Graph.add_edge", add_edge)
        if isinstance(obj, Ent):
            if name == "model_mock":
                return MM(obj)
            if name in ("full_id", "eid", "sid"):
                return Opaque(f"{obj.name}.{name}")
            if name == "triggered_by":
                return Builtin("Entity.triggered_by", lambda it2, n2, a: self.trig(a))
            raise Unsupported(f"entity.{name}")
        if isinstance(obj, MM) and name == "_factory":
            return Fac(obj.ent)
        if isinstance(obj, InitData) and name == "get":
            return Builtin("dict.get", lambda it2, n2, k, default=None: IData(k, default))
        if isinstance(obj, ErrList) and name == "append":
            def append(it2, n2, x, obj=obj):
                obj.n = obj.n + 1
            return Builtin("list.append", append)
        if isinstance(obj, AnySet) and name == "add":
            return Builtin("set.add", lambda it2, n2, x: None)
        return NotImplemented

    def truth(self, it, v):
        if isinstance(v, ErrList):
            return v.n > 0
        return NotImplemented

    def binop(self, it, name, a, b, node):
        if name == "add" and (isinstance(a, Opaque) or isinstance(b, Opaque)) and (isinstance(a, (str, Opaque)) and isinstance(b, (str, Opaque))):
            return Opaque("message")
        return NotImplemented

    def iter_plan(self, it, x):
        if getattr(x, "is_abstract_collection", False):
            return ("abstract", x)
        return NotImplemented

    def havoc_value(self, it, nm_, cur):
        if isinstance(cur, ErrList):
            n = it.p.fresh(nm_ + ".len", "int")
            it.p.assume(n >= 0)
            return ErrList(n)
        if isinstance(cur, AnySet):
            return AnySet()
        return NotImplemented

    def havoc_loop_heap(self, it, st, env):
        g = dict(it.p.ghost["wc"])
        g["cnt"] = it.p.fresh("calls", CntS)
        g["ok"] = it.p.fresh("calls.ok", "bool")
        it.p.ghost["wc"] = g
        return None


def configure(sess):
    ConnectModel(sess)
    extract.load_module("mosaik.scenario")


class WorldConnect(Contract):
    target = "mosaik.scenario.World.connect"
    property_ids = ["C11", "C01", "C02", "C03"]
    configure = "configure"

    def make_args(self, mk):
        m = mk.s.wcm
        mk.s.side_assumptions.append(N >= 0)
        mk.inputs["n_attr_pairs"] = ("int", N)
        return {"self": m.world, "src": m.src, "dest": m.dest, "attr_pairs": m.args, "async_requests": mk.bool("async_requests"),
                "time_shifted": Opaque("time_shifted"), "weak": Opaque("weak"), "initial_data": m.idata}

    def setup(self, p, A, mk):
        self._p = p
        self._m = mk.s.wcm
        mk.s.wcm.reset(p, A)

    def requires(self, A):
        return True

    def some_rejected(self):
        x = _c("x", Pair)
        return z3.Exists([x], And(given(x), fails(x)))

    def raise_allowed(self, A, e):
        if e.cls != "ScenarioError":
            return None
        return self.some_rejected()

    def _calls(self, g, A):
        x = _c("x", Pair)
        m = self._m
        asy = g["async"]
        async_ok = (len(asy) <= 1 and all(len(a) == 2 and not k and isinstance(a[0], Fac) and a[0].ent is m.src and isinstance(a[1], Fac)
                                          and a[1].ent is m.dest for a, k in asy))
        return {"every_given_pair_connected_exactly_once_and_nothing_else": z3.ForAll([x], g["cnt"][x] == z3.If(given(x), 1, 0)),
                "arguments_passed_on": g["ok"],
                "async_requests_connected_iff_asked": And(z3.BoolVal(bool(async_ok)), A.async_requests == z3.BoolVal(len(asy) == 1))}

    def split_post(self, A, result):
        g = self._p.ghost["wc"]
        out = self._calls(g, A)
        out["accepted_only_if_no_pair_was_rejected"] = Not(self.some_rejected())
        ed = g["edges"]
        out["entity_graph_edge_added_once"] = (len(ed) == 1 and not ed[0][1] and len(ed[0][0]) == 2
                                               and getattr(ed[0][0][0], "tag", "") == "src.full_id" and getattr(ed[0][0][1], "tag", "") == "dest.full_id")
        return out

    def raise_post(self, A, e):
        g = self._p.ghost["wc"]
        out = self._calls(g, A)
        out["no_entity_graph_edge_on_rejection"] = z3.BoolVal(len(g["edges"]) == 0)
        return And(*out.values())

    def _l0(self, k, v, A):
        g = v._i.p.ghost["wc"]
        seen = v.seen
        x = _c("x", Pair)
        return {"connected_exactly_the_processed_pairs": z3.ForAll([x], g["cnt"][x] == z3.If(seen[x], 1, 0)),
                "arguments_passed_on": g["ok"],
                "errors_iff_a_processed_pair_was_rejected": And(v.errors.n >= 0, (v.errors.n > 0) == z3.Exists([x], And(seen[x], fails(x)))),
                "nothing_else_yet": z3.BoolVal(len(g["async"]) == 0 and len(g["edges"]) == 0)}

    def _l1(self, k, v, A):
        g = v._i.p.ghost["wc"]
        out = self._calls(g, A)
        out["no_edge_yet"] = z3.BoolVal(len(g["edges"]) == 0)
        out["no_pair_rejected"] = Not(self.some_rejected())
        return out

    loops = {0: lambda c, k, v, A: c._l0(k, v, A), 1: lambda c, k, v, A: c._l1(k, v, A)}

    # ---- native: real World.connect in front of a recording connect_one
    def native_search(self, budget):
        pairs = ["x", ("x", "p"), ("x", "q"), ("y", "p"), ("y", "y")]
        import itertools
        for k in (1, 2, 3):
            for combo in itertools.product(range(len(pairs)), repeat=k):
                for bad in (None, 0, k - 1):
                    for asy in (False, True):
                        yield {"pairs": [pairs[i] for i in combo], "rejected_index": bad, "async_requests": asy}

    def native_call(self, m):
        if "pairs" not in m:
            return True, "symbolic counter-models are not replayed (the native search is)"
        import mosaik
        from mosaik.exceptions import ScenarioError
        from types import SimpleNamespace
        given_pairs = [tuple(p) if isinstance(p, (list, tuple)) else p for p in m["pairs"]]
        normal = [(p, p) if isinstance(p, str) else p for p in given_pairs]
        bad = normal[m["rejected_index"]] if m["rejected_index"] is not None else None
        w = mosaik.World({}, skip_greetings=True)
        calls, asyncs = [], []

        def connect_one(src, dest, src_attr, dest_attr, **kw):
            calls.append(((src_attr, dest_attr), kw))
            if (src_attr, dest_attr) == bad:
                raise ScenarioError("rejected")
        w.connect_one = connect_one
        w.connect_async_requests = lambda a, b: asyncs.append((a, b))
        fa, fb = object(), object()
        src = SimpleNamespace(sid="A-0", eid="a", full_id="A-0.a", model_mock=SimpleNamespace(_factory=fa), triggered_by=lambda a: False)
        dest = SimpleNamespace(sid="B-0", eid="b", full_id="B-0.b", model_mock=SimpleNamespace(_factory=fb), triggered_by=lambda a: True)
        try:
            try:
                w.connect(src, dest, *given_pairs, async_requests=m["async_requests"], time_shifted=2, weak=False, initial_data={"x": 5})
                raised = False
            except ScenarioError:
                raised = True
        finally:
            w.loop.close()
        what = f"World.connect(src, dest, {', '.join(map(repr, given_pairs))}, async_requests={m['async_requests']}) with connect_one rejecting {bad}"
        if sorted(c[0] for c in calls) != sorted(set(normal)):
            return False, f"{what}: connect_one called for {[c[0] for c in calls]}, expected exactly once for each of {sorted(set(normal))}"
        from mosaik.scenario import SENTINEL
        for (sa, da), kw in calls:
            exp_kw = {"time_shifted": 2, "weak": False, "initial_data": 5 if sa == "x" else SENTINEL}
            if kw != exp_kw:
                return False, f"{what}: connect_one({sa!r}, {da!r}) got {kw}, expected {exp_kw}"
        if raised != (bad is not None):
            return False, f"{what}: {'raised' if raised else 'no'} ScenarioError"
        if asyncs != ([(fa, fb)] if m["async_requests"] else []):
            return False, f"{what}: connect_async_requests calls {asyncs}"
        if w.entity_graph.has_edge("A-0.a", "B-0.b") == raised:
            return False, f"{what}: entity graph edge {'present after a rejection' if raised else 'missing'}"
        return True, what + ": ok"


CONTRACTS = [WorldConnect()]
