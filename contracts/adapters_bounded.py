"""Bounded stand-in for the string / in-process parts of C15 (see contracts/adapters_native.py)."""
from pyvc.bounded import NativeBounded


class ApiVersionsBounded(NativeBounded):
    property_ids = ["C15"]
    module = "contracts.adapters_native"
    func = "bounded_api_versions"
    what = "mosaik.proxies.extract_version / LocalProxy.init / version string parsing / adapters end to end"


BOUNDED = [ApiVersionsBounded()]
