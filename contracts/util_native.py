"""Bounded stand-in (native, exhaustive up to a stated bound) for mosaik.util.connect_randomly /
_connect_evenly / _connect_randomly / connect_many_to_one (C18).  `random.randint` and `random.shuffle`
are replaced by an enumeration of ALL their possible outcomes (every choice sequence / every permutation
per round), `world.connect` by a recorder."""
from __future__ import annotations
import itertools


class _Recorder:
    def __init__(self):
        self.calls = []

    def connect(self, src, dest, *attrs, **kw):
        self.calls.append((src, dest, attrs, kw))


class _Exhausted(Exception):
    pass


class _Choices:
    """replays a fixed prefix of choices, then always takes the first option and records the alternatives"""

    def __init__(self, prefix):
        self.prefix = list(prefix)
        self.taken = []
        self.arity = []

    def choose(self, n):
        i = len(self.taken)
        c = self.prefix[i] if i < len(self.prefix) else 0
        self.taken.append(c)
        self.arity.append(n)
        return c


def _all_runs(run):
    """enumerate every sequence of nondeterministic choices of run(choices)"""
    work = [[]]
    while work:
        prefix = work.pop()
        ch = _Choices(prefix)
        yield run(ch), list(ch.taken)
        for i in range(len(prefix), len(ch.taken)):
            for alt in range(1, ch.arity[i]):
                work.append(ch.taken[:i] + [alt])


def bounded_connect_helpers(tier, seed):
    import random
    import mosaik.util as U
    failures, cases, nontrivial = [], 0, 0
    max_src, max_dest = (5, 4) if tier == "thorough" else (4, 3)
    real_randint, real_shuffle = random.randint, random.shuffle
    perms_cache = {}
    try:
        for ns in range(0, max_src + 1):
            for nd in range(1, max_dest + 1):
                for evenly, mc in [(True, None)] + [(False, m) for m in (1, 2, 3, float("inf"))]:
                    if not evenly and ns > nd * mc:
                        continue
                    for kind in (("names", "entities") if ns <= 3 and nd <= 3 else ("names",)):

                        def run(ch, ns=ns, nd=nd, evenly=evenly, mc=mc, kind=kind):
                            def randint(a, b):
                                if b < a:
                                    raise ValueError("empty range for randrange()")
                                return a + ch.choose(b - a + 1)

                            def shuffle(lst):
                                n = len(lst)
                                if n not in perms_cache:
                                    perms_cache[n] = list(itertools.permutations(range(n)))
                                p = perms_cache[n][ch.choose(len(perms_cache[n]))]
                                lst[:] = [lst[i] for i in p]
                            random.randint, random.shuffle = randint, shuffle
                            U.random.randint, U.random.shuffle = randint, shuffle
                            rec = _Recorder()
                            if kind == "names":
                                src = [f"s{i}" for i in range(ns)]
                                dest = [f"d{i}" for i in range(nd)]
                            else:
                                # real Entity objects; destinations from two simulator instances with the SAME entity ids
                                from mosaik.scenario import Entity
                                src = [Entity("S-0", f"s{i}", "S", None, None) for i in range(ns)]
                                dest = [Entity("A-0" if i % 2 == 0 else "B-0", f"d{i // 2}", "D", None, None) for i in range(nd)]
                            dest_arg = list(dest)
                            try:
                                kw = {} if evenly else {"evenly": False, "max_connects": mc}
                                ret = U.connect_randomly(rec, src, dest_arg, "a", ("b", "c"), **kw)
                                err = None
                            except Exception as e:   # noqa: BLE001
                                ret, err = None, e
                            return rec, src, dest, dest_arg, ret, err

                        for (rec, src, dest, dest_arg, ret, err), taken in _all_runs(run):
                            cases += 1
                            nontrivial += 1 if ns >= 1 else 0
                            problems = []
                            if err is not None:
                                problems.append(f"raised {type(err).__name__}: {err}")
                            else:
                                per_src = {id(s_): [c for c in rec.calls if c[0] is s_] for s_ in src}
                                if any(len(v) != 1 for v in per_src.values()) or len(rec.calls) != len(src):
                                    problems.append(f"not every source connected exactly once: {[(c[0], c[1]) for c in rec.calls]}")
                                if any(not any(c[1] is d for d in dest) for c in rec.calls):
                                    problems.append("connected to something outside the destination set")
                                if any(c[2] != ("a", ("b", "c")) for c in rec.calls):
                                    problems.append("attribute pairs not passed on unchanged")
                                cnt = {i: sum(1 for c in rec.calls if c[1] is d) for i, d in enumerate(dest)}
                                if evenly and max(cnt.values()) - min(cnt.values()) > 1:
                                    problems.append(f"connections per destination differ by more than one: {cnt}")
                                if not evenly and max(cnt.values()) > mc:
                                    problems.append(f"a destination received more than max_connects={mc}: {cnt}")
                                if sorted(id(x) for x in ret) != sorted(id(dest[i]) for i, n in cnt.items() if n > 0) or len(ret) != len(set(map(id, ret))):
                                    problems.append(f"returned set {ret} is not the set of connected destinations {cnt}")
                                if len(dest_arg) != len(dest) or any(x is not y for x, y in zip(dest_arg, dest)):
                                    problems.append(f"the caller's destination list was modified: {dest_arg}")
                            if problems:
                                failures.append({"desc": f"connect_randomly({ns} sources, {len(dest)} destinations [{kind}], evenly={evenly}, "
                                                         f"max_connects={mc}) with random choices {taken}: " + "; ".join(problems),
                                                 "case": {"ns": ns, "nd": nd, "evenly": evenly, "max_connects": str(mc), "choices": taken}})
                                if len(failures) >= 5:
                                    return {"bound": _bound(max_src, max_dest), "cases": cases, "nontrivial": nontrivial, "failures": failures}
        # connect_many_to_one
        # (src_set is typed Iterable[Entity]: lists, tuples, sets and one-shot iterables alike)
        shapes = {"list": list, "tuple": tuple, "generator": lambda xs: (x for x in xs), "iterator": iter,
                  "filter": lambda xs: filter(None, xs), "dict keys": lambda xs: dict.fromkeys(xs).keys()}
        for ns in range(0, 4):
            for ar in (False, True):
                for kind, make in shapes.items():
                    cases += 1
                    rec = _Recorder()
                    names = [f"s{i}" for i in range(ns)]
                    try:
                        U.connect_many_to_one(rec, make(names), "d", "a", ("b", "c"), async_requests=ar)
                    except Exception as e:  # noqa: BLE001
                        rec.calls.append(("raised", repr(e)))
                    exp = [(s_, "d", ("a", ("b", "c")), {"async_requests": ar}) for s_ in names]
                    if rec.calls != exp:
                        failures.append({"desc": f"connect_many_to_one(<{kind} of {names}>, 'd', async_requests={ar}) made {rec.calls}, expected {exp}",
                                         "case": {"ns": ns, "async_requests": ar, "src_set": kind}})
    finally:
        random.randint, random.shuffle = real_randint, real_shuffle
        U.random.randint, U.random.shuffle = real_randint, real_shuffle
    return {"bound": _bound(max_src, max_dest), "cases": cases, "nontrivial": nontrivial, "failures": failures,
            "samples": [{"sources": 4, "destinations": 3, "evenly": True, "random_choices": "every permutation per round"},
                        {"sources": 3, "destinations": 3, "evenly": False, "max_connects": 1, "random_choices": "every randint outcome"}]}


def _bound(ms, md):
    return (f"0..{ms} sources x 1..{md} distinct destinations x (evenly | max_connects in 1, 2, 3, inf with enough capacity) x EVERY outcome "
            f"of random.randint / random.shuffle; connect_many_to_one for 0..3 sources given as list / tuple / generator / iterator / filter / dict keys")


# ------------------------------------------------------------------ native replay / small-scope search of the contracts
def check_case(fn, ns, nd, evenly=True, mc=None, max_runs=200000):
    """run the REAL function `fn` (one of connect_many_to_one, connect_randomly, _connect_evenly, _connect_randomly) for ns sources
    and nd distinct destinations under EVERY outcome of random.randint / random.shuffle and evaluate the contract's statements
    natively -> (holds, description of the first failing run)"""
    import random
    import mosaik.util as U
    real_randint, real_shuffle = random.randint, random.shuffle
    perms_cache = {}
    inf = float("inf")
    try:
        if fn == "connect_many_to_one":
            for ar in (False, True):
                for kind, make in (("list", list), ("tuple", tuple), ("generator", lambda xs: (x for x in xs))):
                    rec = _Recorder()
                    names = [f"s{i}" for i in range(ns)]
                    try:
                        r = U.connect_many_to_one(rec, make(names), "d", "a", ("b", "c"), async_requests=ar)
                    except Exception as e:  # noqa: BLE001
                        return False, f"connect_many_to_one(<{kind} of {names}>, 'd', async_requests={ar}) raised {type(e).__name__}: {e}"
                    exp = [(s_, "d", ("a", ("b", "c")), {"async_requests": ar}) for s_ in names]
                    if rec.calls != exp or r is not None:
                        return False, f"connect_many_to_one(<{kind} of {names}>, 'd', async_requests={ar}) made {rec.calls}, expected {exp}"
            return True, "connect_many_to_one ok"

        def run(ch):
            def randint(a, b):
                if b < a:
                    raise ValueError("empty range for randrange()")
                return a + ch.choose(b - a + 1)

            def shuffle(lst):
                n = len(lst)
                if n not in perms_cache:
                    perms_cache[n] = list(itertools.permutations(range(n)))
                p = perms_cache[n][ch.choose(len(perms_cache[n]))]
                lst[:] = [lst[i] for i in p]
            random.randint, random.shuffle = randint, shuffle
            U.random.randint, U.random.shuffle = randint, shuffle
            rec = _Recorder()
            src = [f"s{i}" for i in range(ns)]
            dest = [f"d{i}" for i in range(nd)]
            dest_arg = list(dest)
            try:
                if fn == "connect_randomly":
                    kw = {} if evenly else {"evenly": False, "max_connects": mc}
                    ret = U.connect_randomly(rec, src, dest_arg, "a", ("b", "c"), **kw)
                elif fn == "_connect_evenly":
                    ret = U._connect_evenly(rec, src, dest_arg, "a", ("b", "c"))
                else:
                    ret = U._connect_randomly(rec, src, dest_arg, "a", ("b", "c"), max_connects=mc)
                err = None
            except Exception as e:   # noqa: BLE001
                ret, err = None, e
            return rec, src, dest, dest_arg, ret, err

        is_even = evenly if fn == "connect_randomly" else (fn == "_connect_evenly")
        expect_assert = (nd == 0 and fn == "connect_randomly") or (not is_even and nd >= 1 and ns > nd * mc)
        runs = 0
        for (rec, src, dest, dest_arg, ret, err), taken in _all_runs(run):
            runs += 1
            if runs > max_runs:
                break
            what = f"{fn}({ns} sources, {nd} destinations, evenly={is_even}, max_connects={mc}) with random choices {taken}"
            if expect_assert:
                if not isinstance(err, AssertionError):
                    return False, f"{what}: AssertionError expected, got {err!r} / {len(rec.calls)} connections"
                continue
            if err is not None:
                return False, f"{what}: raised {type(err).__name__}: {err}"
            problems = []
            if [c[0] for c in rec.calls] != src:
                problems.append(f"not every source connected exactly once, in order: {[(c[0], c[1]) for c in rec.calls]}")
            if any(c[1] not in dest for c in rec.calls):
                problems.append("connected to something outside the destination set")
            if any(c[2] != ("a", ("b", "c")) or c[3] for c in rec.calls):
                problems.append("attribute pairs not passed on unchanged")
            cnt = {d: sum(1 for c in rec.calls if c[1] == d) for d in dest}
            if cnt and is_even and max(cnt.values()) - min(cnt.values()) > 1:
                problems.append(f"connections per destination differ by more than one: {cnt}")
            if cnt and not is_even and max(cnt.values()) > mc:
                problems.append(f"a destination received more than max_connects={mc}: {cnt}")
            if not isinstance(ret, set) or ret != {d for d, n in cnt.items() if n > 0}:
                problems.append(f"returned {ret!r} is not the set of connected destinations {cnt}")
            if fn == "connect_randomly" and dest_arg != dest:
                problems.append(f"the caller's destination list was modified: {dest_arg}")
            if problems:
                return False, what + ": " + "; ".join(problems)
        return True, f"{fn}({ns}, {nd}, evenly={is_even}, max_connects={mc}): {runs} runs ok"
    finally:
        random.randint, random.shuffle = real_randint, real_shuffle
        U.random.randint, U.random.shuffle = real_randint, real_shuffle


def case_of_model(fn, m):
    """map a counter-model of the contract (or a search case) to (ns, nd, evenly, mc); None if too large to enumerate"""
    if "case" in m:
        return m["case"]
    ns = (m.get("src") or {}).get("len")
    nd = (m.get("dest0") or {}).get("len")
    if not isinstance(ns, int) or not isinstance(nd, int):
        return None
    mc = float("inf") if m.get("inf") else m.get("max_connects")
    ev = bool(m.get("evenly", fn == "_connect_evenly"))
    if fn in ("_connect_randomly",) or (fn == "connect_randomly" and not ev):
        if not isinstance(mc, (int, float)):
            return None
    if ns > 5 or nd > 4 or ns < 0 or nd < 0:
        return None
    return [ns, nd, ev, mc]


def search_cases(fn, budget):
    if fn == "connect_many_to_one":
        for ns in range(0, 4):
            yield {"case": [ns, 1, True, None]}
        return
    lo = 0 if fn == "connect_randomly" else 1
    for ns in range(0, 5):
        for nd in range(lo, 4):
            if fn in ("connect_randomly", "_connect_evenly"):
                yield {"case": [ns, nd, True, None]}
            if fn in ("connect_randomly", "_connect_randomly"):
                for mc in (1, 2, 3, 0, float("inf")):
                    if mc == 0 and ns > 1:
                        continue
                    yield {"case": [ns, nd, False, mc]}
