"""Bounded stand-in for the whole-run clause of C04 (see contracts/determinism_native.py)."""
from pyvc.bounded import NativeBounded


class ConfigIndependenceBounded(NativeBounded):
    property_ids = ["C04", "C02", "C03", "C16", "C07", "C10", "C05"]
    module = "contracts.determinism_native"
    func = "bounded_config_independence"
    what = ("mosaik.scenario.World.run (whole run: two runs of one scenario compared; the baseline run of every ungrouped scenario also "
            "against a sequential reference semantics of C02/C03)")


BOUNDED = [ConfigIndependenceBounded()]
