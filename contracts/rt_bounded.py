"""Bounded stand-in for the whole-run real-time clauses of C17 (see contracts/rt_native.py)."""
from pyvc.bounded import NativeBounded


class RealtimePacingBounded(NativeBounded):
    property_ids = ["C17"]
    module = "contracts.rt_native"
    func = "bounded_realtime_pacing"
    what = "mosaik.scenario.World.run in real-time mode (whole runs on a virtual clock)"


BOUNDED = [RealtimePacingBounded()]
