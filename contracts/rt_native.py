"""Bounded stand-in for the whole-run clauses of C17 (real-time pacing): the REAL World / scheduler in real-time mode on a VIRTUAL
clock -- an asyncio event loop whose time() only advances when the loop would otherwise sleep (plus a fixed cost per loop iteration
and per clock reading), with mosaik.scheduler.perf_counter reading the same clock.  Deterministic, independent of the machine's
load, a whole run takes milliseconds.  Runs under /venv/bin/python.  Labelled bounded; nothing here is counted as proved.

Per run (in-process simulators that answer instantly):
  P1  a step for time t never begins before rt_factor * time_resolution * (t - 1) seconds after the start,
  P2  the run completes without an error (no internal error such as "cannot progress backwards"),
  P3  no step is reported as too slow -- EXCEPT the recorded findings, which are counted as known instances, not as failures:
        F17  the step for time 0 (deadline rt_factor * 0),
        F20  steps of a simulator with a non-time-shifted predecessor (it can only begin once the predecessor's progress has
             PASSED t, which the real-time cap allows at the deadline of t at the earliest: always late by the loop latency),
        and runs whose loop iteration costs more than a tick (the machine IS too slow then),
  P4  every simulator performs exactly its demanded steps.
"""
from __future__ import annotations
import asyncio
import sys
import types
import warnings


class VirtualClockLoop(asyncio.SelectorEventLoop):
    def __init__(self, iteration_cost=2.0 ** -24, reading_cost=2.0 ** -30, latency=2.0 ** -20):
        super().__init__()
        self.vtime = 0.0
        self.iterations = 0
        self.Q, self.R, self.LAT = iteration_cost, reading_cost, latency
        real_select = self._selector.select

        def select(timeout=None):
            if timeout is None:
                raise RuntimeError("virtual clock: nothing left to wait for (deadlock)")
            self.iterations += 1
            if self.iterations > 3000000:
                raise RuntimeError("virtual clock: the run does not come to an end")
            self.vtime += self.Q
            if timeout > 0:
                self.vtime += timeout + self.LAT
            return real_select(0)
        self._selector.select = select

    def time(self):
        self.vtime += self.R
        return self.vtime


SCENARIOS = {
    # name: (simulators {name: (type, step size)}, connections [(src, dest)], initial events {name: time})
    "two_unconnected": ({"A": ("time-based", 1), "B": ("time-based", 2)}, [], {"A": 1, "B": 1}),
    "three_unconnected_from_0": ({"A": ("time-based", 1), "B": ("time-based", 3), "C": ("hybrid", 2)}, [], {}),
    "idle_event_based": ({"A": ("time-based", 1), "E": ("event-based", 0)}, [], {"A": 1}),
    "chain": ({"A": ("time-based", 1), "B": ("time-based", 1)}, [("A", "B")], {"A": 1, "B": 1}),
    "triggered_consumer": ({"A": ("time-based", 2), "E": ("event-based", 0)}, [("A", "E")], {"A": 1}),
}
CLOCKS = {"fast_loop": 2.0 ** -24, "slow_loop_1ms": 0.001}
RATES = [(0.5, 1.0), (0.02, 0.02), (2.0, 0.25)]
UNTIL = 6


def run_rt(name, rt_factor, tr, iteration_cost, strict=False):
    import mosaik
    import mosaik.scheduler
    import mosaik_api_v3
    from loguru import logger
    warnings.simplefilter("ignore")
    sims, conns, initial = SCENARIOS[name]
    loop = VirtualClockLoop(iteration_cost)
    now = loop.time
    real_pc = mosaik.scheduler.perf_counter
    mosaik.scheduler.perf_counter = now
    msgs = []
    logger.remove()
    hid = logger.add(lambda m: msgs.append(m.record["message"]), level="WARNING")
    steps = {}
    real_check = mosaik.scheduler.rt_check
    reports = []

    def rt_check(*a, **k):
        sim = k.get("sim", a[-1])
        n0 = len(msgs)
        try:
            return real_check(*a, **k)
        finally:
            if any("too slow" in m for m in msgs[n0:]):
                reports.append((sim.sid, sim.last_step.time))
    mosaik.scheduler.rt_check = rt_check

    def mk(typ, step):
        class S(mosaik_api_v3.Simulator):
            def __init__(self):
                desc = {"public": True, "params": [], "attrs": ["x", "i"]}
                if typ == "hybrid":
                    desc["trigger"] = ["i"]
                super().__init__({"api_version": "3.0", "type": typ, "models": {"M": desc}})

            def init(self, sid, time_resolution=1.0, **kw):
                self.sid = sid
                return self.meta

            def create(self, num, model, **kw):
                return [{"eid": f"e{i}", "type": model} for i in range(num)]

            def step(self, t, inputs, max_advance):
                steps.setdefault(self.sid, []).append((t, now()))
                return None if typ == "event-based" else t + step

            def get_data(self, outputs):
                return {e: {a: 1 for a in at} for e, at in outputs.items()}
        return S
    mod = types.ModuleType("_rt_sims")
    sys.modules["_rt_sims"] = mod
    cfg = {}
    for n, (typ, step) in sims.items():
        setattr(mod, n, mk(typ, step))
        cfg[n] = {"python": f"_rt_sims:{n}"}
    w = mosaik.World(cfg, skip_greetings=True, time_resolution=tr)
    w.loop.close()
    w.loop = loop
    asyncio.set_event_loop(loop)
    err = None
    try:
        ents = {n: w.start(n).M() for n in sims}
        for a, b in conns:
            w.connect(ents[a], ents[b], ("x", "i"))
        for n, t0 in initial.items():
            w.set_initial_event(ents[n].sid, t0)
        try:
            w.run(until=UNTIL, rt_factor=rt_factor, rt_strict=strict, print_progress=False)
        except BaseException as e:  # noqa: BLE001
            if isinstance(e, (KeyboardInterrupt, SystemExit)):
                raise
            err = f"{type(e).__name__}: {e}"
    finally:
        mosaik.scheduler.perf_counter = real_pc
        mosaik.scheduler.rt_check = real_check
        logger.remove(hid)
        asyncio.set_event_loop(None)
        if not loop.is_closed():
            try:
                w.shutdown()
            except BaseException:  # noqa: BLE001
                pass
    return steps, reports, msgs, err


def expected_steps(name):
    sims, conns, initial = SCENARIOS[name]
    out = {}
    for n, (typ, step) in sims.items():
        if typ == "event-based":
            continue
        t0 = initial.get(n, 0)
        out[f"{n}-0"] = list(range(t0, UNTIL, step))
    for a, b in conns:          # trigger connections into event-based / hybrid consumers, persistent into time-based ones
        if sims[b][0] == "event-based":
            out[f"{b}-0"] = list(out[f"{a}-0"])
    return out


def has_direct_predecessor(name, sid):
    return any(f"{b}-0" == sid for _, b in SCENARIOS[name][1])


def judge(name, rt, tr, clock, steps, reports, err):
    """-> (failures, known instances)"""
    tick = rt * tr
    fails, known = [], []
    what = f"real-time run of scenario {name} with rt_factor={rt}, time_resolution={tr} ({clock}, until={UNTIL})"
    if err is not None:
        fails.append(f"{what}: ended with {err}")
    for sid, lst in steps.items():
        for t, v in lst:
            if v < tick * (t - 1) - 1e-9:
                fails.append(f"{what}: {sid} begins its step for time {t} after {v:.6f} s, before {tick * (t - 1):.6f} s")
    if err is None:
        got = {s: [t for t, _ in l] for s, l in steps.items()}
        exp = expected_steps(name)
        if {k: v for k, v in got.items() if v} != {k: v for k, v in exp.items() if v}:
            fails.append(f"{what}: steps {got}, demanded {exp}")
    for sid, t in reports:
        if t == 0:
            known.append(("F17", sid, t))
        elif has_direct_predecessor(name, sid):
            known.append(("F20", sid, t))
        elif CLOCKS[clock] >= tick:
            known.append(("machine slower than a tick", sid, t))
        else:
            fails.append(f"{what}: the step of {sid} for time {t} is reported as too slow although every simulator answers instantly")
    return fails, known


def bounded_realtime_pacing(tier, seed):
    failures, cases, known = [], 0, {}
    for name in SCENARIOS:
        for rt, tr in RATES:
            for clock, q in CLOCKS.items():
                cases += 1
                steps, reports, msgs, err = run_rt(name, rt, tr, q)
                fs, ks = judge(name, rt, tr, clock, steps, reports, err)
                for k in ks:
                    known[k[0]] = known.get(k[0], 0) + 1
                for f in fs:
                    failures.append({"desc": f, "case": {"scenario": name, "rt_factor": rt, "time_resolution": tr, "clock": clock}})
                if len(failures) >= 5:
                    break
    return {"bound": (f"{len(SCENARIOS)} scenarios (unconnected time-based / hybrid simulators, an idle event-based one, a chain, a triggered "
                      f"event-based consumer; instantly answering in-process simulators) x rt_factor, time_resolution in {RATES} x loop iteration "
                      f"cost {sorted(CLOCKS.values())} s on a virtual clock, until={UNTIL}"),
            "cases": cases, "nontrivial": cases, "failures": failures,
            "known_instances": {"finding": "F17 / F20", "count": sum(known.values()), "by_kind": known,
                                "classifier": "report for a step at time 0 (F17); report for a simulator with a non-time-shifted predecessor (F20); "
                                              "loop iteration cost >= one tick"}}


def finding_F20_consumer_always_late(m):
    """a consumer of a non-time-shifted connection is reported as too slow at EVERY step although all simulators answer instantly"""
    steps, reports, msgs, err = run_rt("chain", 0.5, 1.0, CLOCKS["fast_loop"])
    late = [(s, t) for s, t in reports if s == "B-0" and t >= 1]
    return bool(late), (f"chain A -> B (both time-based, step 1, instant answers), rt_factor=0.5 on a virtual clock with microsecond latency: "
                        f"B is reported as too slow at its steps {[t for _, t in late]} (A: {[t for s, t in reports if s == 'A-0']}); run error: {err}")


def finding_F19_rt_start_reset(m):
    """(fixed) the witness of F19: an idle event-based simulator next to a stepping one, loop iterations longer than a tick"""
    steps, reports, msgs, err = run_rt("idle_event_based", 0.02, 0.02, CLOCKS["slow_loop_1ms"])
    return err is not None, f"real-time run with an idle event-based simulator, tick 0.4 ms, loop iteration 1 ms: {err or 'completed'}"
