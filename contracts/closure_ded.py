"""Sidecar contract for World.cache_triggering_ancestors (mosaik/scenario.py) -- the worklist closure that computes, for
every simulator d and every triggering ancestor s, the SHORTEST delay over all trigger paths s ~> d (read by get_max_advance:
C07, and by advance_progress: C01 / C05).

What is proved on the real function (partial correctness, any number of simulators / ports / trigger connections, any order
in which the sets and dicts are walked, self-triggers included):

  SOUND    every entry triggering_ancestors[d][s] is the composed delay of some trigger path s ~> d
           (PathD is given by its two introduction rules only: a trigger edge is a path; a path extended by a trigger edge
           is a path with the delays composed -- so a proof of PathD holds in the least such relation)
  DIRECT   for every trigger edge m -> d with delay w: the entry [d][m] exists and is <= w
  CLOSED   for every trigger edge m -> d with delay w and every entry [m][s]: the entry [d][s] exists and is <= [m][s] + w
  and no KeyError / exception arises.

Lemmas closure_min_base / closure_min_step (induction over the path): DIRECT and CLOSED imply that the entry [d][s] exists and is
<= the delay of EVERY trigger path s ~> d; with SOUND it is the minimum over all trigger paths -- the statement the bounded
stand-in contracts.closure_native checks in small scope.

Model / assumptions (listed in the evidence):
  * simulators, ports and delays are uninterpreted sorts; delays carry `le` (reflexive, transitive, TOTAL) and the composition
    `plus`, monotone in its left argument.  Provenance: the C08 contracts and lemmas on mosaik/tiered_time.py (trichotomy,
    lt_transitive, comp_monotone_left) for delays of equal shape and cut-off; delays with different cut-offs between the same
    two simulators are the recorded findings F6 / F11 (TieredInterval.__lt__ may then raise "incomparable") and are excluded;
  * update_min is inlined from the real source (a is None -> b; a <= b -> None; else b);
  * sim.triggers maps ports to LISTS of (destination, delay) (walked by index, duplicates allowed); dicts and sets are walked in
    an arbitrary order, each key once; set.pop() returns an arbitrary member; "dictionary changed size during iteration" is
    not modelled (the only dict written while it is walked is the walked one in the self-trigger case, and then only at keys
    it already has);
  * at entry every triggering_ancestors dict is empty (SimRunner.__init__; World.run calls the function once);
  * termination of the while loop is not proved.
"""
from pyvc.contract import Contract, Lemma
from pyvc.spec import And, Or, Not, Implies, Iff
try:
    import z3
    from pyvc.values import SymSeq, Builtin, Unsupported, Opaque, is_z3, simp
    from pyvc import extract
except Exception:  # pragma: no cover  (native replay: no z3)
    z3 = None
    SymSeq = object

if z3 is not None:
    Sim = z3.DeclareSort("CSim")
    Port = z3.DeclareSort("CPort")
    D = z3.DeclareSort("CDelay")
    B, I = z3.BoolSort(), z3.IntSort()
    le = z3.Function("d_le", D, D, B)
    plus = z3.Function("d_plus", D, D, D)
    has_port = z3.Function("has_port", Sim, Port, B)
    plen = z3.Function("port_len", Sim, Port, I)
    pd = z3.Function("port_dest", Sim, Port, I, Sim)
    pw = z3.Function("port_delay", Sim, Port, I, D)
    PathD = z3.Function("PathD", Sim, Sim, D, B)
    DefS = z3.ArraySort(Sim, z3.ArraySort(Sim, B))
    ValS = z3.ArraySort(Sim, z3.ArraySort(Sim, D))
    SetS = z3.ArraySort(Sim, B)

_n = iter(range(1, 10 ** 9))


def _c(prefix, sort):
    return z3.Const(f"{prefix}!c{next(_n)}", sort)


def order_axioms():
    a, b, c = _c("a", D), _c("b", D), _c("c", D)
    return [z3.ForAll([a], le(a, a)),
            z3.ForAll([a, b, c], Implies(And(le(a, b), le(b, c)), le(a, c))),
            z3.ForAll([a, b], Or(le(a, b), le(b, a)))]


def path_axioms():
    m, p, s = _c("m", Sim), _c("p", Port), _c("s", Sim)
    i = _c("i", I)
    x = _c("x", D)
    e = And(has_port(m, p), i >= 0, i < plen(m, p))
    return [z3.ForAll([m, p, i], Implies(e, PathD(m, pd(m, p, i), pw(m, p, i)))),
            z3.ForAll([s, x, m, p, i], Implies(And(PathD(s, m, x), e), PathD(s, pd(m, p, i), plus(x, pw(m, p, i)))))]


def edges(f):
    """for all trigger edges (m, p, i): f(m, d, w)"""
    m, p, i = _c("m", Sim), _c("p", Port), _c("i", I)
    return z3.ForAll([m, p, i], Implies(And(has_port(m, p), i >= 0, i < plen(m, p)), f(m, pd(m, p, i), pw(m, p, i))))


def T(g, d, s):
    return g["def"][d][s]


def V(g, d, s):
    return g["val"][d][s]


def sound(g):
    d, s = _c("d", Sim), _c("s", Sim)
    return z3.ForAll([d, s], Implies(T(g, d, s), PathD(s, d, V(g, d, s))))


def direct_edge(g, m, d, w):
    return And(T(g, d, m), le(V(g, d, m), w))


def direct(g, only=None):
    return edges(lambda m, d, w: Implies(only(m) if only is not None else True, direct_edge(g, m, d, w)))


def closed_edge(g, m, d, w, s):
    return Implies(T(g, m, s), And(T(g, d, s), le(V(g, d, s), plus(V(g, m, s), w))))


def closed_edge_all(g, m, d, w):
    s = _c("s", Sim)
    return z3.ForAll([s], closed_edge(g, m, d, w, s))


def closed(g, cond):
    """for every trigger edge m -> d whose source satisfies cond(m): closed"""
    return edges(lambda m, d, w: Implies(cond(m), closed_edge_all(g, m, d, w)))


# -------------------------------------------------------------------------------------------------------- values
class WorldC:
    pass


class SimsDict:
    pass


class AllSims:
    is_abstract_collection = True
    key_sort = None

    def __init__(self):
        self.key_sort = Sim

    def arbitrary(self, it):
        return it.p.fresh("sim", Sim)

    def member(self, x):
        return z3.BoolVal(True)

    def key_of(self, item):
        return item


class TrigDict:
    def __init__(self, sim):
        self.sim = sim


class PortList(SymSeq):
    def __init__(self, sim, port):
        SymSeq.__init__(self, plen(sim, port), lambda i, sim=sim, port=port: (pd(sim, port, i), pw(sim, port, i)), "list")
        self.sim, self.port = sim, port


class PortsColl:
    is_abstract_collection = True

    def __init__(self, sim):
        self.sim = sim
        self.key_sort = Port

    def arbitrary(self, it):
        p = it.p.fresh("port", Port)
        it.p.assume(plen(self.sim, p) >= 0)
        return PortList(self.sim, p)

    def member(self, x):
        return has_port(self.sim, x)

    def key_of(self, item):
        return item.port


class TaDict:
    def __init__(self, sim):
        self.sim = sim


class TaItems:
    is_abstract_collection = True

    def __init__(self, it, sim):
        self.it, self.sim = it, sim
        self.key_sort = Sim

    def g(self):
        return self.it.p.ghost["cl"]

    def arbitrary(self, it):
        s = it.p.fresh("src", Sim)
        return (s, V(self.g(), self.sim, s))

    def member(self, x):
        return T(self.g(), self.sim, x)

    def key_of(self, item):
        return item[0]


class DirtySet:
    def __init__(self, arr):
        self.arr = arr


class ClosureModel:
    def __init__(self, sess):
        self.s = sess
        sess.models.insert(0, self)
        sess.clm = self
        self.world = WorldC()
        sess.builtins["set"] = Builtin("set", lambda it, node, x=None: self._set(it, x))

    def reset(self, p):
        p.ghost["cl"] = {"def": z3.K(Sim, z3.K(Sim, z3.BoolVal(False))), "val": _c("val0", ValS)}

    def _set(self, it, x):
        if x is None:
            return DirtySet(z3.K(Sim, z3.BoolVal(False)))
        raise Unsupported("set(iterable)")

    # ---- hooks
    def getattr(self, it, obj, name, node):
        if isinstance(obj, WorldC):
            if name == "sims":
                return SimsDict()
            raise Unsupported(f"world.{name}")
        if isinstance(obj, SimsDict) and name == "values":
            return Builtin("dict.values", lambda it2, n2: AllSims())
        if is_z3(obj) and obj.sort() == Sim:
            if name == "triggers":
                return TrigDict(obj)
            if name == "triggering_ancestors":
                return TaDict(obj)
            raise Unsupported(f"sim.{name}")
        if isinstance(obj, TrigDict) and name == "values":
            return Builtin("dict.values", lambda it2, n2, obj=obj: PortsColl(obj.sim))
        if isinstance(obj, TaDict):
            if name == "get":
                def get(it2, n2, k, default=None, obj=obj):
                    g = it2.p.ghost["cl"]
                    if it2.decide(T(g, obj.sim, k)):
                        return V(g, obj.sim, k)
                    return default
                return Builtin("dict.get", get)
            if name == "items":
                return Builtin("dict.items", lambda it2, n2, obj=obj: TaItems(it2, obj.sim))
            raise Unsupported(f"dict.{name}")
        if isinstance(obj, DirtySet):
            if name == "add":
                def add(it2, n2, x, obj=obj):
                    obj.arr = z3.Store(obj.arr, x, True)
                return Builtin("set.add", add)
            if name == "pop":
                def pop(it2, n2, obj=obj):
                    x = it2.p.fresh("popped", Sim)
                    e = _c("e", Sim)
                    it2.check_raise(Not(z3.Exists([e], obj.arr[e])), "KeyError", n2, "pop from an empty set")
                    it2.p.assume(obj.arr[x])
                    obj.arr = z3.Store(obj.arr, x, False)
                    return x
                return Builtin("set.pop", pop)
            raise Unsupported(f"set.{name}")
        return NotImplemented

    def setitem(self, it, obj, idx, v, node):
        if isinstance(obj, TaDict):
            if not (is_z3(v) and v.sort() == D and is_z3(idx) and idx.sort() == Sim):
                raise Unsupported("triggering_ancestors[...] = something that is not a delay")
            g = dict(it.p.ghost["cl"])
            g["def"] = z3.Store(g["def"], obj.sim, z3.Store(g["def"][obj.sim], idx, True))
            g["val"] = z3.Store(g["val"], obj.sim, z3.Store(g["val"][obj.sim], idx, v))
            it.p.ghost["cl"] = g
            return True
        return NotImplemented

    def truth(self, it, v):
        if isinstance(v, DirtySet):
            e = _c("e", Sim)
            return z3.Exists([e], v.arr[e])
        return NotImplemented

    def iter_plan(self, it, x):
        if getattr(x, "is_abstract_collection", False):
            return ("abstract", x)
        return NotImplemented

    def binop(self, it, name, a, b, node):
        if name == "add" and is_z3(a) and is_z3(b) and a.sort() == D and b.sort() == D:
            return plus(a, b)
        return NotImplemented

    def order(self, it, name, a, b, node):
        if is_z3(a) and is_z3(b) and a.sort() == D and b.sort() == D:
            return {"le": le(a, b), "ge": le(b, a), "lt": Not(le(b, a)), "gt": Not(le(a, b))}[name]
        return NotImplemented

    def is_none(self, it, v):
        if is_z3(v) and v.sort() == D:
            return False
        return NotImplemented

    def identical(self, it, a, b):
        for x, y in ((a, b), (b, a)):
            if is_z3(x) and x.sort() == D and y is None:
                return False
        return NotImplemented

    def havoc_value(self, it, nm, cur):
        if isinstance(cur, DirtySet):
            return DirtySet(it.p.fresh(nm, SetS))
        return NotImplemented

    def havoc_loop_heap(self, it, st, env):
        it.p.ghost["cl"] = {"def": it.p.fresh("ta.def", DefS), "val": it.p.fresh("ta.val", ValS)}
        return None


def configure(sess):
    ClosureModel(sess)
    extract.load_module("mosaik.scenario")


class CacheTriggeringAncestors(Contract):
    target = "mosaik.scenario.World.cache_triggering_ancestors"
    property_ids = ["C01", "C02", "C05", "C07"]
    configure = "configure"

    def make_args(self, mk):
        self._st = {}
        return {"self": mk.s.clm.world}

    def setup(self, p, A, mk):
        self._p = p
        mk.s.clm.reset(p)
        for ax in order_axioms() + path_axioms():
            p.assume(ax)

    def requires(self, A):
        return True

    # ---- first loop nest: direct trigger edges
    def _keys_dirty(self, g, dirty):
        d, s = _c("d", Sim), _c("s", Sim)
        return z3.ForAll([d, s], Implies(T(g, d, s), dirty.arr[d]))

    def _l0(self, k, v, A):
        g = v._i.p.ghost["cl"]
        self._st[0] = v.seen
        seen = v.seen
        return {"sound": sound(g), "has_entry_means_dirty": self._keys_dirty(g, v.dirty),
                "direct_for_processed_simulators": direct(g, lambda m: seen[m])}

    def _l1(self, k, v, A):
        g = v._i.p.ghost["cl"]
        self._st[1] = v.seen
        seen0, seen1, sim = self._st[0], v.seen, v.sim
        m, p, i = _c("m", Sim), _c("p", Port), _c("i", I)
        return {"sound": sound(g), "has_entry_means_dirty": self._keys_dirty(g, v.dirty),
                "direct_for_processed_simulators": direct(g, lambda m_: seen0[m_]),
                "direct_for_processed_ports": z3.ForAll([p, i], Implies(And(has_port(sim, p), seen1[p], i >= 0, i < plen(sim, p)),
                                                                        direct_edge(g, sim, pd(sim, p, i), pw(sim, p, i))))}

    def _l2(self, k, v, A):
        g = v._i.p.ghost["cl"]
        seen0, seen1, sim, port = self._st[0], self._st[1], v.sim, v.port_triggers.port
        p, i = _c("p", Port), _c("i", I)
        return {"sound": sound(g), "has_entry_means_dirty": self._keys_dirty(g, v.dirty),
                "direct_for_processed_simulators": direct(g, lambda m_: seen0[m_]),
                "direct_for_processed_ports": z3.ForAll([p, i], Implies(And(has_port(sim, p), seen1[p], i >= 0, i < plen(sim, p)),
                                                                        direct_edge(g, sim, pd(sim, p, i), pw(sim, p, i)))),
                "direct_for_processed_entries": z3.ForAll([i], Implies(And(i >= 0, i < k),
                                                                       direct_edge(g, sim, pd(sim, port, i), pw(sim, port, i))))}

    # ---- worklist
    def _l3(self, k, v, A):
        g = v._i.p.ghost["cl"]
        dirty = v.dirty
        return {"sound": sound(g), "direct": direct(g), "closed_unless_dirty": closed(g, lambda m: Not(dirty.arr[m]))}

    def _inner_common(self, g, v):
        dirty, sim = v.dirty, v.sim
        return {"sound": sound(g), "direct": direct(g),
                "others_closed_unless_dirty": closed(g, lambda m: And(m != sim, Not(dirty.arr[m])))}

    def _ports_done(self, g, v, seen4):
        sim = v.sim
        p, i = _c("p", Port), _c("i", I)
        return Implies(Not(v.dirty.arr[sim]),
                       z3.ForAll([p, i], Implies(And(has_port(sim, p), seen4[p], i >= 0, i < plen(sim, p)),
                                                 closed_edge_all(g, sim, pd(sim, p, i), pw(sim, p, i)))))

    def _entries_done(self, g, v, k):
        sim, port = v.sim, v.port_triggers.port
        i = _c("i", I)
        return Implies(Not(v.dirty.arr[sim]),
                       z3.ForAll([i], Implies(And(i >= 0, i < k), closed_edge_all(g, sim, pd(sim, port, i), pw(sim, port, i)))))

    def _l4(self, k, v, A):
        g = v._i.p.ghost["cl"]
        self._st[4] = v.seen
        inv = self._inner_common(g, v)
        inv["processed_ports_closed_unless_requeued"] = self._ports_done(g, v, v.seen)
        return inv

    def _l5(self, k, v, A):
        g = v._i.p.ghost["cl"]
        self._st[5] = k
        inv = self._inner_common(g, v)
        inv["processed_ports_closed_unless_requeued"] = self._ports_done(g, v, self._st[4])
        inv["processed_entries_closed_unless_requeued"] = self._entries_done(g, v, k)
        return inv

    def _l6(self, k, v, A):
        g = v._i.p.ghost["cl"]
        sim, seen6 = v.sim, v.seen
        inv = self._inner_common(g, v)
        inv["processed_ports_closed_unless_requeued"] = self._ports_done(g, v, self._st[4])
        inv["processed_entries_closed_unless_requeued"] = self._entries_done(g, v, self._st[5])
        s = _c("s", Sim)
        inv["processed_ancestors_closed_unless_requeued"] = Implies(
            Not(v.dirty.arr[sim]),
            z3.ForAll([s], Implies(seen6[s], closed_edge(g, sim, v.dest_sim, v.mid_to_dest, s))))
        inv["current_edge"] = And(has_port(sim, v.port_triggers.port), v.dest_sim == pd(sim, v.port_triggers.port, self._st[5]),
                                  v.mid_to_dest == pw(sim, v.port_triggers.port, self._st[5]),
                                  self._st[5] >= 0, self._st[5] < plen(sim, v.port_triggers.port))
        return inv

    loops = {0: lambda c, k, v, A: c._l0(k, v, A), 1: lambda c, k, v, A: c._l1(k, v, A), 2: lambda c, k, v, A: c._l2(k, v, A),
             3: lambda c, k, v, A: c._l3(k, v, A), 4: lambda c, k, v, A: c._l4(k, v, A), 5: lambda c, k, v, A: c._l5(k, v, A),
             6: lambda c, k, v, A: c._l6(k, v, A)}

    def split_post(self, A, result):
        g = self._p.ghost["cl"]
        return {"SOUND_every_entry_is_the_delay_of_a_trigger_path": sound(g),
                "DIRECT_every_trigger_edge_has_an_entry_not_above_its_delay": direct(g),
                "CLOSED_under_extension_by_a_trigger_edge": closed(g, lambda m: z3.BoolVal(True))}


    # ---- native: the exhaustive small-scope family of the stand-in (real World / SimRunner objects, real TieredIntervals)
    def native_search(self, budget):
        yield {"family": "contracts.closure_native.bounded_triggering_ancestors (quick bound)"}

    def native_call(self, m):
        from contracts.closure_native import bounded_triggering_ancestors
        r = bounded_triggering_ancestors("quick", 0)
        if r["failures"]:
            return False, r["failures"][0]["desc"]
        return True, f"{r['cases']} small scenarios: triggering_ancestors is the minimum over all trigger paths"


CONTRACTS = [CacheTriggeringAncestors()]


# ---------------------------------------------------------------------------------------------------------- lemmas
class _ML(Lemma):
    property_ids = ["C01", "C02", "C05", "C07"]

    def native_check(self, m):
        return True, "lemma over the specification (no code)"


def _mono_left():
    a, b, w = _c("a", D), _c("b", D), _c("w", D)
    return z3.ForAll([a, b, w], Implies(le(a, b), le(plus(a, w), plus(b, w))))


class ClosureMinBase(_ML):
    """a one-edge path: DIRECT gives an entry not above the edge's delay"""
    name = "closure_min_base"

    def statement(self, mk):
        g = {"def": z3.Const("ta.def", DefS), "val": z3.Const("ta.val", ValS)}
        m, p, i = z3.Const("m", Sim), z3.Const("p", Port), z3.Int("i")
        hyps = order_axioms() + [direct(g), has_port(m, p), i >= 0, i < plen(m, p)]
        d, w = pd(m, p, i), pw(m, p, i)
        return hyps, And(T(g, d, m), le(V(g, d, m), w))


class ClosureMinStep(_ML):
    """a path s ~> m with delay x for which the entry [m][s] exists and is <= x, extended by a trigger edge m -> d with delay w:
    the entry [d][s] exists and is <= x + w (CLOSED, transitivity, composition monotone in its left argument)"""
    name = "closure_min_step"

    def statement(self, mk):
        g = {"def": z3.Const("ta.def", DefS), "val": z3.Const("ta.val", ValS)}
        s, m, p, i = z3.Const("s", Sim), z3.Const("m", Sim), z3.Const("p", Port), z3.Int("i")
        x = z3.Const("x", D)
        d, w = pd(m, p, i), pw(m, p, i)
        hyps = order_axioms() + [_mono_left(), closed(g, lambda m_: z3.BoolVal(True)), has_port(m, p), i >= 0, i < plen(m, p),
                                 T(g, m, s), le(V(g, m, s), x)]
        return hyps, And(T(g, d, s), le(V(g, d, s), plus(x, w)))


LEMMAS = [ClosureMinBase(), ClosureMinStep()]
