"""Bounded stand-in for the whole-run clause of C04 (no function contract can state a relation between two
runs): the REAL World / scheduler is run on a family of small scenarios with deterministic in-process
simulators, and the per-simulator sequence of (time, inputs) is compared between a baseline run and runs that
differ in
    * lazy_stepping on / off,   * the data cache on / off,   * debug mode on / off,
    * the order of the world.start() calls,
    * the interleaving: a simulator's step() is a generator that yields k times to the event loop
      (LocalProxy.send awaits what it yields), k chosen per simulator.
Runs under /venv/bin/python.  Labelled bounded; nothing here is counted as proved.

A cache-on / cache-off difference that disappears when prune_dataflow_cache is switched off in the harness is an
instance of the recorded finding F4 (prune drops an entry that is still needed): it is counted under
known_instances, not as a failure; every other difference is a failure.
"""
from __future__ import annotations
import asyncio
import itertools
import json


def _meta(typ):
    m = {"api_version": "3.0", "type": typ, "models": {"M": {"public": True, "params": [], "attrs": ["x", "ev", "in1", "in2"]}}}
    if typ == "hybrid":
        m["models"]["M"]["trigger"] = ["in2"]
        m["models"]["M"]["non-persistent"] = ["ev"]
    return m


PROMISES = {}     # role -> [(step time, max_advance)] of the run in progress (C07)
RUN = {"world": None, "lazy": False, "violations": []}


def _check_lazy(sid, time):
    """C10 observed at the BEGIN of a step of the real run (lazy_stepping on): no simulator this one feeds still has a step
    earlier than `time` outstanding (scheduled or in progress)"""
    w = RUN["world"]
    if w is None or not RUN["lazy"]:
        return
    me = w.sims[sid]
    for c in me.successors:
        late = [t.time for t in c.next_steps if t.time < time]
        if c.current_step is not None and c.current_step.time < time:
            late.append(c.current_step.time)
        if late:
            RUN["violations"].append(f"{sid} begins its step at {time} while its consumer {c.sid} still has a step at {min(late)} outstanding")


def promise_violations(name):
    """C07 on the run just finished: m <= until; m == until for a simulator without trigger inputs; and a simulator stepped
    at t with max_advance m is not stepped in (t, m] unless by its own schedule (the test simulators schedule t + step)"""
    sims, conns, groups = SCENARIOS[name][:3]
    out = []
    for r, seq in PROMISES.items():
        spec = sims[r]
        triggered = any(d == r and (spec["type"] == "event-based" or (spec["type"] == "hybrid" and da in _meta("hybrid")["models"]["M"]["trigger"]))
                        for s_, d, sa, da, kw in conns)
        for i, (t, m) in enumerate(seq):
            if m > UNTIL:
                out.append(f"{r} at {t}: max_advance {m} exceeds until={UNTIL}")
            if not triggered and m != UNTIL:
                out.append(f"{r} at {t}: max_advance {m} although the simulator has no trigger inputs (until={UNTIL})")
            if i + 1 < len(seq):
                t2 = seq[i + 1][0]
                own = spec["type"] != "event-based" and t2 == t + spec["step"]
                if t < t2 <= m and not own:
                    out.append(f"{r} was promised max_advance={m} at its step {t} and was stepped at {t2} from outside")
    return out


def behave(spec, st, time, inputs):
    """the deterministic behaviour of a test simulator: new state and the value returned by step()"""
    s = 0
    for attrs in inputs.values():
        for vals in attrs.values():
            for v in vals.values():
                s += v if isinstance(v, int) else 0
    st = {"val": (s + time + 1) % 7, "time": time, "count": st["count"] + 1}
    if "self_steps" in spec:
        # announces the next of a fixed list of self-step times (the same one again when stepped in between by a trigger)
        later = [x for x in spec["self_steps"] if x > time]
        return st, (min(later) if later else None)
    return st, (None if spec["type"] == "event-based" else time + spec["step"])


def produce(spec, st, attrs):
    """the values get_data() yields for the requested attributes, and the output time"""
    d = {}
    for a in attrs:
        if a == "x":
            d[a] = st["val"]
        elif a == "ev" and "ev_at" in spec:
            if st["time"] in spec["ev_at"]:
                d[a] = st["val"]
        elif a == "ev" and st["val"] % 2 == 0 and st["count"] <= spec.get("max_events", 99):
            d[a] = st["val"]
    return d, (st["time"] if spec["type"] == "time-based" else st["time"] + spec.get("out_shift", 0))


def make_sim_class(trace, spec, yields):
    import mosaik_api_v3

    class Sim(mosaik_api_v3.Simulator):
        def __init__(self):
            super().__init__(_meta(spec["type"]))
            self.st = {"val": 0, "time": -1, "count": 0}

        def init(self, sid, time_resolution=1.0, **kw):
            self.sid = sid
            return self.meta

        def create(self, num, model, **kw):
            return [{"eid": f"e{i}", "type": model} for i in range(num)]

        def step(self, time, inputs, max_advance):
            _check_lazy(self.sid, time)
            for _ in range(yields):
                yield asyncio.sleep(0)
            trace.append((time, json.dumps(inputs, sort_keys=True)))
            PROMISES.setdefault(self.sid.split("-")[0], []).append((time, max_advance))
            self.st, nxt = behave(spec, self.st, time, inputs)
            if spec.get("agent_of") and time % 2 == 0:
                # an agent with an async_requests connection from its plant: sends a set-point back during its step
                yield self.mosaik.set_data({f"{self.sid}.e0": {f"{spec['agent_of']}-0.e0": {"in2": self.st["val"]}}})
            return nxt

        def get_data(self, outputs):
            for _ in range(yields):
                yield asyncio.sleep(0)          # (a generator: LocalProxy.send awaits what it yields -- get_data suspends as well)
            out = {}
            t = None
            for eid, attrs in outputs.items():
                d, t = produce(spec, self.st, attrs)
                if d:
                    out[eid] = d
            if spec["type"] != "time-based":
                out["time"] = self.st["time"] + spec.get("out_shift", 0)
            return out
    return Sim


def reference_traces(name):
    """C02 + C03 as an executable specification for UNGROUPED scenarios (integer times): simulators are processed
    time by time, at one time in the order of the non-shifted connections (a consumer after its producers).
      steps (C02): time 0 for time-based / hybrid; every returned next-step time < until; every delayed output time
        < until of a value delivered to a trigger input -- each exactly once;
      inputs (C03): persistent output -> the most recent value whose delayed output time is <= t (the declared initial
        data until there is one, else None); non-persistent output -> each value exactly once, at the first step at
        or after its delayed output time.
    Returns None for scenarios with groups (tiered time is not modelled by this reference)."""
    sims, conns, groups = SCENARIOS[name][:3]
    if groups:
        return None
    roles = list(sims)
    # order within one time: producers before consumers along connections without time shift
    order, left = [], set(roles)
    while left:
        free = sorted(r for r in left if not any(d == r and s in left and s != r and not kw.get("time_shifted") for s, d, _, _, kw in conns))
        if not free:
            return None
        order += free
        left -= set(free)

    def is_trigger(dest, attr):
        t = sims[dest]["type"]
        return t == "event-based" or (t == "hybrid" and attr in _meta("hybrid")["models"]["M"]["trigger"])

    def is_persistent(src, attr):
        t = sims[src]["type"]
        return t == "time-based" or (t == "hybrid" and attr not in _meta("hybrid")["models"]["M"]["non-persistent"])

    state = {r: {"val": 0, "time": -1, "count": 0} for r in roles}
    demand = {r: ({0} if sims[r]["type"] != "event-based" else set()) for r in roles}
    for r, t0 in (SCENARIOS[name][3] if len(SCENARIOS[name]) > 3 else {}).get("initial_events", {}).items():
        demand[r] = {t0} if t0 < UNTIL else set()       # World.set_initial_event REPLACES the default first step
    produced = {r: [] for r in roles}            # [(output time, {attr: value})]
    pending_events = []                          # [due time, dest, dest attr, src full id, value]
    set_data = {}                                # addressee -> {(attr, sender full id): value} not yet delivered
    traces = {r: [] for r in roles}
    for t in range(UNTIL):
        for r in order:
            if t not in demand[r]:
                continue
            inputs = {}
            for s, d, sa, da, kw in conns:
                if d != r:
                    continue
                shift = int(kw.get("time_shifted") or 0)
                if is_persistent(s, sa):
                    due = [(ot, vals[sa]) for ot, vals in produced[s] if sa in vals and ot + shift <= t]
                    if due:
                        val = max(due, key=lambda x: x[0])[1]
                    else:
                        val = (kw.get("initial_data") or {}).get(sa)
                    inputs.setdefault("e0", {}).setdefault(da, {})[f"{s}-0.e0"] = val
            for (attr, src_full), val in sorted(set_data.pop(r, {}).items()):      # C16: exactly once, in the next step
                inputs.setdefault("e0", {}).setdefault(attr, {})[src_full] = val
            for ev in sorted(pending_events, key=lambda e: e[0]):
                if ev[1] == r and ev[0] <= t:
                    inputs.setdefault("e0", {}).setdefault(ev[2], {})[ev[3]] = ev[4]
            pending_events[:] = [ev for ev in pending_events if not (ev[1] == r and ev[0] <= t)]
            traces[r].append((t, json.dumps(inputs, sort_keys=True)))
            state[r], nxt = behave(sims[r], state[r], t, inputs)
            if sims[r].get("agent_of") and t % 2 == 0:
                set_data.setdefault(sims[r]["agent_of"], {})[("in2", f"{r}-0.e0")] = state[r]["val"]
            if nxt is not None and nxt < UNTIL:
                demand[r].add(nxt)
            wanted = sorted({sa for s, d, sa, da, kw in conns if s == r})
            vals, ot = produce(sims[r], state[r], wanted)
            if wanted:
                produced[r].append((ot, vals))
            for s, d, sa, da, kw in conns:
                if s != r or sa not in vals:
                    continue
                due = ot + int(kw.get("time_shifted") or 0)
                if not is_persistent(r, sa):
                    pending_events.append([due, d, da, f"{r}-0.e0", vals[sa]])
                if is_trigger(d, da) and due < UNTIL:
                    demand[d].add(due)
    return traces


# name: (simulators {role: spec}, connections [(src, dest, src_attr, dest_attr, kwargs)], groups [[roles]])
SCENARIOS = {
    "chain_1_1": ({"A": {"type": "time-based", "step": 1}, "B": {"type": "time-based", "step": 1}},
                  [("A", "B", "x", "in1", {})], []),
    "chain_2_1": ({"A": {"type": "time-based", "step": 2}, "B": {"type": "time-based", "step": 1}},
                  [("A", "B", "x", "in1", {})], []),
    "chain_1_3": ({"A": {"type": "time-based", "step": 1}, "B": {"type": "time-based", "step": 3}},
                  [("A", "B", "x", "in1", {})], []),
    "diamond": ({"A": {"type": "time-based", "step": 1}, "B": {"type": "time-based", "step": 1}, "C": {"type": "time-based", "step": 2}},
                [("A", "B", "x", "in1", {}), ("B", "C", "x", "in1", {}), ("A", "C", "x", "in2", {})], []),
    "shifted_loop": ({"A": {"type": "time-based", "step": 1}, "B": {"type": "time-based", "step": 2}},
                     [("A", "B", "x", "in1", {}), ("B", "A", "x", "in1", {"time_shifted": True, "initial_data": {"x": 3}})], []),
    "events": ({"A": {"type": "hybrid", "step": 1}, "E": {"type": "event-based"}},
               [("A", "E", "ev", "in1", {})], []),
    "events_and_data": ({"A": {"type": "hybrid", "step": 2}, "H": {"type": "hybrid", "step": 3}, "B": {"type": "time-based", "step": 1}},
                        [("A", "H", "ev", "in2", {}), ("A", "H", "x", "in1", {}), ("H", "B", "x", "in1", {})], []),
    "weak_group": ({"A": {"type": "hybrid", "step": 2}, "E": {"type": "event-based", "max_events": 2}, "F": {"type": "event-based", "max_events": 2}},
                   [("A", "E", "ev", "in1", {}), ("E", "F", "ev", "in1", {}), ("F", "E", "ev", "in2", {"weak": True})], [["E", "F"]]),
    "double_connection": ({"A": {"type": "time-based", "step": 1}, "B": {"type": "time-based", "step": 1}},
                          [("A", "B", "x", "in2", {"time_shifted": True, "initial_data": {"x": 5}}), ("A", "B", "x", "in1", {})], []),
    "explicit_output_time": ({"A": {"type": "hybrid", "step": 2, "out_shift": 1}, "B": {"type": "time-based", "step": 1}},
                             [("A", "B", "x", "in1", {})], []),
    "event_to_time_based": ({"A": {"type": "hybrid", "step": 1}, "B": {"type": "time-based", "step": 2}},
                            [("A", "B", "ev", "in1", {})], []),
    "shifted_event": ({"A": {"type": "hybrid", "step": 1}, "E": {"type": "event-based"}, "B": {"type": "time-based", "step": 1}},
                      [("A", "E", "ev", "in1", {"time_shifted": True}), ("E", "B", "x", "in1", {})], []),
    "async_agent": ({"A": {"type": "time-based", "step": 1}, "B": {"type": "time-based", "step": 1, "agent_of": "A"}},
                    [("A", "B", "x", "in1", {"async_requests": True})], []),
    "async_agent_slow_plant": ({"A": {"type": "time-based", "step": 2}, "B": {"type": "time-based", "step": 1, "agent_of": "A"}},
                               [("A", "B", "x", "in1", {"async_requests": True})], []),
    "mixed_attr": ({"A": {"type": "time-based", "step": 1}, "H": {"type": "hybrid", "step": 1}, "B": {"type": "time-based", "step": 1}},
                   [("A", "B", "x", "in1", {}), ("H", "B", "ev", "in1", {})], []),
    "double_trigger": ({"A": {"type": "hybrid", "step": 1}, "E": {"type": "event-based"}},
                       [("A", "E", "ev", "in1", {}), ("A", "E", "ev", "in2", {"time_shifted": True})], []),
    "shift2": ({"A": {"type": "hybrid", "step": 1}, "E": {"type": "event-based"}, "B": {"type": "time-based", "step": 1}},
               [("A", "E", "ev", "in1", {"time_shifted": 2}), ("A", "B", "x", "in1", {"time_shifted": 2, "initial_data": {"x": 6}})], []),
    "initial_event": ({"A": {"type": "time-based", "step": 2}, "E": {"type": "event-based"}, "B": {"type": "time-based", "step": 1}},
                      [("A", "B", "x", "in1", {})], [], {"initial_events": {"A": 3, "E": 2}}),
    # an event-based source that is never triggered, with a consumer (nothing steps but the consumer)
    "idle_event_source": ({"E": {"type": "event-based"}, "B": {"type": "time-based", "step": 1}},
                          [("E", "B", "x", "in1", {})], []),
    # C announces its next self-step (5) at 0, is triggered in between (2) by T; F's next step is 5 as well (lazy stepping: F waits for C)
    "trigger_before_self_step": ({"T": {"type": "hybrid", "step": 1, "ev_at": [2]}, "C": {"type": "hybrid", "step": 5, "self_steps": [5]},
                                  "F": {"type": "time-based", "step": 5}},
                                 [("T", "C", "ev", "in2", {}), ("F", "C", "x", "in1", {})], []),
    # H has a self-step queued (6) and is triggered earlier by events stamped with a future time; at the triggered steps it
    # announces another next step (t + 3, before until): the queued one stays demanded
    "self_step_and_future_trigger": ({"A": {"type": "hybrid", "step": 1, "out_shift": 1, "ev_at": [0, 3]}, "H": {"type": "hybrid", "step": 3}},
                                     [("A", "H", "ev", "in2", {})], []),
    "slow_producer_shifted": ({"A": {"type": "time-based", "step": 5}, "B": {"type": "time-based", "step": 1}},
                              [("A", "B", "x", "in1", {"time_shifted": True, "initial_data": {"x": 0}})], []),
}
UNTIL = 7
WATCHDOG_S = 8
BASE = {"lazy": True, "cache": True, "debug": False}


def run_once(name, cfg, order, yields, prune=True):
    """-> {role: [(time, inputs json)]} or ('error', text)"""
    import mosaik
    from mosaik import scheduler
    sims, conns, groups = SCENARIOS[name][:3]
    traces = {r: [] for r in sims}
    PROMISES.clear()
    sim_config = {}
    for r, spec in sims.items():
        sim_config[r] = {"python": make_sim_class(traces[r], spec, yields.get(r, 0))}
    # the in-process start looks the class up by 'module:Class': hand over the objects through a module
    import types
    import sys
    mod = types.ModuleType("_c04_sims")
    for r in sims:
        setattr(mod, r, sim_config[r]["python"])
        sim_config[r] = {"python": f"_c04_sims:{r}"}
    sys.modules["_c04_sims"] = mod
    real_prune = scheduler.prune_dataflow_cache
    if not prune:
        scheduler.prune_dataflow_cache = lambda world: None
    world = mosaik.World(sim_config, skip_greetings=True, cache=cfg["cache"], debug=cfg["debug"])
    RUN.update(world=world, lazy=cfg["lazy"], violations=[])
    try:
        ents = {}
        grouped = {r for g in groups for r in g}
        for r in order:
            if r in grouped:
                continue
            ents[r] = world.start(r).M()
        for g in groups:
            with world.group():
                for r in order:
                    if r in g:
                        ents[r] = world.start(r).M()
        for s, d, sa, da, kw in conns:
            world.connect(ents[s], ents[d], (sa, da), **kw)
        for r, t0 in (SCENARIOS[name][3] if len(SCENARIOS[name]) > 3 else {}).get("initial_events", {}).items():
            world.set_initial_event(ents[r].sid, t0)
        import signal

        def _alarm(signum, frame):
            raise TimeoutError(f"watchdog: run() did not finish within {WATCHDOG_S} s (deadlock)")
        old_handler = signal.signal(signal.SIGALRM, _alarm)
        signal.setitimer(signal.ITIMER_REAL, WATCHDOG_S)
        try:
            world.run(until=UNTIL, print_progress=False, lazy_stepping=cfg["lazy"])
        finally:
            signal.setitimer(signal.ITIMER_REAL, 0)
            signal.signal(signal.SIGALRM, old_handler)
        return traces
    except BaseException as e:  # noqa: BLE001  (also CancelledError escaping run())
        if isinstance(e, (KeyboardInterrupt, SystemExit)):
            raise
        return ("error", f"{type(e).__name__}: {e}")
    finally:
        scheduler.prune_dataflow_cache = real_prune
        if not world.loop.is_closed():
            try:
                world.shutdown()
            except Exception:  # noqa: BLE001
                pass


def variations(name, tier):
    sims = list(SCENARIOS[name][0])
    cfgs = [dict(zip(("lazy", "cache", "debug"), v)) for v in itertools.product((True, False), repeat=3)]
    orders = [list(p) for p in itertools.permutations(sims)]
    ylds = [dict(zip(sims, ks)) for ks in itertools.product((0, 2), repeat=len(sims))]
    if tier == "thorough":
        ylds = [dict(zip(sims, ks)) for ks in itertools.product((0, 1, 3), repeat=len(sims))]
        for c in cfgs:
            for o in orders:
                for y in ylds:
                    yield c, o, y
        return
    # quick: one axis at a time from the baseline, plus the opposite corner
    for c in cfgs:
        yield c, orders[0], ylds[0]
    for o in orders[1:]:
        yield BASE, o, ylds[0]
    for y in ylds[1:]:
        yield BASE, orders[0], y
        yield {"lazy": False, "cache": False, "debug": True}, orders[-1], y


def bounded_config_independence(tier, seed):
    import warnings
    warnings.simplefilter("ignore")
    try:
        from loguru import logger
        logger.remove()
    except Exception:  # noqa: BLE001
        pass
    failures, known, cases, nontrivial = [], [], 0, 0
    with_reference = 0
    samples = []
    for name in SCENARIOS:
        sims = list(SCENARIOS[name][0])
        base = run_once(name, BASE, sims, {})
        if isinstance(base, tuple):
            failures.append({"desc": f"scenario {name}: baseline run failed: {base[1]}", "case": {"scenario": name}})
            continue
        if len(samples) < 3:
            samples.append({"scenario": name, "baseline_trace": {r: t[:4] for r, t in base.items()}})
        ref = reference_traces(name)
        if ref is not None:
            cases += 1
            nontrivial += 1
            with_reference += 1
            if ref != base:
                r = next(r for r in sims if ref[r] != base[r])
                i = next((i for i, (a, b) in enumerate(zip(base[r], ref[r])) if a != b), min(len(base[r]), len(ref[r])))
                failures.append({"desc": f"scenario {name}, baseline configuration {BASE}: simulator {r} observes "
                                         f"{base[r][i] if i < len(base[r]) else 'no further step'} where the sequential reference semantics of C02/C03 "
                                         f"gives {ref[r][i] if i < len(ref[r]) else 'no further step'} (item {i})",
                                 "case": {"scenario": name, "against": "reference"}})
        for cfg, order, yld in variations(name, tier):
            cases += 1
            if sum(len(t) for t in base.values()) > len(sims):
                nontrivial += 1
            got = run_once(name, cfg, order, yld)
            if RUN["violations"]:
                failures.append({"desc": f"scenario {name} with {cfg}, start order {order}, yields {yld}: lazy stepping (C10): {RUN['violations'][0]}",
                                 "case": {"scenario": name, "config": cfg, "start_order": order, "yields_per_step": yld, "property": "C10"}})
                if len(failures) >= 5:
                    break
            pv = promise_violations(name) if not isinstance(got, tuple) else []
            if pv:
                failures.append({"desc": f"scenario {name} with {cfg}, start order {order}, yields {yld}: max_advance promise broken (C07): {pv[0]}",
                                 "case": {"scenario": name, "config": cfg, "start_order": order, "yields_per_step": yld, "property": "C07"}})
                if len(failures) >= 5:
                    break
            if got == base:
                continue
            case = {"scenario": name, "config": cfg, "start_order": order, "yields_per_step": yld}
            # F4?  the same run with pruning switched off
            if cfg["cache"] and not isinstance(got, tuple):
                pass
            if not isinstance(got, tuple) or True:
                alt_base = run_once(name, BASE, sims, {}, prune=False)
                alt = run_once(name, cfg, order, yld, prune=False)
                if alt == alt_base and not isinstance(alt, tuple):
                    known.append(case)
                    continue
            if isinstance(got, tuple):
                desc = f"run failed: {got[1]}"
            else:
                r = next(r for r in sims if got[r] != base[r])
                i = next((i for i, (a, b) in enumerate(zip(got[r], base[r])) if a != b), min(len(got[r]), len(base[r])))
                desc = (f"simulator {r} observes a different (time, inputs) sequence: item {i} is "
                        f"{got[r][i] if i < len(got[r]) else 'missing'} instead of {base[r][i] if i < len(base[r]) else 'nothing'}")
            failures.append({"desc": f"scenario {name} with {cfg}, start order {order}, yields {yld} vs the baseline ({BASE}): {desc}", "case": case})
            if len(failures) >= 5:
                break
        if len(failures) >= 5:
            break
    return {"bound": (f"{len(SCENARIOS)} scenarios (2-3 deterministic in-process simulators, until={UNTIL}): chains with step sizes 1-5, diamond, "
                      "time-shifted loop, event / hybrid triggers, weak loop in a group, two connections with different delays between one "
                      "pair, explicit output times, an agent sending set_data over an async_requests connection; x {lazy_stepping} x {cache} x {debug} x start-order "
                      "permutations x per-simulator yields to the event loop inside step() "
                      + ("(full cross product, yields in 0,1,3)" if tier == "thorough" else "(one axis at a time plus the opposite corner, yields in 0,2)")
                      + f"; transport: in-process only; the baseline run of each of the {with_reference} ungrouped scenarios is also compared with a "
                        "sequential reference semantics written from the statements of C02 and C03; in every run the max_advance handed to each step is "
                        "checked against the steps that follow (C07), and with lazy_stepping on every step begin is checked against the outstanding steps "
                        "of the simulator's consumers (C10)"),
            "cases": cases, "nontrivial": nontrivial, "failures": failures, "samples": samples,
            "known_instances": {"finding": "F4", "count": len(known), "first": known[:2],
                                "classifier": "difference disappears when prune_dataflow_cache is a no-op in both runs"}}
