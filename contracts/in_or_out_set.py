"""Sidecar contracts for mosaik/in_or_out_set.py and scenario.parse_attrs (property C12).

Sets are specified extensionally: a finite or co-finite set S is the predicate
x |-> mem(x, S).  Every contract quantifies over ALL elements (forall_elem) and over
arbitrary -- not small -- sets.  The specification of parse_attrs is written from the
property statement and docs/scenario-definition.rst (defaults per simulator type), at the
level of membership predicates; it does not call any of the code's set operators.
"""
from pyvc.spec import And, Or, Not, Implies, Iff, If, is_sym
from pyvc.contract import Contract, Args

try:  # symbolic side only
    import z3
    from pyvc.models import sets as MS
    from pyvc.values import SymObj
except Exception:  # native replay
    z3 = None
    MS = None
    SymObj = ()

OUTSET = "mosaik.in_or_out_set.OutSet"
_NATIVE_UNIVERSE = ["\x00fresh"]
_q = [0]


def configure(sess):
    MS.install(sess)
    from pyvc import extract
    extract.load_module("mosaik.in_or_out_set")


# ------------------------------------------------------------------ spec helpers
def is_outset(S):
    if isinstance(S, SymObj):
        return S.cls.name == "OutSet"
    if MS is not None and isinstance(S, MS.SymSet):
        return False
    return type(S).__name__ == "OutSet"


def is_setvalue(S):
    """a frozenset or an OutSet"""
    if MS is not None and isinstance(S, (MS.SymSet,)):
        return S.kind == "frozenset"
    if isinstance(S, SymObj):
        return S.cls.name == "OutSet" and isinstance(S.fields.get("_set"), MS.SymSet)
    return isinstance(S, frozenset) or type(S).__name__ == "OutSet"


def mem(x, S):
    """x in S for a finite set (frozenset, list of names) or an OutSet"""
    if MS is not None and isinstance(S, MS.SymSet):
        return S.arr[x]
    if isinstance(S, SymObj):
        return z3.Not(S.fields["_set"].arr[x])
    return x in S


def forall_elem(f):
    if z3 is not None and MS is not None and _NATIVE_UNIVERSE[0] is not None and _symbolic_mode[0]:
        _q[0] += 1
        x = z3.Const(f"x!{_q[0]}", MS.Elem)
        body = f(x)
        if body is True:
            return True
        if body is False:
            return False
        return z3.ForAll([x], body)
    return all(bool(f(x)) for x in _NATIVE_UNIVERSE)


_symbolic_mode = [z3 is not None]


def set_native_universe(*collections):
    _symbolic_mode[0] = False
    u = set()
    for c in collections:
        if c is None:
            continue
        if type(c).__name__ == "OutSet":
            u |= set(c._set)
        else:
            u |= set(c)
    _NATIVE_UNIVERSE[:] = sorted(u) + ["\x00fresh"]


def at_least_two(a, b, c):
    return Or(And(a, b), And(a, c), And(b, c))


def triple_spec(U_known, memU, A_known, memA, B_known, memB):
    """meaning of parse_set_triple: returns (ok, memA', memB') where ok says that at least
    two of the three sets are known and that A', B' (the unknown one filled in) partition U'"""
    def U2(x):
        return If(U_known, memU(x), Or(memA(x), memB(x)))

    def A2(x):
        return If(A_known, memA(x), And(U2(x), Not(memB(x))))

    def B2(x):
        return If(B_known, memB(x), And(U2(x), Not(A2(x))))

    enough = at_least_two(U_known, A_known, B_known)
    disjoint = forall_elem(lambda x: Not(And(A2(x), B2(x))))
    covers = forall_elem(lambda x: Iff(U2(x), Or(A2(x), B2(x))))
    return And(enough, disjoint, covers), U2, A2, B2


# ------------------------------------------------------------------ symbolic inputs
def mk_set(mk, name, kind):
    """kind: 'frozenset' | 'outset' | 'none' | 'list'"""
    if kind == "none":
        return None
    if kind == "outset":
        return mk.obj(OUTSET, _set=MS.maker_set(mk, name + "._set"))
    return MS.maker_set(mk, name, "frozenset" if kind == "frozenset" else "list")


def native_set(v):
    """JSON model value -> native frozenset / OutSet / None"""
    from mosaik.in_or_out_set import OutSet
    if v is None:
        return None
    if isinstance(v, dict) and "out" in v:
        return OutSet(v["out"])
    if isinstance(v, dict) and "_set" in v:
        return OutSet(v["_set"])
    return frozenset(v)


KINDS2 = ["frozenset", "outset"]
KINDS3 = ["none", "frozenset", "outset"]


def _small_sets():
    import itertools
    elems = ["a", "b"]
    subs = [list(c) for r in range(3) for c in itertools.combinations(elems, r)]
    for s in subs:
        yield s
    for s in subs:
        yield {"out": s}


# ------------------------------------------------------------------ OutSet operators
class _BinOp(Contract):
    property_ids = ["C12"]
    configure = "configure"
    op = None          # name of the method
    other_name = "other"
    other_kinds = KINDS2

    @property
    def variants(self):
        return [{"okind": k} for k in self.other_kinds]

    def make_args(self, mk, okind="frozenset"):
        return {"self": mk_set(mk, "s", "outset"), self.other_name: mk_set(mk, "o", okind)}

    def meaning(self, ms, mo):
        raise NotImplementedError

    def ensures(self, A, result):
        o = A[self.other_name]
        return And(is_setvalue(result),
                   forall_elem(lambda x: Iff(mem(x, result), self.meaning(mem(x, A.self), mem(x, o)))))

    def native_call(self, m):
        s, o = native_set(m["s"]), native_set(m["o"])
        set_native_universe(s, o)
        r = getattr(s, self.op)(o)
        return bool(self.ensures(Args({"self": s, self.other_name: o}), r)), f"{s}.{self.op}({o}) = {r}"

    def native_search(self, budget):
        for s in _small_sets():
            if isinstance(s, dict):
                for o in _small_sets():
                    if (isinstance(o, dict) and "outset" in self.other_kinds) or \
                            (not isinstance(o, dict) and "frozenset" in self.other_kinds):
                        yield {"s": s, "o": o}


class OutSub(_BinOp):
    target = OUTSET + ".__sub__"
    op = "__sub__"
    meaning = staticmethod(lambda ms, mo: And(ms, Not(mo)))


class OutRSub(_BinOp):
    target = OUTSET + ".__rsub__"
    op = "__rsub__"
    other_name = "rother"
    other_kinds = ["frozenset"]
    meaning = staticmethod(lambda ms, mo: And(mo, Not(ms)))


class OutAnd(_BinOp):
    target = OUTSET + ".__and__"
    op = "__and__"
    meaning = staticmethod(lambda ms, mo: And(ms, mo))


class OutRAnd(_BinOp):
    target = OUTSET + ".__rand__"
    op = "__rand__"
    other_name = "rother"
    other_kinds = ["frozenset"]
    meaning = staticmethod(lambda ms, mo: And(ms, mo))


class OutOr(_BinOp):
    target = OUTSET + ".__or__"
    op = "__or__"
    meaning = staticmethod(lambda ms, mo: Or(ms, mo))


class OutROr(_BinOp):
    target = OUTSET + ".__ror__"
    op = "__ror__"
    other_name = "rother"
    other_kinds = ["frozenset"]
    meaning = staticmethod(lambda ms, mo: Or(ms, mo))


class OutContains(Contract):
    target = OUTSET + ".__contains__"
    property_ids = ["C12"]
    configure = "configure"

    def make_args(self, mk):
        return {"self": mk_set(mk, "s", "outset"), "item": mk.const("item", MS.Elem)}

    def ensures(self, A, result):
        return Iff(result, Not(A.self._set.arr[A.item]) if is_sym(A.item) else (A.item not in A.self._set))

    def native_call(self, m):
        s = native_set(m["s"])
        ok = all((x in s) == (x not in s._set) for x in list(s._set) + ["\x00fresh"])
        return ok, f"membership in {s}"

    def native_search(self, budget):
        for s in _small_sets():
            if isinstance(s, dict):
                yield {"s": s}


class OutEq(Contract):
    """== is extensional equality of the represented (co-finite / finite) sets"""
    target = OUTSET + ".__eq__"
    property_ids = ["C12"]
    configure = "configure"
    variants = [{"okind": "frozenset"}, {"okind": "outset"}, {"okind": "none"}]

    def make_args(self, mk, okind="outset"):
        return {"self": mk_set(mk, "s", "outset"), "other": mk_set(mk, "o", okind)}

    def ensures(self, A, result):
        if A.other is None:
            return Not(result)
        return Iff(result, forall_elem(lambda x: Iff(mem(x, A.self), mem(x, A.other))))

    def native_call(self, m):
        s, o = native_set(m["s"]), native_set(m.get("o"))
        set_native_universe(s, o)
        r = s == o
        return bool(self.ensures(Args({"self": s, "other": o}), r)), f"{s} == {o} = {r}"

    def native_search(self, budget):
        for s in _small_sets():
            if isinstance(s, dict):
                for o in _small_sets():
                    yield {"s": s, "o": o}


class OutInit(Contract):
    target = OUTSET + ".__init__"
    property_ids = ["C12"]
    configure = "configure"
    variants = [{"given": True}, {"given": False}]

    def make_args(self, mk, given=True):
        return {"self": mk.blank(OUTSET), "elems": mk_set(mk, "e", "list") if given else ()}

    def ensures(self, A, result):
        s = A.self
        if isinstance(A.elems, tuple):
            return forall_elem(lambda x: mem(x, s))
        return forall_elem(lambda x: Iff(mem(x, s), Not(mem(x, A.elems))))

    def native_call(self, m):
        from mosaik.in_or_out_set import OutSet
        e = m.get("e")
        s = OutSet(e) if e is not None else OutSet()
        set_native_universe(e or [])
        return all((x in s) == (x not in (e or [])) for x in _NATIVE_UNIVERSE), f"OutSet({e}) = {s}"

    def native_search(self, budget):
        for s in _small_sets():
            if not isinstance(s, dict):
                yield {"e": s}


class WrapSet(Contract):
    target = "mosaik.in_or_out_set.wrap_set"
    property_ids = ["C12"]
    configure = "configure"
    variants = [{"kind": k} for k in ["none", "list", "frozenset", "outset"]]

    def make_args(self, mk, kind="list"):
        return {"set": mk_set(mk, "s", kind)}

    def ensures(self, A, result):
        s = A["set"]
        if s is None:
            return result is None
        return And(is_setvalue(result), forall_elem(lambda x: Iff(mem(x, result), mem(x, s))),
                   is_outset(result) == is_outset(s))

    def native_call(self, m):
        from mosaik.in_or_out_set import wrap_set
        v = m.get("s")
        s = native_set(v) if isinstance(v, dict) else (None if v is None else list(v))
        set_native_universe(s if not isinstance(v, dict) else s)
        r = wrap_set(s)
        return bool(self.ensures(Args({"set": s}), r)), f"wrap_set({s}) = {r}"

    def native_search(self, budget):
        yield {"s": None}
        for s in _small_sets():
            yield {"s": s}


# ------------------------------------------------------------------ parse_set_triple
class ParseSetTriple(Contract):
    """raises ValueError IFF fewer than two of the three sets are given, or the parts are
    not disjoint, or they do not add up to the union; otherwise returns the unique pair
    (A, B) with A (+) B = U extending what was given"""
    target = "mosaik.in_or_out_set.parse_set_triple"
    property_ids = ["C12"]
    configure = "configure"
    variants = [{"ku": a, "ka": b, "kb": c} for a in KINDS3 for b in KINDS3 for c in KINDS3]

    def make_args(self, mk, ku="frozenset", ka="frozenset", kb="none"):
        return {"union": mk_set(mk, "u", ku), "part_a": mk_set(mk, "a", ka), "part_b": mk_set(mk, "b", kb),
                "union_name": "union", "part_a_name": "part_a", "part_b_name": "part_b"}

    def _spec(self, A):
        U, PA, PB = A.union, A.part_a, A.part_b
        return triple_spec(U is not None, lambda x: mem(x, U) if U is not None else False,
                           PA is not None, lambda x: mem(x, PA) if PA is not None else False,
                           PB is not None, lambda x: mem(x, PB) if PB is not None else False)

    @property
    def raises(self):
        return {"ValueError": lambda A: Not(self._spec(A)[0])}

    def ensures(self, A, result):
        ok, U2, A2, B2 = self._spec(A)
        ra, rb = result[0], result[1]
        return And(len(result) == 2, is_setvalue(ra), is_setvalue(rb),
                   forall_elem(lambda x: Iff(mem(x, ra), A2(x))),
                   forall_elem(lambda x: Iff(mem(x, rb), B2(x))))

    def native_call(self, m):
        from mosaik.in_or_out_set import parse_set_triple
        u, a, b = native_set(m.get("u")), native_set(m.get("a")), native_set(m.get("b"))
        set_native_universe(u, a, b)
        A = Args({"union": u, "part_a": a, "part_b": b})
        expect = bool(self.raises["ValueError"](A))
        try:
            r = parse_set_triple(u, a, b)
        except ValueError as e:
            return expect, f"parse_set_triple({u}, {a}, {b}) raised ValueError({e})"
        if expect:
            return False, f"parse_set_triple({u}, {a}, {b}) = {r} but ValueError expected"
        return bool(self.ensures(A, r)), f"parse_set_triple({u}, {a}, {b}) = {r}"

    def native_search(self, budget):
        opts = [None] + list(_small_sets())
        n = 0
        for u in opts:
            for a in opts:
                for b in opts:
                    yield {"u": u, "a": a, "b": b}
                    n += 1
                    if n >= budget:
                        return


# ------------------------------------------------------------------ parse_attrs
KEYS = ["attrs", "non-trigger", "trigger", "persistent", "non-persistent"]


class ParseAttrs(Contract):
    """C12, from the property statement and docs/scenario-definition.rst:

    inputs  = everything if any_inputs else attrs;   outputs = attrs
    defaults: time-based  -> no trigger inputs, no non-persistent outputs (unless listed)
              event-based -> no non-trigger inputs, no persistent outputs (unless listed)
              hybrid      -> inputs are non-trigger unless 'trigger' is listed; outputs
                             persistent unless 'non-persistent' is listed
    success: trigger (+) non-trigger = inputs, persistent (+) non-persistent = outputs,
             every explicitly given list returned as given
    ValueError IFF under-specified (fewer than two of the three sets known after defaults),
             inconsistent (not a partition), or a kind the type forbids is non-empty."""
    target = "mosaik.scenario.parse_attrs"
    property_ids = ["C12"]
    configure = "configure"
    variants = [{"type": t} for t in ("time-based", "event-based", "hybrid")]

    def make_args(self, mk, type="hybrid"):
        entries = {"any_inputs": (mk.bool("has_any_inputs"), mk.bool("any_inputs"))}
        for k in KEYS:
            entries[k] = (mk.bool("has_" + k), MS.maker_set(mk, k, "list"))
        return {"model_desc": MS.RecDict(entries), "type": type}

    # -- the specification, over presence flags and membership predicates
    @staticmethod
    def _view(A):
        """-> (any_inputs, {key: (present, memfn)}) for symbolic RecDict or native dict"""
        d = A.model_desc
        if MS is not None and isinstance(d, MS.RecDict):
            p, v = d.entries["any_inputs"]
            ai = And(p, v)
            sets = {k: (d.entries[k][0], (lambda x, s=d.entries[k][1]: s.arr[x])) for k in KEYS}
            return ai, sets
        ai = bool(d.get("any_inputs", False))
        sets = {k: ((k in d), (lambda x, s=d.get(k, ()): x in s)) for k in KEYS}
        return ai, sets

    def _spec(self, A):
        typ = A.type
        ai, s = self._view(A)
        (pA, mA), (pNT, mNT), (pT, mT), (pP, mP), (pNP, mNP) = (s[k] for k in KEYS)
        none = lambda x: False  # noqa: E731
        # ---- inputs
        U_known = Or(ai, pA)
        memU = lambda x: If(ai, True, mA(x))  # noqa: E731
        if typ == "time-based":
            NT_known, memNT = pNT, mNT
            T_known, memT = True, (lambda x: If(pT, mT(x), False))
        elif typ == "event-based":
            NT_known, memNT = True, (lambda x: If(pNT, mNT(x), False))
            T_known, memT = pT, mT
        else:
            T_known, memT = pT, mT
            NT_known = Or(pNT, And(Not(pT), U_known))
            memNT = lambda x: If(pNT, mNT(x), memU(x))  # noqa: E731
        ok_in, U2, NT2, T2 = triple_spec(U_known, memU, NT_known, memNT, T_known, memT)
        if typ == "time-based":
            ok_in = And(ok_in, forall_elem(lambda x: Not(T2(x))))
        if typ == "event-based":
            ok_in = And(ok_in, forall_elem(lambda x: Not(NT2(x))))
        # ---- outputs
        O_known, memO = pA, mA
        if typ == "event-based":
            P_known, memP = True, (lambda x: If(pP, mP(x), False))
            NP_known, memNP = pNP, mNP
        else:
            P_known, memP = pP, mP
            NP_known, memNP = True, (lambda x: If(pNP, mNP(x), False))
        ok_out, O2, P2, NP2 = triple_spec(O_known, memO, P_known, memP, NP_known, memNP)
        if typ == "time-based":
            ok_out = And(ok_out, forall_elem(lambda x: Not(NP2(x))))
        if typ == "event-based":
            ok_out = And(ok_out, forall_elem(lambda x: Not(P2(x))))
        return And(ok_in, ok_out), (U2, NT2, T2), (O2, P2, NP2), s, ai

    @property
    def raises(self):
        return {"ValueError": lambda A: Not(self._spec(A)[0])}

    def ensures(self, A, result):
        ok, (U2, NT2, T2), (O2, P2, NP2), s, ai = self._spec(A)
        mi, ei, mo, eo = result[0], result[1], result[2], result[3]
        (pA, mA), (pNT, mNT), (pT, mT), (pP, mP), (pNP, mNP) = (s[k] for k in KEYS)
        return And(
            len(result) == 4, is_setvalue(mi), is_setvalue(ei), is_setvalue(mo), is_setvalue(eo),
            # the classification is the specified one
            forall_elem(lambda x: Iff(mem(x, mi), NT2(x))), forall_elem(lambda x: Iff(mem(x, ei), T2(x))),
            forall_elem(lambda x: Iff(mem(x, mo), P2(x))), forall_elem(lambda x: Iff(mem(x, eo), NP2(x))),
            # the property's own wording: partitions ...
            forall_elem(lambda x: Not(And(mem(x, mi), mem(x, ei)))),
            forall_elem(lambda x: Iff(Or(mem(x, mi), mem(x, ei)), If(ai, True, If(pA, mA(x), Or(NT2(x), T2(x)))))),
            forall_elem(lambda x: Not(And(mem(x, mo), mem(x, eo)))),
            forall_elem(lambda x: Iff(Or(mem(x, mo), mem(x, eo)), If(pA, mA(x), Or(P2(x), NP2(x))))),
            # ... in agreement with every explicitly given list
            Implies(pNT, forall_elem(lambda x: Iff(mem(x, mi), mNT(x)))),
            Implies(pT, forall_elem(lambda x: Iff(mem(x, ei), mT(x)))),
            Implies(pP, forall_elem(lambda x: Iff(mem(x, mo), mP(x)))),
            Implies(pNP, forall_elem(lambda x: Iff(mem(x, eo), mNP(x)))),
        )

    def native_call(self, m):
        from mosaik.scenario import parse_attrs
        d = {}
        if m.get("has_any_inputs"):
            d["any_inputs"] = bool(m.get("any_inputs"))
        for k in KEYS:
            if m.get("has_" + k):
                d[k] = list(m.get(k) or [])
        typ = m["type"]
        set_native_universe(*[d.get(k) for k in KEYS])
        A = Args({"model_desc": d, "type": typ})
        expect = bool(self.raises["ValueError"](A))
        try:
            r = parse_attrs(d, typ)
        except ValueError as e:
            return expect, f"parse_attrs({d}, {typ!r}) raised ValueError"
        if expect:
            return False, f"parse_attrs({d}, {typ!r}) = {r} but the description must be rejected"
        return bool(self.ensures(A, r)), f"parse_attrs({d}, {typ!r}) = {tuple(str(x) for x in r)}"

    def native_search(self, budget):
        import itertools
        subs = [None, [], ["a"], ["b"], ["a", "b"]]
        n = 0
        for typ in ("time-based", "event-based", "hybrid"):
            for ai in (None, False, True):
                for combo in itertools.product(subs, repeat=5):
                    m = {"type": typ, "has_any_inputs": ai is not None, "any_inputs": bool(ai)}
                    for k, v in zip(KEYS, combo):
                        m["has_" + k] = v is not None
                        m[k] = v or []
                    yield m
                    n += 1
                    if n >= budget:
                        return


CONTRACTS = [OutInit(), OutSub(), OutRSub(), OutAnd(), OutRAnd(), OutOr(), OutROr(), OutContains(), OutEq(),
             WrapSet(), ParseSetTriple(), ParseAttrs()]
