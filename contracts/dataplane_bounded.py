"""Bounded stand-in for scheduler.get_input_data (see contracts/dataplane_native.py)."""
from pyvc.bounded import NativeBounded


class GetInputDataBounded(NativeBounded):
    property_ids = ["C03", "C04", "C16"]
    module = "contracts.dataplane_native"
    func = "bounded_get_input_data"
    what = "mosaik.scheduler.get_input_data (with internal_util.merge_all / merge_existing)"


BOUNDED = [GetInputDataBounded()]


class SetDataBounded(NativeBounded):
    property_ids = ["C16"]
    module = "contracts.dataplane_native"
    func = "bounded_set_data"
    what = "mosaik.simmanager.MosaikRemote.set_data"


BOUNDED.append(SetDataBounded())


class InputBufferBounded(NativeBounded):
    property_ids = ["C03"]
    module = "contracts.dataplane_native"
    func = "bounded_input_buffer"
    what = "mosaik.simmanager.TimedInputBuffer (add + get_input over sequences of operations)"


class AsyncGetDataBounded(NativeBounded):
    property_ids = ["C16"]
    module = "contracts.dataplane_native"
    func = "bounded_async_get_data"
    what = "mosaik.simmanager.MosaikRemote.get_data"


BOUNDED += [InputBufferBounded(), AsyncGetDataBounded()]
