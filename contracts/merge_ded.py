"""Sidecar contracts for mosaik/internal_util.py merge_all / merge_existing -- the two dict-merging primitives from which
get_input_data builds a step's inputs (C03; C04, C16 through get_input_data).  One dict level, arbitrary merger function
(get_input_data nests three levels by passing lambdas that call the same functions again).

  merge_all(merger, target, other)       target' has exactly the keys of target and of other; a key of both holds
                                         merger(target[k], other[k]), a key of `other` only holds other[k], a key of `target` only keeps
                                         its value; `other` is not modified; the SAME target object is returned; the merger is called
                                         exactly for the keys of both, with (old target value, other's value) in that order
  merge_existing(merger, target, other)  target' has exactly the keys of target (no key of `other` is added -- adding one would make a
                                         non-persistent input persistent); a key of both holds merger(target[k], other[k]); the rest
                                         keeps its value; a key whose value in `other` is None still counts as present

Model: keys and values are uninterpreted sorts, the merger an uninterpreted function; a dict is (present, value) with reference
semantics; items() walks the dict in an arbitrary order, each key once, reading live values; target and other are different
objects (get_input_data never passes the same dict twice).
"""
from pyvc.contract import Contract
from pyvc.spec import And, Or, Not, Implies, Iff
try:
    import z3
    from pyvc.values import Builtin, Unsupported, is_z3
    from pyvc import extract
except Exception:  # pragma: no cover
    z3 = None

if z3 is not None:
    K = z3.DeclareSort("MKey")
    V = z3.DeclareSort("MVal")
    B = z3.BoolSort()
    M = z3.Function("merger", V, V, V)
    PS, VS = z3.ArraySort(K, B), z3.ArraySort(K, V)

_n = iter(range(1, 10 ** 9))


def _c(prefix, sort):
    return z3.Const(f"{prefix}!m{next(_n)}", sort)


class MDict:
    def __init__(self, name):
        self.name = name
        self.P, self.Vv = z3.Const(name + ".present", PS), z3.Const(name + ".value", VS)
        self.P0, self.V0 = self.P, self.Vv


class Items:
    is_abstract_collection = True

    def __init__(self, d):
        self.d = d
        self.key_sort = K

    def arbitrary(self, it):
        k = it.p.fresh("k", K)
        return (k, self.d.Vv[k])

    def member(self, x):
        return self.d.P[x]

    def key_of(self, item):
        return item[0]


class MergeModel:
    def __init__(self, sess):
        self.s = sess
        sess.models.insert(0, self)
        sess.mm = self

    def reset(self, p):
        p.ghost["calls"] = z3.K(K, z3.IntVal(0))
        p.ghost["calls_ok"] = z3.BoolVal(True)

    def merger(self, it, node, a, b):
        return M(a, b)

    def getattr(self, it, obj, name, node):
        if isinstance(obj, MDict) and name == "items":
            return Builtin("dict.items", lambda it2, n2, obj=obj: Items(obj))
        return NotImplemented

    def contains(self, it, container, item, node):
        if isinstance(container, MDict):
            return container.P[item]
        return NotImplemented

    def getitem(self, it, obj, idx, node):
        if isinstance(obj, MDict):
            it.check_raise(Not(obj.P[idx]), "KeyError", node, "dict[key]")
            return obj.Vv[idx]
        return NotImplemented

    def setitem(self, it, obj, idx, v, node):
        if isinstance(obj, MDict):
            obj.P = z3.Store(obj.P, idx, True)
            obj.Vv = z3.Store(obj.Vv, idx, v)
            return True
        return NotImplemented

    def iter_plan(self, it, x):
        if getattr(x, "is_abstract_collection", False):
            return ("abstract", x)
        return NotImplemented

    def havoc_loop_heap(self, it, st, env):
        for nm in ("target", "other"):
            try:
                d = env.lookup(nm)
            except KeyError:
                continue
            if isinstance(d, MDict):
                d.P, d.Vv = it.p.fresh(nm + ".present", PS), it.p.fresh(nm + ".value", VS)
        return None


def configure(sess):
    MergeModel(sess)
    extract.load_module("mosaik.internal_util")


class _Merge(Contract):
    property_ids = ["C03", "C04", "C16"]
    configure = "configure"

    def make_args(self, mk):
        self._t, self._o = MDict("target"), MDict("other")
        return {"merger": Builtin("merger", mk.s.mm.merger), "target": self._t, "other": self._o}

    def setup(self, p, A, mk):
        self._p = p
        mk.s.mm.reset(p)

    def requires(self, A):
        return True

    def other_untouched(self):
        o = self._o
        k = _c("k", K)
        return z3.ForAll([k], And(o.P[k] == o.P0[k], o.Vv[k] == o.V0[k]))

    def native_call(self, m):
        if "target" not in m:
            return True, "symbolic counter-models are not replayed (the native search is)"
        import copy
        import mosaik.internal_util as U
        fn = getattr(U, self.target.rsplit(".", 1)[1])
        target, other = copy.deepcopy(m["target"]), copy.deepcopy(m["other"])
        calls = []

        def merger(a, b):
            calls.append((a, b))
            return ("merged", a, b)
        t0, o0 = dict(target), dict(other)
        r = fn(merger, target, other)
        exp = self.native_expected(t0, o0)
        ok = r is target and target == exp and other == o0 and sorted(calls, key=repr) == sorted(((t0[k], o0[k]) for k in t0 if k in o0), key=repr)
        return ok, f"{fn.__name__}(merger, {t0}, {o0}) -> {target} (expected {exp}), merger calls {calls}, other afterwards {other}"

    def native_search(self, budget):
        vals = [1, None, 0]
        import itertools
        keys = ["a", "b"]
        for tk in itertools.product((False, True), repeat=2):
            for ok_ in itertools.product((False, True), repeat=2):
                for tv in itertools.product(vals, repeat=2):
                    for ov in itertools.product(vals, repeat=2):
                        yield {"target": {k: v for k, p, v in zip(keys, tk, tv) if p}, "other": {k: v for k, p, v in zip(keys, ok_, ov) if p}}


class MergeAll(_Merge):
    target = "mosaik.internal_util.merge_all"

    def _spec(self, t, o, cond):
        k = _c("k", K)
        return z3.ForAll([k], And(
            Implies(cond(k), And(t.P[k] == Or(t.P0[k], o.P0[k]),
                                 Implies(And(t.P0[k], o.P0[k]), t.Vv[k] == M(t.V0[k], o.V0[k])),
                                 Implies(And(Not(t.P0[k]), o.P0[k]), t.Vv[k] == o.V0[k]),
                                 Implies(And(t.P0[k], Not(o.P0[k])), t.Vv[k] == t.V0[k]))),
            Implies(Not(cond(k)), And(t.P[k] == t.P0[k], t.Vv[k] == t.V0[k]))))

    def _inv(self, k, v, A):
        t, o = self._t, self._o
        seen = v.seen
        return {"processed_keys_merged_rest_untouched": self._spec(t, o, lambda k_: Or(seen[k_], Not(o.P0[k_]))),
                "other_untouched": self.other_untouched()}

    loops = {0: lambda c, k, v, A: c._inv(k, v, A)}

    def split_post(self, A, result):
        t, o = self._t, self._o
        return {"keys_of_both_merged_keys_of_other_added_rest_kept": self._spec(t, o, lambda k_: z3.BoolVal(True)),
                "other_untouched": self.other_untouched(),
                "returns_the_target_object": z3.BoolVal(result is t)}

    def native_expected(self, t0, o0):
        exp = dict(t0)
        for k, v in o0.items():
            exp[k] = ("merged", t0[k], v) if k in t0 else v
        return exp


class MergeExisting(_Merge):
    target = "mosaik.internal_util.merge_existing"

    def _spec(self, t, o, cond):
        k = _c("k", K)
        return z3.ForAll([k], And(t.P[k] == t.P0[k],
                                  Implies(And(cond(k), t.P0[k], o.P0[k]), t.Vv[k] == M(t.V0[k], o.V0[k])),
                                  Implies(Not(And(cond(k), t.P0[k], o.P0[k])), t.Vv[k] == t.V0[k])))

    def _inv(self, k, v, A):
        t, o = self._t, self._o
        seen = v.seen
        return {"processed_keys_merged_rest_untouched": self._spec(t, o, lambda k_: seen[k_]),
                "other_untouched": self.other_untouched()}

    loops = {0: lambda c, k, v, A: c._inv(k, v, A)}

    def split_post(self, A, result):
        t, o = self._t, self._o
        return {"no_key_added_keys_of_both_merged_rest_kept": self._spec(t, o, lambda k_: z3.BoolVal(True)),
                "other_untouched": self.other_untouched(),
                "returns_the_target_object": z3.BoolVal(result is t)}

    def native_expected(self, t0, o0):
        return {k: (("merged", v, o0[k]) if k in o0 else v) for k, v in t0.items()}


CONTRACTS = [MergeAll(), MergeExisting()]
