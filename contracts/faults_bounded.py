"""Bounded stand-in for the whole-run clause of C14 (see contracts/faults_native.py)."""
from pyvc.bounded import NativeBounded


class FaultContainmentBounded(NativeBounded):
    property_ids = ["C14"]
    module = "contracts.faults_native"
    func = "bounded_fault_containment"
    what = "mosaik.scenario.World.run under one injected simulator fault per run (whole run)"


BOUNDED = [FaultContainmentBounded()]


class TransportBounded(NativeBounded):
    property_ids = ["C04"]
    module = "contracts.faults_native"
    func = "bounded_transport"
    what = "mosaik.scenario.World.run with one simulator behind the remote transport (whole run)"


BOUNDED.append(TransportBounded())


class ReplyValidationBounded(NativeBounded):
    property_ids = ["C13"]
    module = "contracts.faults_native"
    func = "bounded_reply_validation"
    what = "mosaik.scenario.World.run with one API-violating simulator reply per run (whole run, debug mode off and on)"


BOUNDED.append(ReplyValidationBounded())
