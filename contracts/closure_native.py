"""Bounded stand-ins (native, exhaustive up to a stated bound) for the two path-closure algorithms of
mosaik/scenario.py that are out of reach of the deductive route (DESIGN 8-C06, 11):

  World.cache_triggering_ancestors   -> triggering_ancestors[s][a] is the MINIMUM delay over all trigger paths a ~> s
  World.ensure_no_dataflow_cycles    -> ScenarioError IFF some cycle is not resolved, naming a real unresolved cycle

The specifications are independent of the code: integer / lexicographic shortest paths, and an
enumeration of simple cycles with the resolution rule of the property statement applied literally.
"""
from __future__ import annotations
import itertools


class _StubProxy:
    def __init__(self):
        self.meta = {"type": "hybrid", "models": {}}

    async def send(self, request):
        return None

    async def stop(self):
        return None


def _world(n, depths):
    import mosaik
    from mosaik.simmanager import SimRunner
    w = mosaik.World({}, skip_greetings=True)
    sims = []
    for i in range(n):
        s = SimRunner(f"S{i}", _StubProxy(), depth=depths[i])
        w.sims[s.sid] = s
        sims.append(s)
    return w, sims


# ------------------------------------------------------------------ delays for the bounded scopes
# scope "flat": every simulator at the root: a delay is one int (time shift)
# scope "group": every simulator in ONE group (depth 2): a delay is (shift, weak) with cut-off 2
def _interval(scope, d):
    from mosaik.tiered_time import TieredInterval
    if scope == "flat":
        return TieredInterval(d)
    return TieredInterval(d[0], d[1], cutoff=2, pre_length=2)


def _add(scope, x, y):
    return x + y if scope == "flat" else (x[0] + y[0], x[1] + y[1])


def _edge_choices(scope):
    if scope == "flat":
        return [0, 1, 2]
    return [(0, 0), (1, 0), (0, 1)]


def _graphs(n, scope, max_edges, parallel):
    """all multigraphs on n simulators with at most max_edges edges (self-loops included), delays from the scope"""
    pairs = [(a, b) for a in range(n) for b in range(n)]
    choices = _edge_choices(scope)
    single = [(p, d) for p in pairs for d in choices]
    for k in range(0, max_edges + 1):
        for combo in itertools.combinations(single, k):
            cnt = {}
            ok = True
            for (p, d) in combo:
                cnt[p] = cnt.get(p, 0) + 1
                if cnt[p] > parallel:
                    ok = False
                    break
            if ok:
                yield [(a, b, d) for ((a, b), d) in combo]


def _shortest(n, edges, scope):
    """min delay over all non-empty paths a ~> s (delays are non-negative, so simple paths + one cycle suffice:
    Bellman-Ford style relaxation to a fix-point)"""
    best = {}
    for (a, b, d) in edges:
        if (a, b) not in best or d < best[(a, b)]:
            best[(a, b)] = d
    changed = True
    while changed:
        changed = False
        for (a, m), d1 in list(best.items()):
            for (m2, s, d2) in edges:
                if m2 != m:
                    continue
                cand = _add(scope, d1, d2)
                if (a, s) not in best or cand < best[(a, s)]:
                    best[(a, s)] = cand
                    changed = True
    return best


def bounded_triggering_ancestors(tier, seed):
    failures = []
    cases = 0
    plan = [("flat", 2, 4, 2), ("flat", 3, 3, 2), ("group", 2, 3, 2), ("group", 3, 2, 1)]
    if tier == "thorough":
        plan = [("flat", 2, 5, 2), ("flat", 3, 4, 2), ("group", 2, 4, 2), ("group", 3, 3, 2), ("flat", 4, 3, 1)]
    for scope, n, max_edges, parallel in plan:
        for edges in _graphs(n, scope, max_edges, parallel):
            # every order in which the connections could have been made matters for the FIRST loop: try two orders
            # ... and the OTHER connection tables must not matter: once with input_delays holding just the trigger connections, once
            # with an additional non-trigger connection between every ordered pair of simulators (delay zero resp. the largest choice)
            for order, extra in ((edges, None), (list(reversed(edges)), None), (edges, "zero"), (edges, "large")):
                cases += 1
                w, sims = _world(n, [1 if scope == "flat" else 2] * n)
                try:
                    for k, (a, b, d) in enumerate(order):
                        sims[a].triggers.setdefault((f"e{k}", "x"), []).append((sims[b], _interval(scope, d)))
                        cur = sims[b].input_delays.get(sims[a])
                        if cur is None or _interval(scope, d) < cur:
                            sims[b].input_delays[sims[a]] = _interval(scope, d)
                    if extra is not None:
                        ch = _edge_choices(scope)
                        dflt = _interval(scope, ch[0] if extra == "zero" else (2 if scope == "flat" else (1, 0)))
                        for a in range(n):
                            for b in range(n):
                                if a != b:
                                    cur = sims[b].input_delays.get(sims[a])
                                    if cur is None or dflt < cur:
                                        sims[b].input_delays[sims[a]] = dflt
                    try:
                        w.cache_triggering_ancestors()
                    except Exception as e:
                        failures.append({"desc": f"cache_triggering_ancestors raised {type(e).__name__}: {e} for trigger edges {order} ({scope})",
                                         "case": {"scope": scope, "n": n, "edges": [list(map(_js, x)) for x in order]}})
                        continue
                    best = _shortest(n, edges, scope)
                    got = {(a, s): sims[s].triggering_ancestors[sims[a]] for s in range(n) for a in range(n)
                           if sims[a] in sims[s].triggering_ancestors}
                    exp = {k: _interval(scope, v) for k, v in best.items()}
                    if got != exp:
                        diff = {k: (str(exp.get(k)), str(got.get(k))) for k in set(got) | set(exp) if got.get(k) != exp.get(k)}
                        failures.append({"desc": f"triggering_ancestors is not the minimum over all trigger paths for edges {order} "
                                                 f"({scope}): (ancestor, sim): (expected, got) = {diff}",
                                         "case": {"scope": scope, "n": n, "edges": [list(map(_js, x)) for x in order]}})
                finally:
                    w.loop.close()
                if len(failures) >= 5:
                    return {"bound": _bound_text(plan), "cases": cases, "failures": failures}
    return {"bound": _bound_text(plan), "cases": cases, "failures": failures}


def _js(x):
    return list(x) if isinstance(x, tuple) else x


def _bound_text(plan):
    return "; ".join(f"{scope}: all multigraphs on {n} simulators with <= {me} edges, <= {par} parallel per pair, "
                     f"delays from {_edge_choices(scope)}, two connection orders, with / without additional non-trigger connections between all pairs" for scope, n, me, par in plan)


# ------------------------------------------------------------------ cycle detection
# scenario shapes for the cycle check: list of group index per simulator (0 = root, g > 0 = inside group g at depth 2)
CYCLE_SHAPES = {
    "flat3": [0, 0, 0],
    "group3": [1, 1, 1],
    "two_in_group_one_outside": [1, 1, 0],
    "two_groups": [1, 1, 2],
}
KINDS = ["plain", "shifted", "weak"]


def _connect_interval(gs, gd, kind):
    """the delay connect_interval gives for simulators in groups gs, gd (0 = root; siblings at depth 2)"""
    from mosaik.tiered_time import TieredInterval
    pre = 1 if gs == 0 else 2
    ln = 1 if gd == 0 else 2
    common_depth = 2 if (gs == gd and gs != 0) else 1
    tiers = [0] * ln
    if kind == "shifted":
        tiers[0] = 1
    if kind == "weak":
        if common_depth < 2:
            return None          # rejected by connect()
        tiers[common_depth - 1] = 1
    return TieredInterval(*tiers, cutoff=common_depth, pre_length=pre)


def _simple_cycles(n, edges):
    """all simple cycles as lists of edge indices"""
    out = []

    def dfs(start, cur, used_nodes, path):
        for k, (a, b, kind) in enumerate(edges):
            if a != cur:
                continue
            if b == start:
                out.append(path + [k])
            elif b not in used_nodes and b > start:
                dfs(start, b, used_nodes | {b}, path + [k])

    for s in range(n):
        dfs(s, s, {s}, [])
    return out


def _unresolved(shape, edges, cyc):
    """the property statement, literally: a connection resolves the cycle if it is time-shifted, or if it is
    weak and the whole cycle stays inside the group shared by its two ends"""
    nodes = set()
    for k in cyc:
        nodes.add(edges[k][0])
        nodes.add(edges[k][1])
    for k in cyc:
        a, b, kind = edges[k]
        if kind == "shifted":
            return False
        if kind == "weak":
            g = shape[a]
            if g != 0 and shape[b] == g and all(shape[x] == g for x in nodes):
                return False
    return True


def _real_unresolved_walk(shape, edges, walk):
    """the named cycle is real and unresolved by the property's rule: a closed walk (a simulator may occur twice) each hop of
    which is a connection that does not resolve THIS walk: not time-shifted, and weak only if the walk leaves the group
    shared by the connection's two ends"""
    if len(walk) < 2 or walk[0] != walk[-1]:
        return False
    nodes = set(walk)
    for a, b in zip(walk, walk[1:]):
        ok = False
        for (x, y, kind) in edges:
            if (x, y) != (a, b):
                continue
            if kind == "plain":
                ok = True
            elif kind == "weak":
                g = shape[a]
                inside = g != 0 and shape[b] == g and all(shape[n] == g for n in nodes)
                ok = ok or not inside
        if not ok:
            return False
    return True


def bounded_cycle_detection(tier, seed):
    from mosaik.exceptions import ScenarioError
    failures = []
    known = []
    cases = 0
    max_edges = 4 if tier == "thorough" else 3
    for sname, shape in CYCLE_SHAPES.items():
        n = len(shape)
        pairs = [(a, b) for a in range(n) for b in range(n)]
        single = [(a, b, k) for (a, b) in pairs for k in KINDS if _connect_interval(shape[a], shape[b], k) is not None]
        for k in range(1, max_edges + 1):
            for edges in itertools.combinations(single, k):
                edges = list(edges)
                cases += 1
                w, sims = _world(n, [1 if g == 0 else 2 for g in shape])
                try:
                    # input_delays as connect_one builds them: the minimum over the connections of a pair
                    for (a, b, kind) in edges:
                        d = _connect_interval(shape[a], shape[b], kind)
                        old = sims[b].input_delays.get(sims[a])
                        sims[b].input_delays[sims[a]] = d if old is None or d < old else old
                    cycles = _simple_cycles(n, edges)
                    bad = [c for c in cycles if _unresolved(shape, edges, c)]
                    try:
                        w.ensure_no_dataflow_cycles()
                        raised = None
                    except ScenarioError as e:
                        raised = str(e)
                    except AssertionError as e:
                        raised = None
                        if "are incomparable" in str(e):
                            # the call site of recorded finding F6: TieredInterval.__lt__ on two path delays of one pair that
                            # lie in K_mixed (possible from 4 connections on: one path leaves the group and re-enters it)
                            known.append({"shape": sname, "edges": [list(x) for x in edges]})
                            continue
                        failures.append({"desc": f"ensure_no_dataflow_cycles died with AssertionError({e}) for {sname} {edges}",
                                         "case": {"shape": sname, "edges": [list(x) for x in edges]}})
                        continue
                    if bool(bad) != (raised is not None):
                        failures.append({"desc": f"{sname}, connections {edges}: unresolved cycles by the property's rule: "
                                                 f"{[[edges[k] for k in c] for c in bad]}; ensure_no_dataflow_cycles "
                                                 f"{'raised: ' + raised[:120] if raised else 'accepted the scenario'}",
                                         "case": {"shape": sname, "edges": [list(x) for x in edges]}})
                    elif raised is not None:
                        # the cycle named in the error must be a real unresolved cycle
                        import re
                        walk = [int(x) for x in re.findall(r"sid='S(\d+)'", raised.split("example:")[-1])]
                        if not _real_unresolved_walk(shape, edges, walk):
                            failures.append({"desc": f"{sname}, connections {edges}: the cycle named in the error ({['S%d' % i for i in walk]}) is not "
                                                     f"a closed walk along connections none of which resolves it (simple unresolved cycles: "
                                                     f"{[[edges[k] for k in c] for c in bad]})",
                                             "case": {"shape": sname, "edges": [list(x) for x in edges]}})
                finally:
                    w.loop.close()
                if len(failures) >= 5:
                    return {"bound": _cbound(max_edges), "cases": cases, "failures": failures, "known_instances": _known(known)}
    return {"bound": _cbound(max_edges), "cases": cases, "failures": failures, "known_instances": _known(known)}


def _known(known):
    return {"finding": "F6", "count": len(known), "first": known[:2],
            "classifier": "AssertionError '... are incomparable' raised by TieredInterval.__lt__ inside the closure"}


def _cbound(max_edges):
    return (f"scenario shapes {CYCLE_SHAPES} (0 = root, g = group g at depth 2), every set of <= {max_edges} connections "
            f"(self-connections included) of kinds {KINDS} that connect() accepts")
