"""Sidecar contract for MosaikRemote.set_data (mosaik/simmanager.py) -- how data that an agent sends with set_data reaches the
inputs_from_set_data table of the addressed simulator (C16: delivered, nothing lost or attributed to another source; refused
with ScenarioError towards a simulator without an async_requests connection).

  data = {src_full_id: {dest_full_id: {attr: value}}} of arbitrary size.  Proved for the real function:

  STORED    after a normal return, for every (src_full_id, dest_full_id, attr) of `data`:
            inputs_from_set_data of simulator sid(dest_full_id) holds value at [eid(dest_full_id)][attr][src_full_id]
  FRAME     every other slot of every simulator's table is as before (nothing invented, nothing attributed to another source
            or another entity / attribute, nothing removed)
  REFUSED   ScenarioError (from _assert_async_requests) IFF some addressed simulator is one this simulator may not send
            asynchronous requests to; nothing is ever written into the table of such a simulator (also not before the raise)
  KeyError  IFF an addressed simulator id does not exist (world.sims[sid]); no other exception

Model / assumptions: strings are an uninterpreted sort; `full_id.split('.', 1)` yields (sid(full_id), eid(full_id)) --
uninterpreted functions, assumed jointly injective (the string is sid + '.' + eid; the string operation itself is exercised by the
bounded stand-in contracts.dataplane_native); distinct simulator ids name distinct SimRunner objects;
the three dict levels of `data` are walked in an arbitrary order, each key once; `_assert_async_requests` is used through its
contract (contracts.scheduler: raises ScenarioError iff the destination is not among the source's successors_to_wait_for, written
here as the uninterpreted predicate may_request); the table is a four-key map with reference semantics (setdefault returns the
live inner dict).  "Exactly once, in A's next step" is the consumer side (get_input_data empties the table: bounded stand-in).
"""
from pyvc.contract import Contract
from pyvc.spec import And, Or, Not, Implies, Iff
try:
    import z3
    from pyvc.values import SymSeq, SymObj, Builtin, Unsupported, Opaque, Func, BoundMethod, is_z3, simp
    from pyvc import extract
except Exception:  # pragma: no cover
    z3 = None

MR = "mosaik.simmanager.MosaikRemote"

if z3 is not None:
    Str = z3.DeclareSort("SStr")
    Sim = z3.DeclareSort("SSimR")
    Val = z3.DeclareSort("SVal")
    B = z3.BoolSort()
    sid_of = z3.Function("sid_of", Str, Str)
    eid_of = z3.Function("eid_of", Str, Str)
    has_sim = z3.Function("world_has_sim", Str, B)
    sim_of = z3.Function("world_sim", Str, Sim)
    may_request = z3.Function("may_send_async_requests_to", Sim, B)
    # the caller's data
    d_src = z3.Function("data_has_src", Str, B)
    d_dest = z3.Function("data_has_dest", Str, Str, B)
    d_attr = z3.Function("data_has_attr", Str, Str, Str, B)
    d_val = z3.Function("data_value", Str, Str, Str, Val)
    # table: sim -> eid -> attr -> src -> (present, value)
    PS = z3.ArraySort(Sim, z3.ArraySort(Str, z3.ArraySort(Str, z3.ArraySort(Str, B))))
    VS = z3.ArraySort(Sim, z3.ArraySort(Str, z3.ArraySort(Str, z3.ArraySort(Str, Val))))

_n = iter(range(1, 10 ** 9))


def _c(prefix, sort):
    return z3.Const(f"{prefix}!s{next(_n)}", sort)


class DataD:
    pass


class DestD:
    def __init__(self, src):
        self.src = src


class AttrD:
    def __init__(self, src, dest):
        self.src, self.dest = src, dest


class Coll:
    is_abstract_collection = True

    def __init__(self, member, item):
        self.member_f, self.item_f = member, item
        self.key_sort = Str

    def arbitrary(self, it):
        return self.item_f(it.p.fresh("key", Str))

    def member(self, x):
        return self.member_f(x)

    def key_of(self, item):
        k = item[0]
        return k.term if isinstance(k, FullId) else k


class WorldT:
    pass


class SimsT:
    pass


class TableT:
    """sim.inputs_from_set_data"""

    def __init__(self, sim):
        self.sim = sim


class EidT:
    def __init__(self, sim, eid):
        self.sim, self.eid = sim, eid


class AttrT:
    def __init__(self, sim, eid, attr):
        self.sim, self.eid, self.attr = sim, eid, attr


class FullId:
    def __init__(self, term):
        self.term = term


class SetDataModel:
    def __init__(self, sess):
        self.s = sess
        sess.models.insert(0, self)
        sess.sdm = self
        self.me = z3.Const("this_simulator", Sim)

    def reset(self, p):
        self.P0, self.V0 = z3.Const("table.present0", PS), z3.Const("table.value0", VS)
        p.ghost["sd"] = {"P": self.P0, "V": self.V0}

    def module_constant(self, it, mod, name):
        if name == "FULL_ID_SEP":
            return "."
        return NotImplemented

    def call(self, it, fn, args, kwargs, node, star):
        if isinstance(fn, BoundMethod) and fn.func.qualname == MR + "._assert_async_requests":
            src_sim, dest_sim = args
            if not (is_z3(src_sim) and src_sim.sort() == Sim and dest_sim is self.me or (is_z3(dest_sim) and dest_sim.eq(self.me))):
                raise Unsupported("_assert_async_requests with other arguments than (addressed simulator, this simulator)")
            # contract of _assert_async_requests (contracts.scheduler.AssertAsyncRequests)
            if it.decide(Not(may_request(src_sim))):
                it.raise_("ScenarioError", node, implicit="_assert_async_requests refuses")
            return None
        return NotImplemented

    def getattr(self, it, obj, name, node):
        if isinstance(obj, SymObj) and obj.cls.name == "MosaikRemote":
            return NotImplemented
        if isinstance(obj, DataD) and name == "items":
            return Builtin("dict.items", lambda it2, n2: Coll(lambda s: d_src(s), lambda s: (s, DestD(s))))
        if isinstance(obj, DestD) and name == "items":
            return Builtin("dict.items", lambda it2, n2, obj=obj: Coll(lambda f: d_dest(obj.src, f), lambda f: (FullId(f), AttrD(obj.src, f))))
        if isinstance(obj, AttrD) and name == "items":
            return Builtin("dict.items", lambda it2, n2, obj=obj: Coll(lambda a: d_attr(obj.src, obj.dest, a),
                                                                         lambda a: (a, d_val(obj.src, obj.dest, a))))
        if isinstance(obj, FullId) and name == "split":
            def split(it2, n2, sep, maxsplit=-1, obj=obj):
                if sep != "." or maxsplit != 1:
                    raise Unsupported("full_id.split with other arguments than ('.', 1)")
                return (sid_of(obj.term), eid_of(obj.term))
            return Builtin("str.split", split)
        if isinstance(obj, WorldT) and name == "sims":
            return SimsT()
        if is_z3(obj) and obj.sort() == Sim and name == "inputs_from_set_data":
            return TableT(obj)
        if isinstance(obj, TableT) and name == "setdefault":
            def sd(it2, n2, key, default=None, obj=obj):
                if default != {}:
                    raise Unsupported("setdefault with a non-empty default")
                return EidT(obj.sim, key)
            return Builtin("dict.setdefault", sd)
        if isinstance(obj, EidT) and name == "setdefault":
            def sd2(it2, n2, key, default=None, obj=obj):
                if default != {}:
                    raise Unsupported("setdefault with a non-empty default")
                return AttrT(obj.sim, obj.eid, key)
            return Builtin("dict.setdefault", sd2)
        return NotImplemented

    def getitem(self, it, obj, idx, node):
        if isinstance(obj, SimsT):
            it.check_raise(Not(has_sim(idx)), "KeyError", node, "world.sims[sid]")
            return sim_of(idx)
        return NotImplemented

    def setitem(self, it, obj, idx, v, node):
        if isinstance(obj, AttrT):
            if isinstance(idx, FullId):
                idx = idx.term
            g = dict(it.p.ghost["sd"])
            P, V = g["P"], g["V"]
            s, e, a = obj.sim, obj.eid, obj.attr
            g["P"] = z3.Store(P, s, z3.Store(P[s], e, z3.Store(P[s][e], a, z3.Store(P[s][e][a], idx, True))))
            g["V"] = z3.Store(V, s, z3.Store(V[s], e, z3.Store(V[s][e], a, z3.Store(V[s][e][a], idx, v))))
            it.p.ghost["sd"] = g
            return True
        return NotImplemented

    def iter_plan(self, it, x):
        if getattr(x, "is_abstract_collection", False):
            return ("abstract", x)
        return NotImplemented

    def dict_display(self, it, e, env):
        if not e.keys:
            return {}
        return NotImplemented

    def havoc_loop_heap(self, it, st, env):
        it.p.ghost["sd"] = {"P": it.p.fresh("table.present", PS), "V": it.p.fresh("table.value", VS)}
        return None


def configure(sess):
    SetDataModel(sess)
    extract.load_module("mosaik.simmanager")


def slot_written(src, full, attr):
    return And(d_src(src), d_dest(src, full), d_attr(src, full, attr))


class SetData(Contract):
    target = MR + ".set_data"
    property_ids = ["C16"]
    configure = "configure"

    def make_args(self, mk):
        m = mk.s.sdm
        self._m = m
        self._st = {}
        return {"self": mk.obj(MR, world=WorldT(), sim=m.me, sid=Opaque("sid")), "data": DataD()}

    def setup(self, p, A, mk):
        self._p = p
        mk.s.sdm.reset(p)
        # assumed facts about the abstracted string operation and the world's simulator table:
        #   'sid.eid'.split('.', 1) determines the string (it is sid + '.' + eid); distinct simulator ids name distinct SimRunners
        f1, f2 = _c("f", Str), _c("f", Str)
        p.assume(z3.ForAll([f1, f2], Implies(And(sid_of(f1) == sid_of(f2), eid_of(f1) == eid_of(f2)), f1 == f2)))
        p.assume(z3.ForAll([f1, f2], Implies(And(has_sim(f1), has_sim(f2), sim_of(f1) == sim_of(f2)), f1 == f2)))

    def requires(self, A):
        return True

    # ---- the specification: which slots are written, by whom
    def table(self, g, done):
        """table = old table overwritten at exactly the slots (sim(full), eid(full), attr, src) of the data items for which done(src, full, attr)"""
        m = self._m
        s, e, a, src = _c("s", Sim), _c("e", Str), _c("a", Str), _c("src", Str)
        f = _c("f", Str)
        hit = z3.Exists([f], And(slot_written(src, f, a), done(src, f, a), sim_of(sid_of(f)) == s, eid_of(f) == e))
        f2 = _c("f", Str)
        return {"stored": z3.ForAll([src, f2, a], Implies(And(slot_written(src, f2, a), done(src, f2, a)),
                                                          And(g["P"][sim_of(sid_of(f2))][eid_of(f2)][a][src],
                                                              g["V"][sim_of(sid_of(f2))][eid_of(f2)][a][src] == d_val(src, f2, a)))),
                "frame": z3.ForAll([s, e, a, src], Implies(Not(hit), And(g["P"][s][e][a][src] == m.P0[s][e][a][src],
                                                                        g["V"][s][e][a][src] == m.V0[s][e][a][src])))}

    def never_into_a_refusing_simulator(self, g):
        m = self._m
        s, e, a, src = _c("s", Sim), _c("e", Str), _c("a", Str), _c("src", Str)
        return z3.ForAll([s, e, a, src], Implies(Not(may_request(s)), And(g["P"][s][e][a][src] == m.P0[s][e][a][src],
                                                                          g["V"][s][e][a][src] == m.V0[s][e][a][src])))

    def all_allowed(self, cond):
        src, f = _c("src", Str), _c("f", Str)
        return z3.ForAll([src, f], Implies(And(d_src(src), d_dest(src, f), cond(src, f)),
                                           And(has_sim(sid_of(f)), may_request(sim_of(sid_of(f))))))

    def _l0(self, k, v, A):
        g = v._i.p.ghost["sd"]
        seen = v.seen
        self._st[0] = seen
        out = self.table(g, lambda src, f, a: seen[src])
        out["processed_destinations_allowed"] = self.all_allowed(lambda src, f: seen[src])
        out["never_into_a_refusing_simulator"] = self.never_into_a_refusing_simulator(g)
        return out

    def _l1(self, k, v, A):
        g = v._i.p.ghost["sd"]
        seen0, seen1, cur = self._st[0], v.seen, v.src_full_id
        self._st[1] = seen1
        out = self.table(g, lambda src, f, a: Or(seen0[src], And(src == cur, seen1[f])))
        out["processed_destinations_allowed"] = self.all_allowed(lambda src, f: Or(seen0[src], And(src == cur, seen1[f])))
        out["never_into_a_refusing_simulator"] = self.never_into_a_refusing_simulator(g)
        out["current_source"] = And(d_src(cur), Not(seen0[cur]))
        return out

    def _l2(self, k, v, A):
        g = v._i.p.ghost["sd"]
        seen0, seen1, seen2, cur = self._st[0], self._st[1], v.seen, v.src_full_id
        fid = v.full_id.term if isinstance(v.full_id, FullId) else v.full_id
        out = self.table(g, lambda src, f, a: Or(seen0[src], And(src == cur, seen1[f]), And(src == cur, f == fid, seen2[a])))
        out["processed_destinations_allowed"] = self.all_allowed(lambda src, f: Or(seen0[src], And(src == cur, Or(seen1[f], f == fid))))
        out["never_into_a_refusing_simulator"] = self.never_into_a_refusing_simulator(g)
        out["current_destination"] = And(d_src(cur), Not(seen0[cur]), d_dest(cur, fid), Not(seen1[fid]), has_sim(sid_of(fid)),
                                         v.src_sim == sim_of(sid_of(fid)), v.sid == sid_of(fid), v.eid == eid_of(fid),
                                         isinstance(v.inputs, EidT) and And(v.inputs.sim == v.src_sim, v.inputs.eid == v.eid))
        return out

    loops = {0: lambda c, k, v, A: c._l0(k, v, A), 1: lambda c, k, v, A: c._l1(k, v, A), 2: lambda c, k, v, A: c._l2(k, v, A)}

    def some_refused(self):
        src, f = _c("src", Str), _c("f", Str)
        return z3.Exists([src, f], And(d_src(src), d_dest(src, f), has_sim(sid_of(f)), Not(may_request(sim_of(sid_of(f))))))

    def some_unknown(self):
        src, f = _c("src", Str), _c("f", Str)
        return z3.Exists([src, f], And(d_src(src), d_dest(src, f), Not(has_sim(sid_of(f)))))

    def raise_allowed(self, A, e):
        if e.cls == "ScenarioError":
            return self.some_refused()
        if e.cls == "KeyError":
            return self.some_unknown()
        return None

    def raise_post(self, A, e):
        return self.never_into_a_refusing_simulator(self._p.ghost["sd"])

    def split_post(self, A, result):
        g = self._p.ghost["sd"]
        t = self.table(g, lambda src, f, a: z3.BoolVal(True))
        return {"STORED_every_value_under_its_source_at_the_addressed_entity_and_attribute": t["stored"],
                "FRAME_every_other_slot_untouched": t["frame"],
                "accepted_only_if_every_addressed_simulator_allows_it": And(Not(self.some_refused()), Not(self.some_unknown())),
                "never_into_a_refusing_simulator": self.never_into_a_refusing_simulator(g)}

    # ---- native: the stand-in's family against the real MosaikRemote
    def native_search(self, budget):
        yield {"family": "contracts.dataplane_native.bounded_set_data (quick bound)"}

    def native_call(self, m):
        from contracts.dataplane_native import bounded_set_data
        r = bounded_set_data("quick", 0)
        if r["failures"]:
            return False, r["failures"][0]["desc"]
        return True, f"{r['cases']} small set_data calls against the real MosaikRemote: as specified"


CONTRACTS = [SetData()]
