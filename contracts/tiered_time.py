"""Sidecar contracts for mosaik/tiered_time.py (property C08; algebra axioms A1-A8 for
the scheduler proofs get their provenance from the obligations generated here).

Spec functions are dual-mode (pyvc.spec): z3 formulas in proof mode, Python bools
when a counter-model is replayed natively against the real classes.
"""
from pyvc.spec import And, Or, Not, Implies, Iff, If, Min, Max, forall, exists, len_, seq_eq, lex_lt, lex_le
from pyvc.contract import Contract, Lemma

TI = "mosaik.tiered_time.TieredInterval"
TT = "mosaik.tiered_time.TieredTime"


# ------------------------------------------------------------------ spec functions
def wf(I):
    """class invariant of TieredInterval (the three asserts of __init__)"""
    return And(1 <= I.cutoff, I.cutoff <= I.pre_length, I.cutoff <= len_(I.tiers))


def nonneg(xs):
    return forall(0, len_(xs), lambda j: xs[j] >= 0)


def act_at(t, I, i):
    """tier i of (TieredTime(*t) + I): add below the cut-off, overwrite from it on"""
    return If(i < I.cutoff, _at(t, i) + _at(I.tiers, i), _at(I.tiers, i))


class Act:
    """the sequence act(t, I) as an indexable spec object (length len(I))"""

    def __init__(self, t, I):
        self.t, self.I = t, I

    def sym_len(self):
        return len_(self.I.tiers)

    def __len__(self):
        return len(self.I.tiers)

    def __getitem__(self, i):
        return act_at(self.t, self.I, i)


def _at(seq, i):
    """seq[i]; evaluated natively the spec's If() computes both branches, so an index that only the untaken branch uses may
    lie outside the sequence: any value will do there"""
    if isinstance(i, int) and not isinstance(i, bool) and hasattr(seq, "__len__") and not (0 <= i < len(seq)):
        return 0
    return seq[i]


def comp_at(a, b, i):
    """tier i of (a + b) for wf a, b with len(a) == b.pre_length: below b's cut-off the
    tiers add (a's own tier counts whether a added or overwrote there), from b's cut-off
    on b overwrites"""
    return If(i < b.cutoff, _at(a.tiers, i) + _at(b.tiers, i), _at(b.tiers, i))


class Comp:
    """spec view of a + b (shape and tiers), usable wherever an interval is expected"""

    def __init__(self, a, b):
        self.a, self.b = a, b
        self.pre_length = a.pre_length
        self.cutoff = Min(a.cutoff, b.cutoff)
        self.tiers = _CompTiers(a, b)


class _CompTiers:
    def __init__(self, a, b):
        self.a, self.b = a, b

    def sym_len(self):
        return len_(self.b.tiers)

    def __len__(self):
        return len(self.b.tiers)

    def __getitem__(self, i):
        return comp_at(self.a, self.b, i)


def prefix_eq(a, b, k):
    return forall(0, k, lambda j: a.tiers[j] == b.tiers[j])


def clash(a, b):
    """the condition under which a < b raises 'incomparable': the first differing tier
    lies where the smaller side adds and the other overwrites"""
    n = Min(len_(a.tiers), len_(b.tiers))
    return exists(0, n, lambda i: And(
        prefix_eq(a, b, i),
        Or(And(a.tiers[i] < b.tiers[i], b.cutoff <= i, i < a.cutoff),
           And(a.tiers[i] > b.tiers[i], a.cutoff <= i, i < b.cutoff))))


def k_mixed(a, b):
    """K_mixed (DESIGN 8-C08, known finding F11): different cut-offs and the comparison
    reaches the zone where one delay adds and the other overwrites"""
    return And(a.cutoff != b.cutoff, prefix_eq(a, b, Min(a.cutoff, b.cutoff)))


def same_shape(a, b):
    return And(len_(a.tiers) == len_(b.tiers), a.pre_length == b.pre_length)


def ti_eq(a, b):
    """dataclass-generated __eq__ of TieredInterval"""
    return And(a.pre_length == b.pre_length, a.cutoff == b.cutoff, seq_eq(a.tiers, b.tiers))


def code_lt(a, b):
    """what `a < b` returns when it does not raise (postcondition of __lt__)"""
    return lex_lt(a.tiers, b.tiers)


# ------------------------------------------------------------------ symbolic inputs
def mk_interval(mk, name):
    return mk.obj(TI, pre_length=mk.int(name + ".pre_length"), cutoff=mk.int(name + ".cutoff"),
                  tiers=mk.seq(name + ".tiers"))


def mk_time(mk, name):
    return mk.obj(TT, tiers=mk.seq(name + ".tiers"))


def native_interval(d):
    from mosaik.tiered_time import TieredInterval
    return TieredInterval(*d["tiers"], cutoff=d["cutoff"], pre_length=d["pre_length"])


def native_time(d):
    from mosaik.tiered_time import TieredTime
    return TieredTime(*d["tiers"])


def native_wf(d):
    return 1 <= d["cutoff"] <= d["pre_length"] and d["cutoff"] <= len(d["tiers"])


def small_intervals(maxlen=3, vals=(0, 1, 2)):
    """small scope for native search: all well-formed shapes up to maxlen, tiers from vals"""
    import itertools
    for n in range(1, maxlen + 1):
        for p in range(1, maxlen + 1):
            for c in range(1, min(n, p) + 1):
                for tiers in itertools.product(vals, repeat=n):
                    yield {"pre_length": p, "cutoff": c, "tiers": list(tiers)}


def small_interval_pairs(maxlen=3, vals=(0, 1, 2)):
    """pairs of one shape (len, pre_length) -- cut-offs may differ"""
    by_shape = {}
    for d in small_intervals(maxlen, vals):
        by_shape.setdefault((len(d["tiers"]), d["pre_length"]), []).append(d)
    for lst in by_shape.values():
        for a in lst:
            for b in lst:
                yield a, b


# ------------------------------------------------------------------ L1 contracts
class TupleAdd(Contract):
    target = "mosaik.tiered_time.tuple_add"
    property_ids = ["C08"]

    def make_args(self, mk):
        return {"xs": mk.seq("xs"), "ys": mk.seq("ys")}

    def ensures(self, A, result):
        n = Min(len_(A.xs), len_(A.ys))
        return And(len_(result) == n, forall(0, n, lambda j: result[j] == A.xs[j] + A.ys[j]))

    def native_call(self, m):
        from mosaik.tiered_time import tuple_add
        xs, ys = tuple(m["xs"]), tuple(m["ys"])
        r = tuple_add(xs, ys)
        return r == tuple(x + y for x, y in zip(xs, ys)), f"tuple_add({xs}, {ys}) = {r}"


class IntervalInit(Contract):
    target = TI + ".__init__"
    property_ids = ["C08"]
    variants = [
        {"cutoff_none": True, "pre_none": True}, {"cutoff_none": True, "pre_none": False},
        {"cutoff_none": False, "pre_none": True}, {"cutoff_none": False, "pre_none": False},
    ]

    def make_args(self, mk, cutoff_none=False, pre_none=False):
        return {"self": mk.blank(TI), "tiers": mk.seq("tiers"),
                "cutoff": None if cutoff_none else mk.int("cutoff"),
                "pre_length": None if pre_none else mk.int("pre_length")}

    @staticmethod
    def _defaults(tiers, cutoff, pre_length):
        c = len_(tiers) if cutoff is None else cutoff
        p = c if pre_length is None else pre_length
        return c, p

    def _bad(self, A):
        c, p = self._defaults(A.tiers, A.cutoff, A.pre_length)
        return Not(And(1 <= c, c <= p, c <= len_(A.tiers)))

    @property
    def raises(self):
        return {"AssertionError": self._bad}

    def ensures(self, A, result):
        s = A.self
        c, p = self._defaults(A.tiers, A.cutoff, A.pre_length)
        return And(result is None, s.cutoff == c, s.pre_length == p, seq_eq(s.tiers, A.tiers), wf(s))

    def native_call(self, m):
        from mosaik.tiered_time import TieredInterval
        kw = {}
        if "cutoff" in m:
            kw["cutoff"] = m["cutoff"]
        if "pre_length" in m:
            kw["pre_length"] = m["pre_length"]
        tiers = tuple(m["tiers"])
        c, p = self._defaults(tiers, kw.get("cutoff"), kw.get("pre_length"))
        bad = not (1 <= c and c <= p and c <= len(tiers))
        try:
            o = TieredInterval(*tiers, **kw)
        except AssertionError:
            return bad, f"TieredInterval(*{tiers}, **{kw}) raised AssertionError"
        return (not bad) and o.cutoff == c and o.pre_length == p and o.tiers == tiers, \
            f"TieredInterval(*{tiers}, **{kw}) = {o!r} cutoff={o.cutoff} pre_length={o.pre_length}"


class IntervalAdd(Contract):
    """a + b: composition of delays"""
    target = TI + ".__add__"
    property_ids = ["C08"]

    def make_args(self, mk):
        return {"self": mk_interval(mk, "a"), "other": mk_interval(mk, "b")}

    def requires(self, A):
        return And(wf(A.self), wf(A.other), len_(A.self.tiers) == A.other.pre_length)

    def ensures(self, A, result):
        a, b = A.self, A.other
        n = len_(b.tiers)
        return And(
            wf(result),
            result.pre_length == a.pre_length,
            len_(result.tiers) == n,
            result.cutoff == Min(a.cutoff, b.cutoff),
            forall(0, n, lambda i: result.tiers[i] == comp_at(a, b, i)),
        )

    def property_post(self, mk, A, result):
        """from the property statement: combining delays agrees with applying them one
        after the other -- for an arbitrary departure time t and every tier i"""
        a = A.self
        t = mk.seq("t")
        i = mk.int("i")
        hyp = And(len_(t) == a.pre_length, 0 <= i, i < len_(A.other.tiers))
        return Implies(hyp, act_at(Act(t, a), A.other, i) == act_at(t, result, i))

    def native_search(self, budget):
        n = 0
        for a in small_intervals():
            for b in small_intervals():
                if len(a["tiers"]) == b["pre_length"]:
                    yield {"a": a, "b": b}
                    n += 1
                    if n >= budget:
                        return

    def native_call(self, m):
        from mosaik.tiered_time import TieredTime
        from pyvc.contract import Args
        if not (native_wf(m["a"]) and native_wf(m["b"]) and len(m["a"]["tiers"]) == m["b"]["pre_length"]):
            return True, "requires does not hold for the model values"
        a, b = native_interval(m["a"]), native_interval(m["b"])
        r = a + b
        ok = bool(self.ensures(Args({"self": a, "other": b}), r))
        msg = f"{a!r} + {b!r} = {r!r} (cutoff {r.cutoff})"
        ts = [tuple(m["t"])] if "t" in m and len(m["t"]) == a.pre_length else []
        ts.append(tuple(range(1, a.pre_length + 1)))
        for tt in ts:
            t = TieredTime(*tt)
            lhs, rhs = (t + a) + b, t + r
            if lhs != rhs:
                ok = False
                msg += f"; ({t!r}+a)+b = {lhs!r} but {t!r}+(a+b) = {rhs!r}"
        return ok, msg


class IntervalLt(Contract):
    """a < b on delays"""
    target = TI + ".__lt__"
    property_ids = ["C08"]

    def make_args(self, mk):
        return {"self": mk_interval(mk, "a"), "other": mk_interval(mk, "b")}

    def requires(self, A):
        return And(wf(A.self), wf(A.other))

    @property
    def raises(self):
        return {"AssertionError": lambda A: Or(Not(same_shape(A.self, A.other)), clash(A.self, A.other))}

    def ensures(self, A, result):
        return Iff(result, code_lt(A.self, A.other))

    loops = {
        0: lambda c, index, v, A: forall(0, index, lambda j: A.self.tiers[j] == A.other.tiers[j]),
    }

    def result(self, mk, p, A):
        return p.fresh("lt", "bool")

    def native_search(self, budget):
        n = 0
        for a, b in small_interval_pairs():
            yield {"a": a, "b": b, "t": [0] * a["pre_length"]}
            n += 1
            if n >= budget:
                return

    def property_post(self, mk, A, result):
        """from the property statement: a smaller delay never yields a later arrival time
        for any departure time (outside the recorded finding K_mixed)"""
        a, b = A.self, A.other
        t = mk.seq("t")
        hyp = And(result, Not(k_mixed(a, b)), len_(t) == a.pre_length, nonneg(t))
        return Implies(hyp, lex_le(Act(t, a), Act(t, b)))

    def native_call(self, m):
        from mosaik.tiered_time import TieredTime
        from pyvc.contract import Args
        if not (native_wf(m["a"]) and native_wf(m["b"])):
            return True, "requires does not hold for the model values"
        a, b = native_interval(m["a"]), native_interval(m["b"])
        A = Args({"self": a, "other": b})
        expect_raise = bool(self.raises["AssertionError"](A))
        try:
            r = a < b
        except AssertionError as e:
            return expect_raise, f"{a!r} < {b!r} raised AssertionError({e})"
        if expect_raise:
            return False, f"{a!r} < {b!r} returned {r} but the contract demands AssertionError"
        ok = bool(self.ensures(A, r))
        msg = f"{a!r} < {b!r} = {r}"
        # the other comparison operators (derived by functools.total_ordering unless the class defines them): for a pair the
        # order decides -- exactly one of <, ==, > by the contract of __lt__ -- they must agree with it (C08: 'exactly one of
        # <, =, > holds')
        B = Args({"self": b, "other": a})
        if ok and not bool(self.raises["AssertionError"](B)):
            lt_ab, lt_ba, eq = bool(code_lt(a, b)), bool(code_lt(b, a)), bool(ti_eq(a, b))
            if lt_ab + lt_ba + eq == 1:
                got = {"==": a == b, ">": a > b, "<=": a <= b, ">=": a >= b, "!=": a != b}
                exp = {"==": eq, ">": lt_ba, "<=": lt_ab or eq, ">=": lt_ba or eq, "!=": not eq}
                wrong = [f"{a!r} {op} {b!r} is {got[op]} (expected {exp[op]})" for op in got if bool(got[op]) != exp[op]]
                if wrong:
                    ok = False
                    msg += "; " + "; ".join(wrong)
        if ok and a == b:
            # C08: equal delays are interchangeable -- the same arrival time for every departure time
            for tt in (tuple([0] * a.pre_length), tuple(range(7, 7 + a.pre_length)), tuple(range(3, 3 + a.pre_length))[::-1]):
                t = TieredTime(*tt)
                if (t + a) != (t + b):
                    ok = False
                    msg += f"; {a!r} == {b!r} but {t!r}+a = {t + a!r} and {t!r}+b = {t + b!r}"
                    break
        if ok and r and not k_mixed(a, b):
            ts = [tuple(m["t"])] if "t" in m and len(m["t"]) == a.pre_length and all(x >= 0 for x in m["t"]) else []
            ts += [tuple([0] * a.pre_length), tuple(range(7, 7 + a.pre_length))]
            for tt in ts:
                t = TieredTime(*tt)
                if not (t + a) <= (t + b):
                    ok = False
                    msg += f"; but {t!r}+a = {t + a!r} > {t!r}+b = {t + b!r}"
        return ok, msg


class TimeAdd(Contract):
    target = TT + ".__add__"
    property_ids = ["C08"]

    def make_args(self, mk):
        return {"self": mk_time(mk, "t"), "interval": mk_interval(mk, "a")}

    def requires(self, A):
        return wf(A.interval)

    @property
    def raises(self):
        return {"AssertionError": lambda A: len_(A.self.tiers) != A.interval.pre_length}

    def ensures(self, A, result):
        n = len_(A.interval.tiers)
        return And(len_(result.tiers) == n,
                   forall(0, n, lambda i: result.tiers[i] == act_at(A.self.tiers, A.interval, i)))

    def native_call(self, m):
        from pyvc.contract import Args
        if not native_wf(m["a"]):
            return True, "requires does not hold for the model values"
        t, a = native_time(m["t"]), native_interval(m["a"])
        expect_raise = len(t.tiers) != a.pre_length
        try:
            r = t + a
        except AssertionError:
            return expect_raise, f"{t!r} + {a!r} raised AssertionError"
        return (not expect_raise) and bool(self.ensures(Args({"self": t, "interval": a}), r)), f"{t!r} + {a!r} = {r!r}"


class TimeLt(Contract):
    target = TT + ".__lt__"
    property_ids = ["C08"]

    def make_args(self, mk):
        return {"self": mk_time(mk, "t"), "other": mk_time(mk, "u")}

    @property
    def raises(self):
        return {"AssertionError": lambda A: len_(A.self.tiers) != len_(A.other.tiers)}

    def ensures(self, A, result):
        return Iff(result, lex_lt(A.self.tiers, A.other.tiers))

    def native_call(self, m):
        t, u = native_time(m["t"]), native_time(m["u"])
        expect_raise = len(t.tiers) != len(u.tiers)
        try:
            r = t < u
        except AssertionError:
            return expect_raise, f"{t!r} < {u!r} raised AssertionError"
        return (not expect_raise) and r == (t.tiers < u.tiers), f"{t!r} < {u!r} = {r}"


class TimeTime(Contract):
    target = TT + ".time"
    property_ids = ["C08"]

    def make_args(self, mk):
        return {"self": mk_time(mk, "t")}

    def requires(self, A):
        return len_(A.self.tiers) >= 1

    def ensures(self, A, result):
        return result == A.self.tiers[0]

    def native_call(self, m):
        if len(m["t"]["tiers"]) < 1:
            return True, "requires does not hold"
        t = native_time(m["t"])
        return t.time == t.tiers[0], f"{t!r}.time = {t.time}"


CONTRACTS = [TupleAdd(), IntervalInit(), IntervalAdd(), IntervalLt(), TimeAdd(), TimeLt(), TimeTime()]


# ------------------------------------------------------------------ L3 lemmas
# They are stated over the *postconditions* of the L1 contracts above (code_lt is what
# `<` returns, comp_at what `+` builds, act_at what TieredTime.__add__ computes), so they
# hold for the real code exactly as long as those L1 obligations are discharged.

def first_diff(x, y, n):
    """two sequences agree on [0, n) or have a first difference below n"""
    return Or(forall(0, n, lambda j: x[j] == y[j]),
              exists(0, n, lambda k: And(forall(0, k, lambda j: x[j] == y[j]), x[k] != y[k])))


class LexFirstDiffBase(Lemma):
    """induction base for first_diff (n = 0)"""
    name = "lex_first_diff_base"
    property_ids = ["C08"]

    def statement(self, mk):
        x, y = mk.seq("x"), mk.seq("y")
        return [], first_diff(x, y, 0)


class LexFirstDiffStep(Lemma):
    """induction step for first_diff: n -> n + 1 (same x, y: the statement is pointwise in
    the sequences, so ordinary induction on n applies)"""
    name = "lex_first_diff_step"
    property_ids = ["C08"]

    def statement(self, mk):
        x, y = mk.seq("x"), mk.seq("y")
        n = mk.int("n")
        return [n >= 0, first_diff(x, y, n)], first_diff(x, y, n + 1)


class LtIrreflexive(Lemma):
    """not a < a"""
    name = "lt_irreflexive"
    property_ids = ["C08"]

    def statement(self, mk):
        a = mk_interval(mk, "a")
        return [wf(a)], Not(code_lt(a, a))

    def native_check(self, m):
        a = native_interval(m["a"])
        return not (a < a), f"{a!r} < itself = {a < a}"


class LtAsymmetric(Lemma):
    """a < b excludes b < a"""
    name = "lt_asymmetric"
    property_ids = ["C08"]

    def statement(self, mk):
        a, b = mk_interval(mk, "a"), mk_interval(mk, "b")
        return [wf(a), wf(b), same_shape(a, b), code_lt(a, b)], Not(code_lt(b, a))

    def native_check(self, m):
        a, b = native_interval(m["a"]), native_interval(m["b"])
        try:
            r1, r2 = a < b, b < a
        except AssertionError:
            return True, "comparison raises (incomparable)"
        return not (r1 and r2), f"{a!r} < {b!r} = {r1}, reverse = {r2}"


class LtTransitive(Lemma):
    """a < b and b < c imply a < c"""
    name = "lt_transitive"
    property_ids = ["C08"]

    def statement(self, mk):
        a, b, c = mk_interval(mk, "a"), mk_interval(mk, "b"), mk_interval(mk, "c")
        return [wf(a), wf(b), wf(c), same_shape(a, b), same_shape(b, c), code_lt(a, b), code_lt(b, c)], code_lt(a, c)

    def native_check(self, m):
        a, b, c = native_interval(m["a"]), native_interval(m["b"]), native_interval(m["c"])
        try:
            r1, r2, r3 = a < b, b < c, a < c
        except AssertionError:
            return True, "a comparison raises (incomparable)"
        return (not (r1 and r2)) or r3, f"a<b={r1} b<c={r2} a<c={r3} for {a!r}, {b!r}, {c!r}"


class Trichotomy(Lemma):
    """for comparable delays (no clash either way, outside K_mixed) exactly one of
    a < b, a == b, b < a holds"""
    name = "trichotomy"
    property_ids = ["C08"]
    uses = ["lex_first_diff_base", "lex_first_diff_step"]

    def statement(self, mk):
        a, b = mk_interval(mk, "a"), mk_interval(mk, "b")
        n = len_(a.tiers)
        lt, gt, eq = code_lt(a, b), code_lt(b, a), ti_eq(a, b)
        hyps = [wf(a), wf(b), same_shape(a, b), Not(clash(a, b)), Not(clash(b, a)), Not(k_mixed(a, b)),
                first_diff(a.tiers, b.tiers, n)]
        goal = And(Or(lt, eq, gt), Not(And(lt, eq)), Not(And(lt, gt)), Not(And(eq, gt)))
        return hyps, goal

    def native_check(self, m):
        a, b = native_interval(m["a"]), native_interval(m["b"])
        if k_mixed(a, b) or len(a) != len(b) or a.pre_length != b.pre_length:
            return True, "outside the lemma's hypotheses"
        try:
            lt, gt = a < b, b < a
        except AssertionError:
            return True, "comparison raises (incomparable)"
        eq = a == b
        return [lt, eq, gt].count(True) == 1, f"{a!r} vs {b!r}: < {lt}, == {eq}, > {gt}"


class DerivedOrderConsistent(Lemma):
    """total_ordering's derived operators agree with the reversed '<':
    (a > b) == (b < a) and (a <= b) == not (b < a), outside K_mixed"""
    name = "derived_order_consistent"
    property_ids = ["C08"]
    uses = ["lex_first_diff_base", "lex_first_diff_step"]

    def statement(self, mk):
        a, b = mk_interval(mk, "a"), mk_interval(mk, "b")
        n = len_(a.tiers)
        lt, rlt, eq = code_lt(a, b), code_lt(b, a), ti_eq(a, b)
        gt = And(Not(lt), Not(eq))   # functools.total_ordering: __gt__ from __lt__
        le = Or(lt, eq)               # __le__ from __lt__
        hyps = [wf(a), wf(b), same_shape(a, b), Not(clash(a, b)), Not(clash(b, a)), Not(k_mixed(a, b)),
                first_diff(a.tiers, b.tiers, n)]
        return hyps, And(Iff(gt, rlt), Iff(le, Not(rlt)))

    def native_check(self, m):
        a, b = native_interval(m["a"]), native_interval(m["b"])
        if k_mixed(a, b) or len(a) != len(b) or a.pre_length != b.pre_length:
            return True, "outside the lemma's hypotheses"
        try:
            return (a > b) == (b < a) and (a <= b) == (not (b < a)), f"{a!r} vs {b!r}: a>b {a > b}, b<a {b < a}, a<=b {a <= b}"
        except AssertionError:
            return True, "comparison raises (incomparable)"


class DelayMonotone(Lemma):
    """A3: a smaller delay never yields a later arrival: a < b (no clash, outside K_mixed)
    implies t + a <= t + b for every departure time t >= 0"""
    name = "delay_monotone"
    property_ids = ["C08"]
    provides_axiom = "A3"

    def statement(self, mk):
        a, b = mk_interval(mk, "a"), mk_interval(mk, "b")
        t = mk.seq("t")
        hyps = [wf(a), wf(b), same_shape(a, b), Not(clash(a, b)), Not(k_mixed(a, b)), code_lt(a, b),
                len_(t) == a.pre_length, nonneg(t)]
        return hyps, lex_le(Act(t, a), Act(t, b))

    def native_check(self, m):
        a, b = native_interval(m["a"]), native_interval(m["b"])
        if k_mixed(a, b) or len(m["t"]) != a.pre_length or min(m["t"], default=0) < 0:
            return True, "outside the lemma's hypotheses"
        t = native_time({"tiers": m["t"]})
        try:
            if not a < b:
                return True, "not a < b"
        except AssertionError:
            return True, "comparison raises"
        return (t + a) <= (t + b), f"{a!r} < {b!r} but {t!r}+a = {t + a!r}, {t!r}+b = {t + b!r}"


class TimeMonotone(Lemma):
    """A2: t <= u implies t + a <= u + a"""
    name = "time_monotone"
    property_ids = ["C08"]
    provides_axiom = "A2"

    def statement(self, mk):
        a = mk_interval(mk, "a")
        t, u = mk.seq("t"), mk.seq("u")
        hyps = [wf(a), len_(t) == a.pre_length, len_(u) == a.pre_length, lex_le(t, u)]
        return hyps, lex_le(Act(t, a), Act(u, a))

    def native_check(self, m):
        a = native_interval(m["a"])
        if len(m["t"]) != a.pre_length or len(m["u"]) != a.pre_length or not tuple(m["t"]) <= tuple(m["u"]):
            return True, "outside the lemma's hypotheses"
        t, u = native_time({"tiers": m["t"]}), native_time({"tiers": m["u"]})
        return (t + a) <= (u + a), f"{t!r}+a = {t + a!r}, {u!r}+a = {u + a!r}"


class NeverBackwards(Lemma):
    """A6: adding a delay with non-negative tiers never moves time backwards: the world time
    does not decrease, and t + a >= t + (zero delay of a's shape)"""
    name = "never_backwards"
    property_ids = ["C08"]
    provides_axiom = "A6"
    uses = ["lex_first_diff_base", "lex_first_diff_step"]

    def statement(self, mk):
        a = mk_interval(mk, "a")
        t = mk.seq("t")
        z = _ZeroLike(a)
        hyps = [wf(a), nonneg(a.tiers), len_(t) == a.pre_length,
                first_diff(Act(t, z), Act(t, a), len_(a.tiers))]
        return hyps, And(act_at(t, a, 0) >= t[0], lex_le(Act(t, z), Act(t, a)))

    def native_check(self, m):
        from mosaik.tiered_time import TieredInterval
        a = native_interval(m["a"])
        if len(m["t"]) != a.pre_length or min(a.tiers, default=0) < 0:
            return True, "outside the lemma's hypotheses"
        t = native_time({"tiers": m["t"]})
        z = TieredInterval(*([0] * len(a)), cutoff=a.cutoff, pre_length=a.pre_length)
        return (t + a).time >= t.time and (t + z) <= (t + a), f"{t!r}+a = {t + a!r}, {t!r}+0 = {t + z!r}"


class _ZeroLike:
    def __init__(self, a):
        self.pre_length, self.cutoff = a.pre_length, a.cutoff
        self.tiers = _Zeros(a)


class _Zeros:
    def __init__(self, a):
        self.a = a

    def sym_len(self):
        return len_(self.a.tiers)

    def __getitem__(self, i):
        return 0


class ActionLaw(Lemma):
    """A4: (t + a) + b == t + (a + b), tier by tier"""
    name = "action_law"
    property_ids = ["C08"]
    provides_axiom = "A4"

    def statement(self, mk):
        a, b = mk_interval(mk, "a"), mk_interval(mk, "b")
        t = mk.seq("t")
        i = mk.int("i")
        hyps = [wf(a), wf(b), len_(a.tiers) == b.pre_length, len_(t) == a.pre_length, 0 <= i, i < len_(b.tiers)]
        return hyps, act_at(Act(t, a), b, i) == act_at(t, Comp(a, b), i)

    def native_check(self, m):
        a, b = native_interval(m["a"]), native_interval(m["b"])
        if len(a) != b.pre_length or len(m["t"]) != a.pre_length:
            return True, "outside the lemma's hypotheses"
        t = native_time({"tiers": m["t"]})
        return (t + a) + b == t + (a + b), f"({t!r}+a)+b = {(t + a) + b!r}, t+(a+b) = {t + (a + b)!r}"


class CompAssociative(Lemma):
    """A5: (a + b) + c == a + (b + c) (shape and every tier)"""
    name = "comp_associative"
    property_ids = ["C08"]
    provides_axiom = "A5"

    def statement(self, mk):
        a, b, c = mk_interval(mk, "a"), mk_interval(mk, "b"), mk_interval(mk, "c")
        i = mk.int("i")
        l, r = Comp(Comp(a, b), c), Comp(a, Comp(b, c))
        hyps = [wf(a), wf(b), wf(c), len_(a.tiers) == b.pre_length, len_(b.tiers) == c.pre_length,
                0 <= i, i < len_(c.tiers)]
        return hyps, And(l.pre_length == r.pre_length, l.cutoff == r.cutoff,
                         len_(l.tiers) == len_(r.tiers), l.tiers[i] == r.tiers[i])

    def native_check(self, m):
        a, b, c = native_interval(m["a"]), native_interval(m["b"]), native_interval(m["c"])
        if len(a) != b.pre_length or len(b) != c.pre_length:
            return True, "outside the lemma's hypotheses"
        return (a + b) + c == a + (b + c), f"(a+b)+c = {(a + b) + c!r}, a+(b+c) = {a + (b + c)!r}"


class CompMonotoneRight(Lemma):
    """composition is monotone in its second argument for equal cut-offs (used for path
    minima): b <= b' (same shape, same cut-off) implies a + b <= a + b'"""
    name = "comp_monotone_right"
    property_ids = ["C08"]

    def statement(self, mk):
        a, b, c = mk_interval(mk, "a"), mk_interval(mk, "b"), mk_interval(mk, "c")
        hyps = [wf(a), wf(b), wf(c), len_(a.tiers) == b.pre_length, same_shape(b, c), b.cutoff == c.cutoff,
                lex_le(b.tiers, c.tiers)]
        return hyps, lex_le(Comp(a, b).tiers, Comp(a, c).tiers)


class CompMonotoneLeft(Lemma):
    """composition is monotone in its first argument for equal shapes and cut-offs (used by the path-closure lemmas
    closure_min_step: a shorter prefix gives a path that is not longer): a <= a' implies a + c <= a' + c"""
    name = "comp_monotone_left"
    property_ids = ["C08"]

    def statement(self, mk):
        a, b, c = mk_interval(mk, "a"), mk_interval(mk, "b"), mk_interval(mk, "c")
        hyps = [wf(a), wf(b), wf(c), same_shape(a, b), a.cutoff == b.cutoff, len_(a.tiers) == c.pre_length,
                lex_le(a.tiers, b.tiers)]
        return hyps, lex_le(Comp(a, c).tiers, Comp(b, c).tiers)


class TimeOrderTotalStrict(Lemma):
    """A1 for times: '<' on TieredTime (lexicographic, equal lengths) is a strict total order"""
    name = "time_order"
    property_ids = ["C08"]
    provides_axiom = "A1"
    uses = ["lex_first_diff_base", "lex_first_diff_step"]

    def statement(self, mk):
        t, u, w = mk.seq("t"), mk.seq("u"), mk.seq("w")
        n = len_(t)
        hyps = [len_(u) == n, len_(w) == n, first_diff(t, u, n)]
        goal = And(
            Or(lex_lt(t, u), seq_eq(t, u), lex_lt(u, t)),
            Not(And(lex_lt(t, u), lex_lt(u, t))),
            Not(And(lex_lt(t, u), seq_eq(t, u))),
            Implies(And(lex_lt(t, u), lex_lt(u, w)), lex_lt(t, w)),
        )
        return hyps, goal


class TimeVsWorldTime(Lemma):
    """A7: t < u implies t.time <= u.time, and t.time < u.time implies t < u"""
    name = "time_vs_world_time"
    property_ids = ["C08"]
    provides_axiom = "A7"

    def statement(self, mk):
        t, u = mk.seq("t"), mk.seq("u")
        hyps = [len_(t) == len_(u), len_(t) >= 1]
        return hyps, And(Implies(lex_lt(t, u), t[0] <= u[0]), Implies(t[0] < u[0], lex_lt(t, u)))


LEMMAS = [LexFirstDiffBase(), LexFirstDiffStep(), LtIrreflexive(), LtAsymmetric(), LtTransitive(), Trichotomy(),
          DerivedOrderConsistent(), DelayMonotone(), TimeMonotone(), NeverBackwards(), ActionLaw(),
          CompAssociative(), CompMonotoneRight(), CompMonotoneLeft(), TimeOrderTotalStrict(), TimeVsWorldTime()]


# ------------------------------------------------------------------ recorded findings (witness replay)
def finding_F11_semantic(m):
    """K_mixed, case (i): a < b is True without an assertion, yet t + a > t + b"""
    a, b = native_interval(m["a"]), native_interval(m["b"])
    t = native_time({"tiers": m["t"]})
    try:
        lt = a < b
    except AssertionError:
        return False, "comparison now raises"
    later = (t + a) > (t + b)
    return bool(lt and later), f"{a!r} < {b!r} = {lt}; {t!r}+a = {t + a!r}, {t!r}+b = {t + b!r}"


def finding_F11_both_greater(m):
    """K_mixed, case (ii): equal tiers, different cut-offs: neither < nor ==, and the derived
    '>' holds in both directions"""
    a, b = native_interval(m["a"]), native_interval(m["b"])
    try:
        res = (a > b, b > a, a == b)
    except AssertionError:
        return False, "comparison now raises"
    return bool(res[0] and res[1]), f"{a!r} > {b!r} = {res[0]}, reverse = {res[1]}, == {res[2]}"
