"""update_min (mosaik/scenario.py) on delays -- used by both path-closure algorithms
(C06, C01/C05 via cache_triggering_ancestors) and part of C08's 'min over delays'."""
from pyvc.spec import And, Or, Not, Implies, Iff, If, Min, forall, exists, len_, seq_eq
from pyvc.contract import Contract, Args
from contracts.tiered_time import (wf, same_shape, clash, code_lt, ti_eq, mk_interval, native_interval, native_wf,
                                   TI, IntervalLt, small_interval_pairs)


def use_lt_contract(sess):
    """callers see TieredInterval.__lt__ through its contract only"""
    c = IntervalLt()
    sess.register(c)
    sess.use_contracts_for.add(c.target)


class UpdateMin(Contract):
    """update_min(a, b): None iff a is known and a <= b, else b (the new minimum) -- for pairs that the order decides
    (exactly one of <, ==, > holds: everything outside known finding F11-ii)"""
    target = "mosaik.scenario.update_min"
    property_ids = ["C08", "C06", "C05"]
    configure = "use_lt_contract"
    variants = [{"a_none": True}, {"a_none": False}]

    def make_args(self, mk, a_none=False):
        return {"a": None if a_none else mk_interval(mk, "a"), "b": mk_interval(mk, "b")}

    def requires(self, A):
        if A.a is None:
            return wf(A.b)
        return And(wf(A.a), wf(A.b))

    @property
    def raises(self):
        def cond(A):
            if A.a is None:
                return False
            return Or(Not(same_shape(A.a, A.b)), clash(A.a, A.b))
        return {"AssertionError": cond}

    def ensures(self, A, result):
        if A.a is None:
            return result is A.b
        keep = Or(code_lt(A.a, A.b), ti_eq(A.a, A.b))
        # outside the zone of known finding F11-ii (neither <, == nor >: equal tiers, different cut-offs), where no
        # answer is "the minimum" and the property says nothing
        ordered = Or(keep, code_lt(A.b, A.a))
        return Implies(ordered, And(Implies(keep, result is None), Implies(Not(keep), result is A.b)))

    def native_call(self, m):
        from mosaik.scenario import update_min
        if not native_wf(m["b"]) or ("a" in m and m["a"] is not None and not native_wf(m["a"])):
            return True, "requires does not hold for the model values"
        a = native_interval(m["a"]) if m.get("a") is not None else None
        b = native_interval(m["b"])
        A = Args({"a": a, "b": b})
        expect_raise = bool(self.raises["AssertionError"](A))
        try:
            r = update_min(a, b)
        except AssertionError as e:
            return expect_raise, f"update_min({a!r}, {b!r}) raised AssertionError({e})"
        if expect_raise:
            return False, f"update_min({a!r}, {b!r}) = {r!r} but AssertionError expected"
        return bool(self.ensures(A, r)), f"update_min({a!r}, {b!r}) = {r!r}"

    def native_search(self, budget):
        n = 0
        for a, b in small_interval_pairs():
            yield {"a": a, "b": b}
            n += 1
            if n >= budget:
                return
        for a, b in small_interval_pairs():
            yield {"a": None, "b": b}
            break


CONTRACTS = [UpdateMin()]
