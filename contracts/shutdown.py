"""Sidecar contracts for the fault-containment / shutdown control flow (C14):

  World.run        whatever scheduler.run does (returns, KeyboardInterrupt, RemoteException, any other error),
                   once it has been started World.shutdown is called exactly once afterwards; RemoteException
                   and KeyboardInterrupt are reported and swallowed, every other error reaches the caller;
                   scheduler.run is started exactly once with the caller's arguments; a second run() is refused
                   before anything happens
  World.shutdown   every simulator's stop() is run exactly once -- also when the stop() of an earlier one
                   fails --, then the loop is stopped, drained and closed; the first failure is re-raised after
                   that; on a closed loop nothing is done
  SimRunner.stop   the proxy's stop() exactly once
  LocalProxy.stop  finalize() exactly once
  RemoteProxy.stop "stop" is sent once under a timeout, a timeout or a closed connection is not an error, the
                   channel is closed, and the request-handler task is awaited only AFTER the channel has been
                   closed (it ends only at end-of-requests, which this side can only force by closing) --
                   otherwise stop() can wait forever for a simulator that does not hang up

The event loop, tqdm, loguru, the channel and the simulators are external: calls to them are recorded as
ghost events; run_until_complete(job) may return or raise (every listed outcome is a path).
"""
from pyvc.contract import Contract
from pyvc.spec import And, Or, Not, Implies, Iff
try:
    import z3
    from pyvc.values import SymSeq, SymObj, Builtin, Unsupported, Opaque, Func, is_z3, simp
    from pyvc.interp import Namespace, ExcValue
    from pyvc import extract
except Exception:  # pragma: no cover
    z3 = None


class WorldS:
    pass


class LoopS:
    pass


class SimsDictS:
    pass


class TqdmS:
    pass


class PrintProgress:
    """bool | 'individual' (layout of the progress bars only)"""


class Job:
    def __init__(self, kind, **kw):
        self.kind, self.kw = kind, kw


class ItemsColl:
    """world.sims.items() / .values(): arbitrary size and order"""

    def __init__(self, M, pairs):
        self.M, self.pairs = M, pairs
        self.key_sort = M.Sim

    def arbitrary(self, it):
        s = it.p.fresh("sim", self.M.Sim)
        return (Opaque("sid"), s) if self.pairs else s

    def member(self, x):
        return z3.BoolVal(True)

    def key_of(self, item):
        return item[1] if self.pairs else item


class RunnerS:
    """a SimRunner (only its proxy matters here)"""


class ProxyS:
    """some Proxy: external"""


class AdapterS:
    """an Adapter; ._out is the wrapped proxy"""


class LocalS:
    """a LocalProxy; .sim is the user's simulator object (external)"""


class UserSimS:
    pass


class RemoteS:
    """a RemoteProxy; ._channel and ._reader_task are external"""


class ChannelS:
    pass


class ReaderTaskS:
    pass


SEND_OUTCOMES = ("ok", "TimeoutError", "IncompleteReadError")


class TaskSet:
    """asyncio.all_tasks(loop): the tasks of the loop that are not done (arbitrary many)"""
    is_abstract_collection = True

    def __init__(self, M):
        self.M = M
        self.key_sort = M.Task

    def arbitrary(self, it):
        return it.p.fresh("task", self.M.Task)

    def member(self, x):
        return self.M.pending0(x)

    def key_of(self, item):
        return item


RUN_OUTCOMES = ("ok", "KeyboardInterrupt", "RemoteException", "SimulationError", "ConnectionResetError")


class ShutModel:
    def __init__(self, sess):
        self.s = sess
        sess.models.insert(0, self)
        sess.shut = self
        self.Sim = z3.DeclareSort("SSim")
        self.world = WorldS()
        self.debug = z3.Bool("world._debug")
        self.already_run = z3.Bool("world.has_until")
        self.loop_closed0 = z3.Bool("loop.is_closed")
        self.fails = z3.Function("stop_fails", self.Sim, z3.BoolSort())   # which simulators' stop() raises
        self.Task = z3.DeclareSort("STask")
        # the tasks still pending on the loop once the simulators have been stopped (e.g. the processes of the
        # other simulators after one has failed): arbitrary
        self.pending0 = z3.Function("pending_after_stops", self.Task, z3.BoolSort())
        sess.builtins["hasattr"] = Builtin("hasattr", self._hasattr)
        self._orig = {k: sess.builtins.get(k) for k in ("max", "len", "str")}
        for k in ("max", "len", "str"):
            sess.builtins[k] = Builtin(k, lambda it, node, *a, _k=k, **kw: self._fmt_builtin(it, node, _k, a, kw))

    def reset(self, p):
        g = p.ghost
        g["events"] = []                      # ordered external events
        g["stop_cnt"] = z3.K(self.Sim, z3.IntVal(0))
        g["stop_failed"] = z3.K(self.Sim, z3.BoolVal(False))
        g["world"] = {}
        g["cancelled"] = z3.K(self.Task, z3.BoolVal(False))
        t = z3.Const("t!p0", self.Task)
        g["pending"] = z3.Lambda([t], self.pending0(t))
        g["pending_at_close"] = None

    def ev(self, it, *e):
        it.p.ghost["events"] = it.p.ghost["events"] + [e]

    # ---- formatting helpers of World.run (progress-bar layout): values abstracted away
    def _fmt_builtin(self, it, node, k, a, kw):
        if k == "len" and len(a) == 1 and isinstance(a[0], TaskSet):
            n = it.p.fresh("n_leftover", "int")
            t = z3.Const("t!len", self.Task)
            it.p.assume(And(n >= 0, (n > 0) == z3.Exists([t], self.pending0(t))))
            return n
        if any(isinstance(x, (Opaque, ItemsColl, SimsDictS)) for x in a) or k == "str":
            if k == "str":
                return Opaque("str")
            return it.p.fresh(k, "int")
        o = self._orig[k]
        if o is None:
            raise Unsupported(k)
        return o.fn(it, node, *a, **kw)

    def _hasattr(self, it, node, obj, name):
        if isinstance(obj, WorldS) and name == "until":
            return self.already_run
        raise Unsupported("hasattr")

    def comprehension(self, it, e, env, kind):
        return Opaque("generator over sims")

    # ---- hooks
    def getattr(self, it, obj, name, node):
        g = it.p.ghost
        if isinstance(obj, WorldS):
            if name == "loop":
                return LoopS()
            if name == "sims":
                return SimsDictS()
            if name == "_debug":
                return self.debug
            if name == "tqdm":
                return TqdmS()
            if name in ("ensure_no_dataflow_cycles", "cache_triggering_ancestors"):
                def pre(it2, n2, name=name):
                    self.ev(it2, "precheck", name)
                    if name == "ensure_no_dataflow_cycles" and it2.decide(it2.p.fresh("scenario_has_cycle", "bool")):
                        it2.p.ghost["cycle"] = True
                        it2.raise_("ScenarioError", n2, implicit="external call")
                return Builtin("world." + name, pre)
            if name == "shutdown":
                def shutdown(it2, n2):
                    self.ev(it2, "shutdown")
                    if it2.decide(it2.p.fresh("shutdown_raises", "bool")):
                        it2.p.ghost["shutdown_raised"] = True
                        it2.raise_("SimulationError", n2, implicit="external call")
                return Builtin("world.shutdown", shutdown)
            raise Unsupported(f"world.{name}")
        if isinstance(obj, SimsDictS):
            if name in ("items", "values"):
                return Builtin("sims." + name, lambda it2, n2, name=name: ItemsColl(self, name == "items"))
            raise Unsupported(f"sims.{name}")
        if isinstance(obj, LoopS):
            if name == "is_closed":
                return Builtin("loop.is_closed", lambda it2, n2: self.loop_closed0)
            if name == "run_until_complete":
                return Builtin("loop.run_until_complete", self._ruc)
            if name in ("stop", "run_forever", "close"):
                def loop_op(it2, n2, name=name):
                    self.ev(it2, "loop", name)
                    if name == "close":
                        it2.p.ghost["pending_at_close"] = it2.p.ghost["pending"]
                return Builtin("loop." + name, loop_op)
            raise Unsupported(f"loop.{name}")
        if is_z3(obj) and obj.sort() == self.Sim:
            if name == "tqdm":
                return TqdmS()
            if name == "stop":
                return Builtin("sim.stop", lambda it2, n2, obj=obj: Job("stop", sim=obj))
            raise Unsupported(f"sim.{name}")
        if (isinstance(obj, RunnerS) and name == "_proxy") or (isinstance(obj, AdapterS) and name == "_out"):
            return ProxyS()
        if isinstance(obj, ProxyS) and name == "stop":
            return Builtin("proxy.stop", lambda it2, n2: Job("proxy_stop"))
        if isinstance(obj, LocalS) and name == "sim":
            return UserSimS()
        if isinstance(obj, UserSimS):
            if name == "finalize":
                return Builtin("sim.finalize", lambda it2, n2: self.ev(it2, "finalize"))
            raise Unsupported(f"user simulator .{name}")
        if isinstance(obj, RemoteS):
            if name == "_channel":
                return ChannelS()
            if name == "_reader_task":
                return ReaderTaskS()
            raise Unsupported(f"RemoteProxy.{name}")
        if isinstance(obj, ChannelS):
            if name == "send":
                return Builtin("channel.send", lambda it2, n2, req: Job("send", request=req))
            if name == "close":
                return Builtin("channel.close", lambda it2, n2: Job("close"))
            raise Unsupported(f"channel.{name}")
        if is_z3(obj) and obj.sort() == self.Task:
            if name == "cancel":
                def cancel(it2, n2, obj=obj):
                    it2.p.ghost["cancelled"] = z3.Store(it2.p.ghost["cancelled"], obj, True)
                return Builtin("task.cancel", cancel)
            raise Unsupported(f"task.{name}")
        if isinstance(obj, TqdmS):
            return Builtin("tqdm." + name, lambda it2, n2, *a, **k: None)
        if isinstance(obj, ExcValue):
            if name == "further_args":
                return ()
            return Opaque("exc." + name)
        return NotImplemented

    def setattr(self, it, obj, name, v, node):
        if isinstance(obj, WorldS) or (is_z3(obj) and obj.sort() == self.Sim and name == "tqdm"):
            return True
        return NotImplemented

    def _ruc(self, it, node, job):
        g = it.p.ghost
        if not isinstance(job, Job):
            raise Unsupported("run_until_complete of something that is not a modelled coroutine")
        if job.kind == "run":
            self.ev(it, "run", job.kw["args"])
            for oc in RUN_OUTCOMES[1:]:
                if it.decide(it.p.fresh("run_raises_" + oc, "bool")):
                    g["run_outcome"] = oc
                    it.raise_(oc, node, implicit="external call")
            g["run_outcome"] = "ok"
            return None
        if job.kind == "stop":
            s = job.kw["sim"]
            g["stop_cnt"] = z3.Store(g["stop_cnt"], s, g["stop_cnt"][s] + 1)
            self.ev(it, "stop_sim")
            if it.decide(self.fails(s)):
                g["stop_failed"] = z3.Store(g["stop_failed"], s, True)
                it.raise_("ConnectionResetError", node, implicit="external call")
            return None
        if job.kind == "gather":
            t = z3.Const("t!g", self.Task)
            # waiting for a task that is pending and has not been cancelled may take forever
            it.p.oblige(it.oid(node, "gather_cannot_wait_forever"), "call_requires",
                        z3.ForAll([t], Implies(g["pending"][t], g["cancelled"][t])), it.where(node),
                        "every task that is waited for at shutdown has been cancelled")
            if not job.kw["return_exceptions"]:
                if it.decide(z3.Exists([t], And(g["pending"][t], g["cancelled"][t]))):
                    it.raise_("CancelledError", node, implicit="external call")
            pend, canc = g["pending"], g["cancelled"]
            g["pending"] = z3.Lambda([t], And(pend[t], Not(canc[t])))
            self.ev(it, "gather")
            return Opaque("results")
        raise Unsupported(f"run_until_complete({job.kind})")

    def call(self, it, fn, args, kwargs, node, star):
        if isinstance(fn, Func) and fn.qualname == "mosaik.scheduler.run" and not getattr(it, "_awaiting", 0):
            if kwargs or star is not None:
                raise Unsupported("scheduler.run(...) argument shape")
            return Job("run", args=tuple(args))
        return NotImplemented

    def equal(self, it, a, b, node):
        if isinstance(a, PrintProgress) or isinstance(b, PrintProgress):
            return z3.Bool("print_progress.is_individual")
        return NotImplemented

    def truth(self, it, v):
        if isinstance(v, PrintProgress):
            return z3.Bool("print_progress.truthy")
        if isinstance(v, TqdmS):
            return True
        if isinstance(v, TaskSet):
            t = z3.Const("t!ne", self.Task)
            return z3.Exists([t], self.pending0(t))
        return NotImplemented

    def float_const(self, v):
        return z3.RealVal(repr(v))

    def await_value(self, it, v, e, env):
        g = it.p.ghost
        if isinstance(v, Job):
            if v.kind == "proxy_stop":
                self.ev(it, "proxy_stop")
                return None
            if v.kind in ("wait_for", "send"):
                inner = v.kw["inner"] if v.kind == "wait_for" else v
                if inner.kind != "send":
                    raise Unsupported("wait_for of something other than a request")
                self.ev(it, "send", inner.kw["request"], v.kw.get("timeout") if v.kind == "wait_for" else None)
                for oc in SEND_OUTCOMES[1:]:
                    if it.decide(it.p.fresh("send_ends_in_" + oc, "bool")):
                        g["send_outcome"] = oc
                        it.raise_(oc, e, implicit="external call")
                g["send_outcome"] = "ok"
                return Opaque("reply")
            if v.kind == "close":
                self.ev(it, "close")
                return None
            raise Unsupported(f"await {v.kind}")
        if isinstance(v, ReaderTaskS):
            self.ev(it, "await_reader_task")
            return None
        return NotImplemented

    def iter_plan(self, it, x):
        if isinstance(x, TaskSet):
            return ("abstract", x)
        if isinstance(x, ItemsColl):
            return ("abstract", x)
        return NotImplemented

    def binop(self, it, op, a, b, node):
        if isinstance(a, str) and op in ("mul", "mod", "add"):
            return Opaque("formatted")
        return NotImplemented

    def havoc_value(self, it, nm, cur):
        if cur is None or isinstance(cur, ExcValue):
            # a local holding Optional[Exception] (the remembered first failure): both cases are paths; which one is tied to
            # the ghost state by the invariant
            if it.decide(it.p.fresh("remembered_error_is_set", "bool")):
                return ExcValue("ConnectionResetError", ())
            return None
        return NotImplemented

    def havoc_loop_heap(self, it, st, env):
        g = it.p.ghost
        g["stop_cnt"] = it.p.fresh("stop_cnt", z3.ArraySort(self.Sim, z3.IntSort()))
        g["stop_failed"] = it.p.fresh("stop_failed", z3.ArraySort(self.Sim, z3.BoolSort()))
        g["cancelled"] = it.p.fresh("cancelled", z3.ArraySort(self.Task, z3.BoolSort()))

    def resolve_import(self, dotted):
        if dotted == "tqdm.tqdm":
            return Builtin("tqdm", lambda it, node, *a, **k: TqdmS())
        if dotted == "loguru.logger":
            def mk(kind):
                return Builtin("logger." + kind, lambda it, node, *a, **k: self.ev(it, "log", kind))
            return Namespace("logger", {k: mk(k) for k in ("warning", "info", "debug", "error", "exception")})
        if dotted == "asyncio":
            def all_tasks(it, node, loop=None):
                if not isinstance(loop, LoopS):
                    raise Unsupported("all_tasks() without the world's loop")
                return TaskSet(self)

            def gather(it, node, *a, _star=None, return_exceptions=False):
                if a or not isinstance(_star, TaskSet):
                    raise Unsupported("gather(...) of something other than the set of leftover tasks")
                return Job("gather", return_exceptions=return_exceptions)

            def wait_for(it, node, job, timeout=None):
                if not isinstance(job, Job):
                    raise Unsupported("wait_for of something that is not a modelled coroutine")
                return Job("wait_for", inner=job, timeout=timeout)
            from pyvc.interp import ExcClass
            return Namespace("asyncio", {"all_tasks": Builtin("asyncio.all_tasks", all_tasks), "gather": Builtin("asyncio.gather", gather),
                                         "wait_for": Builtin("asyncio.wait_for", wait_for), "TimeoutError": ExcClass("TimeoutError"),
                                         "IncompleteReadError": ExcClass("IncompleteReadError")})
        if dotted == "mosaik._debug":
            return Namespace("dbg", {k: Builtin("dbg." + k, lambda it, node, k=k: self.ev(it, "debug", k)) for k in ("enable", "disable")})
        return NotImplemented


def configure(sess):
    ShutModel(sess)
    extract.load_module("mosaik.scenario")
    extract.load_module("mosaik.adapters")
    extract.load_module("mosaik.proxies")


class _S(Contract):
    configure = "configure"
    property_ids = ["C14"]

    def setup(self, p, A, mk):
        self._p = p
        self._M = mk.s.shut
        self._M.reset(p)

    def requires(self, A):
        return True

    def events(self, *kinds):
        return [e for e in self._p.ghost["events"] if e[0] in kinds]


class WorldRun(_S):
    target = "mosaik.scenario.World.run"
    property_ids = ["C14", "C09", "C13"]     # (the SimulationError of the loop guard / of reply validation must reach the caller)

    def make_args(self, mk):
        M = mk.s.shut
        self._args = {"until": mk.const("until", z3.IntSort()), "rt_factor": Opaque("rt_factor"),
                      "rt_strict": mk.const("rt_strict", z3.BoolSort()), "print_progress": PrintProgress(),
                      "lazy_stepping": mk.const("lazy_stepping", z3.BoolSort())}
        return dict(self=M.world, **self._args)

    loops = {0: lambda c, index, v, A: True, 1: lambda c, index, v, A: True}

    def _started(self):
        return bool(self.events("run"))

    def _common(self, A):
        """holds on every exit, normal or not"""
        M, g = self._M, self._p.ghost
        ev = [e for e in g["events"] if e[0] in ("run", "shutdown")]
        a = self._args
        out = {}
        if not self._started():
            out["nothing_shut_down_when_nothing_was_started"] = not ev
            return out
        out["scheduler_run_once_then_shutdown_once"] = [e[0] for e in ev] == ["run", "shutdown"]
        ra = ev[0][1]
        out["run_gets_the_callers_arguments"] = len(ra) == 5 and ra[0] is M.world and ra[1] is a["until"] and ra[2] is a["rt_factor"] \
            and ra[3] is a["rt_strict"] and ra[4] is a["lazy_stepping"]
        dbg = [e[1] for e in g["events"] if e[0] in ("debug", "run")]
        if not g.get("shutdown_raised"):
            out["debug_mode_bracket"] = Or(And(M.debug, len(dbg) == 3 and dbg[0] == "enable" and dbg[2] == "disable"),
                                           And(Not(M.debug), len(dbg) == 1))
        return out

    def split_post(self, A, result):
        g = self._p.ghost
        out = self._common(A)
        out["was_started"] = self._started()
        out["returns_only_if_run_ended_or_was_interrupted_or_remote_error"] = g.get("run_outcome") in ("ok", "KeyboardInterrupt", "RemoteException")
        logs = [e[1] for e in g["events"] if e[0] == "log"]
        out["remote_error_is_reported"] = (g.get("run_outcome") != "RemoteException") or ("error" in logs)
        out["refused_if_already_run"] = Not(self._M.already_run)
        return out

    def ensures(self, A, result):
        return And(*self.split_post(A, result).values())

    def raise_allowed(self, A, e):
        g = self._p.ghost
        if e.cls == "RuntimeError":
            return And(self._M.already_run, not g["events"])
        if g.get("cycle"):
            return e.cls == "ScenarioError" and not self._started()
        if g.get("shutdown_raised"):
            return True
        return g.get("run_outcome") == e.cls and e.cls in ("SimulationError", "ConnectionResetError")

    def raise_post(self, A, e):
        return And(*self._common(A).values())

    def native_search(self, budget):
        for oc in ("ok", "KeyboardInterrupt", "RemoteException", "SimulationError"):
            for debug in (False, True):
                yield {"run_outcome": oc, "debug": debug}

    def native_call(self, m):
        if "run_outcome" not in m:
            return True, "symbolic counter-models of World.run are not replayed (the native search is)"
        import mosaik
        from mosaik import scheduler
        from mosaik.exceptions import SimulationError
        from mosaik_api_v3.connection import RemoteException
        from contracts.scheduler_native import _StubProxy
        from mosaik.simmanager import SimRunner
        w = mosaik.World({}, skip_greetings=True, debug=m["debug"])
        s = SimRunner("S-0", _StubProxy("hybrid"), depth=1)
        w.sims["S-0"] = s
        calls = []
        real_run, real_shutdown = scheduler.run, w.shutdown
        exc = {"ok": None, "KeyboardInterrupt": KeyboardInterrupt(), "SimulationError": SimulationError("boom"),
               "RemoteException": RemoteException("ValueError", "x", source="S-0")}[m["run_outcome"]]

        async def fake_run(*a):
            calls.append(("run", a[1:]))
            if exc is not None:
                raise exc

        def fake_shutdown():
            calls.append(("shutdown",))
            real_shutdown()
        scheduler.run = fake_run
        w.shutdown = fake_shutdown
        try:
            try:
                w.run(7, 0.5, True, False, False)
                err = None
            except BaseException as e:  # noqa: BLE001
                err = e
        finally:
            scheduler.run = real_run
            if not w.loop.is_closed():
                w.loop.close()
        exp_err = exc if m["run_outcome"] == "SimulationError" else None
        ok = [c[0] for c in calls] == ["run", "shutdown"] and calls[0][1] == (7, 0.5, True, False) and err is exp_err
        return ok, f"World.run with scheduler.run ending in {m['run_outcome']}: calls {calls}, error reaching the caller: {err!r} (expected {exp_err!r})"


class WorldShutdown(_S):
    target = "mosaik.scenario.World.shutdown"
    property_ids = ["C14", "C09", "C13"]

    def make_args(self, mk):
        return {"self": mk.s.shut.world}

    def _inv(self, index, v, A):
        M, g = self._M, self._p.ghost
        s = z3.Const("s!inv", M.Sim)
        some_failed = z3.Exists([s], And(v.seen[s], g["stop_failed"][s]))
        # the local that remembers the first failure, whatever it is called: the one holding None or an exception
        kept = [x for n, x in v.locals().items() if n not in ("self", "e") and (x is None or isinstance(x, ExcValue))]
        remembered = kept[0] if len(kept) == 1 else "ambiguous"
        return {"each_seen_simulator_stopped_exactly_once": z3.ForAll([s], g["stop_cnt"][s] == z3.If(v.seen[s], 1, 0)),
                "failures_are_recorded": z3.ForAll([s], g["stop_failed"][s] == And(v.seen[s], M.fails(s))),
                "first_error_kept_iff_some_stop_failed": (False if remembered == "ambiguous" else
                                                          (some_failed if remembered is not None else Not(some_failed))),
                "loop_untouched_so_far": not self.events("loop", "gather"),
                "no_task_cancelled_yet": g["cancelled"] == z3.K(M.Task, z3.BoolVal(False))}

    def _inv_cancel(self, index, v, A):
        M, g = self._M, self._p.ghost
        s, t = z3.Const("s!ic", M.Sim), z3.Const("t!ic", M.Task)
        return {"stops_done": z3.ForAll([s], And(g["stop_cnt"][s] == 1, g["stop_failed"][s] == M.fails(s))),
                "cancelled_are_the_tasks_seen": z3.ForAll([t], g["cancelled"][t] == v.seen[t]),
                "loop_untouched_so_far": not self.events("loop", "gather")}

    loops = {0: lambda c, index, v, A: c._inv(index, v, A), 1: lambda c, index, v, A: c._inv_cancel(index, v, A)}

    def _all(self):
        M, g = self._M, self._p.ghost
        s = z3.Const("s!post", M.Sim)
        order = [e[0] if e[0] != "loop" else e[1] for e in g["events"] if e[0] in ("loop", "stop_sim")]
        tail = [x for x in order if x != "stop_sim"]
        t = z3.Const("t!pc", M.Task)
        pc = g["pending_at_close"]
        return {"every_simulator_stopped_exactly_once": z3.ForAll([s], g["stop_cnt"][s] == 1),
                "loop_stopped_drained_closed_after_all_stops": tail == ["stop", "run_forever", "close"] and order[-3:] == tail,
                "no_pending_task_left_when_the_loop_is_closed": pc is not None and z3.ForAll([t], Not(pc[t]))}

    def split_post(self, A, result):
        M, g = self._M, self._p.ghost
        s = z3.Const("s!p2", M.Sim)
        if not g["events"]:
            return {"nothing_done_only_on_a_closed_loop": M.loop_closed0}
        out = self._all()
        out["loop_was_open"] = Not(M.loop_closed0)
        out["returns_only_if_no_stop_failed"] = Not(z3.Exists([s], M.fails(s)))
        return out

    def ensures(self, A, result):
        return And(*self.split_post(A, result).values())

    def raise_allowed(self, A, e):
        s = z3.Const("s!ra", self._M.Sim)
        return And(z3.Exists([s], self._M.fails(s)), Not(self._M.loop_closed0))

    def raise_post(self, A, e):
        return And(*self._all().values())

    def native_search(self, budget):
        import itertools
        for n in (0, 1, 3):
            for fails in itertools.product((False, True), repeat=n):
                for closed in (False, True):
                    for leftover in ((0,) if closed else (0, 2)):
                        yield {"nsims": n, "fails": list(fails), "closed": closed, "leftover": leftover}

    def native_call(self, m):
        if "nsims" not in m:
            return True, "symbolic counter-models of World.shutdown are not replayed (the native search is)"
        import mosaik
        from mosaik.simmanager import SimRunner
        from contracts.scheduler_native import _StubProxy
        w = mosaik.World({}, skip_greetings=True)
        stops = []
        for i in range(m["nsims"]):
            s = SimRunner(f"S-{i}", _StubProxy("hybrid"), depth=1)

            async def stop(i=i):
                stops.append(i)
                if m["fails"][i]:
                    raise ConnectionResetError(f"S-{i}")
            s.stop = stop
            w.sims[s.sid] = s
        import asyncio

        async def never():
            await asyncio.Future()
        left = [w.loop.create_task(never(), name=f"leftover {i}") for i in range(m.get("leftover", 0))]
        if left:
            w.loop.run_until_complete(asyncio.sleep(0))
        if m["closed"]:
            w.loop.close()
        try:
            w.shutdown()
            err = None
        except BaseException as e:  # noqa: BLE001  (a CancelledError escaping shutdown is a BaseException)
            err = e
        closed = w.loop.is_closed()
        if not closed:
            w.loop.close()
        if m["closed"]:
            ok = not stops and err is None
        else:
            first = next((i for i in range(m["nsims"]) if m["fails"][i]), None)
            ok = sorted(stops) == list(range(m["nsims"])) and closed and all(t.done() for t in left) and \
                ((err is None) if first is None else (isinstance(err, ConnectionResetError) and str(err) == f"S-{first}"))
        return ok, (f"World.shutdown with {m['nsims']} simulators, stop() failing for {m['fails']}, loop closed before: {m['closed']}: "
                    f"stopped {stops}, loop closed afterwards: {closed}, error: {err!r}; tasks that were pending on the loop before: "
                    f"{len(left)}, still pending after the loop was closed: {sum(not t.done() for t in left)}")


class RunnerStop(_S):
    """SimRunner.stop: the proxy's stop() exactly once, nothing else"""
    target = "mosaik.simmanager.SimRunner.stop"

    def make_args(self, mk):
        return {"self": RunnerS()}

    def split_post(self, A, result):
        return {"proxy_stopped_exactly_once": [e[0] for e in self._p.ghost["events"]] == ["proxy_stop"]}

    def ensures(self, A, result):
        return And(*self.split_post(A, result).values())


class AdapterStop(_S):
    """Adapter.stop (both API adapters inherit it): the wrapped proxy's stop() exactly once"""
    target = "mosaik.adapters.Adapter.stop"

    def make_args(self, mk):
        return {"self": AdapterS()}

    def split_post(self, A, result):
        return {"wrapped_proxy_stopped_exactly_once": [e[0] for e in self._p.ghost["events"]] == ["proxy_stop"]}

    def ensures(self, A, result):
        return And(*self.split_post(A, result).values())


def _adapter_stop_search(self, budget):
    for cls in ("V3ToV2Adapter", "V2ToV1Adapter"):
        yield {"adapter": cls}


def _adapter_stop_call(self, m):
    if "adapter" not in m:
        return True, "symbolic counter-models are not replayed (the native search is)"
    import asyncio
    import warnings
    from mosaik import adapters
    calls = []

    class P:
        meta = {"type": "time-based", "models": {}}

        async def stop(self):
            calls.append("stop")
    loop = asyncio.new_event_loop()
    try:
        with warnings.catch_warnings():
            warnings.simplefilter("ignore")
            loop.run_until_complete(getattr(adapters, m["adapter"])(P()).stop())
    finally:
        loop.close()
    return calls == ["stop"], f"{m['adapter']}.stop(): the wrapped proxy's stop() ran {len(calls)} times"


AdapterStop.native_search = _adapter_stop_search
AdapterStop.native_call = _adapter_stop_call


class LocalStop(_S):
    """LocalProxy.stop: finalize() of the simulator exactly once"""
    target = "mosaik.proxies.LocalProxy.stop"

    def make_args(self, mk):
        return {"self": LocalS()}

    def split_post(self, A, result):
        return {"finalize_exactly_once": [e[0] for e in self._p.ghost["events"]] == ["finalize"]}

    def ensures(self, A, result):
        return And(*self.split_post(A, result).values())


class RemoteStop(_S):
    """RemoteProxy.stop: see the module docstring"""
    target = "mosaik.proxies.RemoteProxy.stop"

    def make_args(self, mk):
        return {"self": RemoteS()}

    def split_post(self, A, result):
        ev = self._p.ghost["events"]
        kinds = [e[0] for e in ev]
        sends = [e for e in ev if e[0] == "send"]
        req = sends[0][1] if sends else None
        out = {"stop_requested_exactly_once": len(sends) == 1 and isinstance(req, (list, tuple, SymSeq)) and
               (req[0] if not isinstance(req, SymSeq) else req.get(0)) == "stop",
               "stop_request_is_bounded_by_a_timeout": bool(sends) and sends[0][2] is not None,
               "channel_closed_exactly_once": kinds.count("close") == 1,
               "handler_task_awaited_only_after_the_channel_is_closed":
                   all("close" in kinds[:i] for i, k in enumerate(kinds) if k == "await_reader_task"),
               "handler_task_awaited": kinds.count("await_reader_task") == 1,
               "stop_is_requested_before_the_channel_is_closed": "close" in kinds and "send" in kinds
                   and kinds.index("send") < kinds.index("close")}
        return out

    def ensures(self, A, result):
        return And(*self.split_post(A, result).values())

    def native_search(self, budget):
        for behaviour in ("hangs_up", "silent", "replies"):
            yield {"remote": behaviour}
        # ... and with a history: an earlier request was answered with an exception raised in the simulator's handler (the
        # connection and the process are healthy: the simulator must still be told to stop, the channel still be closed)
        for behaviour in ("hangs_up", "replies"):
            yield {"remote": behaviour, "earlier_request": "handler_raised"}

    def native_call(self, m):
        if "remote" not in m:
            return True, "symbolic counter-models of RemoteProxy.stop are not replayed (the native search is)"
        import asyncio
        from mosaik.proxies import RemoteProxy
        from mosaik_api_v3.connection import Channel
        loop = asyncio.new_event_loop()
        got = []

        async def main():
            conns = []

            async def on_connect(r, w):
                conns.append((r, w))
            server = await asyncio.start_server(on_connect, "127.0.0.1", 0)
            port = server.sockets[0].getsockname()[1]
            r, w = await asyncio.open_connection("127.0.0.1", port)
            while not conns:
                await asyncio.sleep(0.01)
            sr, sw = conns[0]                         # mosaik's side
            proxy = RemoteProxy(Channel(sr, sw, name="S-0"), None)

            async def remote():                       # the simulator's side
                rc = Channel(r, w)
                if m.get("earlier_request") == "handler_raised":
                    req0 = await rc.next_request()
                    await req0.set_exception(ValueError("boom in the simulator's step"))
                req = await rc.next_request()
                got.append(req.content[0])
                if m["remote"] == "hangs_up":
                    await rc.close()
                elif m["remote"] == "replies":
                    await req.set_result(None)
                    await asyncio.sleep(3600)
                else:
                    await asyncio.sleep(3600)
            rt = asyncio.ensure_future(remote())
            if m.get("earlier_request") == "handler_raised":
                try:
                    await asyncio.wait_for(proxy.send(["step", [0, {}, 1], {}]), 3)
                except Exception:  # noqa: BLE001  (the RemoteException of the failed step)
                    pass
            try:
                await asyncio.wait_for(proxy.stop(), 3)
                hung = False
            except asyncio.TimeoutError:
                hung = True
            closing = sw.is_closing()
            done = proxy._reader_task.done()
            rt.cancel()
            server.close()
            for t in asyncio.all_tasks():
                if t is not asyncio.current_task():
                    t.cancel()
            return hung, closing, done
        try:
            hung, closing, done = loop.run_until_complete(main())
        finally:
            loop.close()
        ok = not hung and closing and done and got == ["stop"]
        return ok, (f"RemoteProxy.stop{' after a request that the simulator answered with an exception' if m.get('earlier_request') else ''} "
                    f"against a simulator that {m['remote']} on 'stop': still waiting after 3 s: {hung}, connection "
                    f"closed: {closing}, request-handler task finished: {done}, requests seen by the simulator: {got}")


CONTRACTS = [WorldRun(), WorldShutdown(), RunnerStop(), AdapterStop(), LocalStop(), RemoteStop()]
