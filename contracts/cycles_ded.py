"""Sidecar contract for World.ensure_no_dataflow_cycles (mosaik/scenario.py) -- the worklist closure over the per-pair input
delays that finds, for every pair of simulators (s, d) connected by a path, the SHORTEST composed delay, and rejects the scenario
iff some simulator reaches itself with delay zero (C06; C05 relies on accepted scenarios having no zero-delay cycle).

Proved on the real function (partial correctness; any number of simulators and connections, any order in which sets and dicts are
walked, self-connections included):

  SOUND    every entry sim_descs[s][d] is the composed delay of some connection path s ~> d   (PathD: introduction rules only)
  DIRECT   for every connection s -> d (input_delays[d][s] = w): the entry [s][d] exists and is <= w
  CLOSED   for every connection s -> m with delay w and every entry [m][d]: the entry [s][d] exists and is <= w + [m][d]
           (these three hold when the final scan begins)
  REJECT   ScenarioError is raised IFF some simulator s has an entry [s][s] whose delay is zero in all tiers; no other exception

Lemmas cycle_min_base / cycle_min_step (induction over the path, composition monotone in its RIGHT argument -- C08 lemma
comp_monotone_right): DIRECT and CLOSED imply that [s][d] exists and is <= the delay of EVERY path s ~> d.  With SOUND the entry is
the minimum over all paths, so [s][s] is the shortest cycle through s.

Not in this contract (kept in the bounded stand-in contracts.closure_native, which applies the property's rule literally): that the
shortest cycle has delay zero exactly when no connection on some cycle is time-shifted / weak-inside-the-group (arithmetic of
TieredInterval: tiers are >= 0, a sum is zero iff all parts are), and that the cycle NAMED in the message is real (the recorded
path lists are carried along but abstracted here).

Model / assumptions: as for contracts.closure_ded (uninterpreted simulators and delays, total preorder -- outside findings F6 / F11 --,
update_min inlined from the real source, dicts and sets walked in an arbitrary order each key once, set.pop() arbitrary member,
"dict changed size during iteration" not modelled, termination not proved); `all(t == 0 for t in delay.tiers)` is the uninterpreted
predicate is_zero(delay).
"""
from pyvc.contract import Contract, Lemma
from pyvc.spec import And, Or, Not, Implies, Iff
try:
    import z3
    from pyvc.values import SymSeq, Builtin, Unsupported, Opaque, is_z3, simp
    from pyvc import extract
    from contracts.closure_ded import Sim, D, B, I, le, plus, DefS, ValS, SetS, order_axioms, DirtySet, AllSims, WorldC, SimsDict, _c
    import ast
except Exception:  # pragma: no cover  (native replay: no z3)
    z3 = None

if z3 is not None:
    E = z3.Function("conn", Sim, Sim, B)            # E(s, d): input_delays[d] has the key s
    W = z3.Function("conn_delay", Sim, Sim, D)      # its value
    PathC = z3.Function("PathC", Sim, Sim, D, B)
    is_zero = z3.Function("is_zero", D, B)


def path_axioms():
    s, m, d = _c("s", Sim), _c("m", Sim), _c("d", Sim)
    x = _c("x", D)
    return [z3.ForAll([s, d], Implies(E(s, d), PathC(s, d, W(s, d)))),
            z3.ForAll([s, m, d, x], Implies(And(E(s, m), PathC(m, d, x)), PathC(s, d, plus(W(s, m), x))))]


def T(g, s, d):
    return g["def"][s][d]


def V(g, s, d):
    return g["val"][s][d]


def sound(g):
    s, d = _c("s", Sim), _c("d", Sim)
    return z3.ForAll([s, d], Implies(T(g, s, d), PathC(s, d, V(g, s, d))))


def direct(g, cond=None):
    s, d = _c("s", Sim), _c("d", Sim)
    return z3.ForAll([s, d], Implies(And(E(s, d), cond(s, d) if cond else True), And(T(g, s, d), le(V(g, s, d), W(s, d)))))


def closed_at(g, s, m, d):
    return Implies(And(E(s, m), T(g, m, d)), And(T(g, s, d), le(V(g, s, d), plus(W(s, m), V(g, m, d)))))


def closed(g, cond):
    s, m, d = _c("s", Sim), _c("m", Sim), _c("d", Sim)
    return z3.ForAll([s, m, d], Implies(cond(m), closed_at(g, s, m, d)))


def zero_cycle(g):
    s = _c("s", Sim)
    return z3.Exists([s], And(T(g, s, s), is_zero(V(g, s, s))))


class InDelays:
    """sim.input_delays"""

    def __init__(self, sim):
        self.sim = sim


class InDelayItems:
    is_abstract_collection = True

    def __init__(self, sim):
        self.sim = sim
        self.key_sort = Sim

    def arbitrary(self, it):
        s = it.p.fresh("pred", Sim)
        return (s, W(s, self.sim))

    def member(self, x):
        return E(x, self.sim)

    def key_of(self, item):
        return item[0]


class Descs:
    """sim_descs"""


class DescDict:
    """sim_descs[s]"""

    def __init__(self, sim):
        self.sim = sim


class DescItems:
    is_abstract_collection = True

    def __init__(self, it, sim):
        self.it, self.sim = it, sim
        self.key_sort = Sim

    def arbitrary(self, it):
        d = it.p.fresh("desc", Sim)
        return (d, (V(it.p.ghost["cy"], self.sim, d), Opaque("path")))

    def member(self, x):
        return T(self.it.p.ghost["cy"], self.sim, x)

    def key_of(self, item):
        return item[0]


class AllDescItems:
    """sim_descs.items(): every simulator with its dict"""
    is_abstract_collection = True

    def __init__(self):
        self.key_sort = Sim

    def arbitrary(self, it):
        s = it.p.fresh("sim", Sim)
        return (s, DescDict(s))

    def member(self, x):
        return z3.BoolVal(True)

    def key_of(self, item):
        return item[0]


class Tiers:
    def __init__(self, d):
        self.d = d


class AllZero:
    def __init__(self, d):
        self.d = d


class CycleModel:
    def __init__(self, sess):
        self.s = sess
        sess.models.insert(0, self)
        sess.cym = self
        self.world = WorldC()
        sess.builtins["set"] = Builtin("set", self._set)
        orig_all = sess.builtins.get("all")

        def _all(it, node, x):
            if isinstance(x, AllZero):
                return is_zero(x.d)
            return orig_all.fn(it, node, x)
        sess.builtins["all"] = Builtin("all", _all)

    def reset(self, p):
        p.ghost["cy"] = {"def": _c("descs.def0", DefS), "val": _c("descs.val0", ValS)}

    def _set(self, it, node, x=None):
        if x is None:
            return DirtySet(z3.K(Sim, z3.BoolVal(False)))
        if isinstance(x, AllSims):
            return DirtySet(z3.K(Sim, z3.BoolVal(True)))
        raise Unsupported("set(iterable)")

    def comprehension(self, it, e, env, kind):
        g = e.generators[0]
        src = it.eval(g.iter, env)
        if kind == "dict" and isinstance(src, AllSims) and isinstance(e.value, ast.Dict) and not e.value.keys \
                and isinstance(e.key, ast.Name) and isinstance(g.target, ast.Name) and e.key.id == g.target.id and not g.ifs:
            # {sim: {} for sim in self.sims.values()}
            gh = dict(it.p.ghost["cy"])
            gh["def"] = z3.K(Sim, z3.K(Sim, z3.BoolVal(False)))
            it.p.ghost["cy"] = gh
            return Descs()
        if kind == "gen" and isinstance(src, Tiers) and not g.ifs and ast.unparse(e.elt).replace(" ", "") in (f"{ast.unparse(g.target)}==0",):
            return AllZero(src.d)
        raise Unsupported("comprehension")

    def getattr(self, it, obj, name, node):
        if isinstance(obj, WorldC):
            if name == "sims":
                return SimsDict()
            raise Unsupported(f"world.{name}")
        if isinstance(obj, SimsDict) and name == "values":
            return Builtin("dict.values", lambda it2, n2: AllSims())
        if is_z3(obj) and obj.sort() == Sim:
            if name == "input_delays":
                return InDelays(obj)
            raise Unsupported(f"sim.{name}")
        if is_z3(obj) and obj.sort() == D and name == "tiers":
            return Tiers(obj)
        if isinstance(obj, InDelays) and name == "items":
            return Builtin("dict.items", lambda it2, n2, obj=obj: InDelayItems(obj.sim))
        if isinstance(obj, Descs) and name == "items":
            return Builtin("dict.items", lambda it2, n2: AllDescItems())
        if isinstance(obj, DescDict):
            if name == "items":
                return Builtin("dict.items", lambda it2, n2, obj=obj: DescItems(it2, obj.sim))
            if name == "get":
                def get(it2, n2, k, default=None, obj=obj):
                    g = it2.p.ghost["cy"]
                    if it2.decide(T(g, obj.sim, k)):
                        return (V(g, obj.sim, k), Opaque("path"))
                    return default
                return Builtin("dict.get", get)
            raise Unsupported(f"dict.{name}")
        if isinstance(obj, DirtySet):
            return NotImplemented
        return NotImplemented

    def getitem(self, it, obj, idx, node):
        if isinstance(obj, Descs):
            return DescDict(idx)
        if isinstance(obj, DescDict):
            g = it.p.ghost["cy"]
            it.check_raise(Not(T(g, obj.sim, idx)), "KeyError", node, "sim_descs[s][d]")
            return (V(g, obj.sim, idx), Opaque("path"))
        return NotImplemented

    def setitem(self, it, obj, idx, v, node):
        if isinstance(obj, DescDict):
            if not (isinstance(v, tuple) and len(v) == 2 and is_z3(v[0]) and v[0].sort() == D):
                raise Unsupported("sim_descs[s][d] = something that is not (delay, path)")
            g = dict(it.p.ghost["cy"])
            g["def"] = z3.Store(g["def"], obj.sim, z3.Store(g["def"][obj.sim], idx, True))
            g["val"] = z3.Store(g["val"], obj.sim, z3.Store(g["val"][obj.sim], idx, v[0]))
            it.p.ghost["cy"] = g
            return True
        return NotImplemented

    def contains(self, it, container, item, node):
        if isinstance(container, DescDict):
            return T(it.p.ghost["cy"], container.sim, item)
        return NotImplemented

    def binop(self, it, name, a, b, node):
        if name == "add" and (isinstance(a, Opaque) or isinstance(b, Opaque)):
            return Opaque("path")
        return NotImplemented

    def iter_plan(self, it, x):
        if getattr(x, "is_abstract_collection", False):
            return ("abstract", x)
        return NotImplemented

    def havoc_loop_heap(self, it, st, env):
        it.p.ghost["cy"] = {"def": it.p.fresh("descs.def", DefS), "val": it.p.fresh("descs.val", ValS)}
        return None


def configure(sess):
    from contracts.closure_ded import ClosureModel
    ClosureModel(sess)          # delays (+, <=), the dirty set
    CycleModel(sess)
    extract.load_module("mosaik.scenario")


class EnsureNoDataflowCycles(Contract):
    target = "mosaik.scenario.World.ensure_no_dataflow_cycles"
    property_ids = ["C06", "C05"]
    configure = "configure"

    def make_args(self, mk):
        self._st = {}
        return {"self": mk.s.cym.world}

    def setup(self, p, A, mk):
        self._p = p
        mk.s.clm.reset(p)
        mk.s.cym.reset(p)
        for ax in order_axioms() + path_axioms():
            p.assume(ax)

    def requires(self, A):
        return True

    def raise_allowed(self, A, e):
        if e.cls != "ScenarioError":
            return None
        return zero_cycle(self._p.ghost["cy"])

    @property
    def raises(self):
        return {}

    # loop 0: for sim in sims.values()  (direct entries);  loop 1: for pred, delay in sim.input_delays.items()
    def _l0(self, k, v, A):
        g = v._i.p.ghost["cy"]
        seen = v.seen
        self._st[0] = seen
        s, d = _c("s", Sim), _c("d", Sim)
        return {"sound": sound(g), "direct_for_processed_simulators": direct(g, lambda s_, d_: seen[d_]),
                "all_dirty": z3.ForAll([s], v.dirty.arr[s])}

    def _l1(self, k, v, A):
        g = v._i.p.ghost["cy"]
        seen0, seen1, sim = self._st[0], v.seen, v.sim
        s = _c("s", Sim)
        return {"sound": sound(g), "direct_for_processed_simulators": direct(g, lambda s_, d_: seen0[d_]),
                "direct_for_processed_predecessors": z3.ForAll([s], Implies(And(E(s, sim), seen1[s]),
                                                                            And(T(g, s, sim), le(V(g, s, sim), W(s, sim))))),
                "all_dirty": z3.ForAll([s], v.dirty.arr[s])}

    # loop 2: while dirty;  loop 3: for src_sim, src_to_mid in mid_sim.input_delays.items();  loop 4: for dest_sim, (..) in sim_descs[mid_sim].items()
    def _l2(self, k, v, A):
        g = v._i.p.ghost["cy"]
        dirty = v.dirty
        return {"sound": sound(g), "direct": direct(g), "closed_unless_dirty": closed(g, lambda m: Not(dirty.arr[m]))}

    def _common(self, g, v):
        dirty, mid = v.dirty, v.mid_sim
        return {"sound": sound(g), "direct": direct(g),
                "others_closed_unless_dirty": closed(g, lambda m: And(m != mid, Not(dirty.arr[m])))}

    def _preds_done(self, g, v, seen3):
        mid = v.mid_sim
        s, d = _c("s", Sim), _c("d", Sim)
        return Implies(Not(v.dirty.arr[mid]), z3.ForAll([s, d], Implies(seen3[s], closed_at(g, s, mid, d))))

    def _l3(self, k, v, A):
        g = v._i.p.ghost["cy"]
        self._st[3] = v.seen
        inv = self._common(g, v)
        inv["processed_predecessors_closed_unless_requeued"] = self._preds_done(g, v, v.seen)
        return inv

    def _l4(self, k, v, A):
        g = v._i.p.ghost["cy"]
        mid, seen4 = v.mid_sim, v.seen
        inv = self._common(g, v)
        inv["processed_predecessors_closed_unless_requeued"] = self._preds_done(g, v, self._st[3])
        d = _c("d", Sim)
        inv["processed_descendants_closed_unless_requeued"] = Implies(
            Not(v.dirty.arr[mid]), z3.ForAll([d], Implies(seen4[d], closed_at(g, v.src_sim, mid, d))))
        inv["current_connection"] = And(E(v.src_sim, mid), v.src_to_mid == W(v.src_sim, mid))
        return inv

    # loop 5: the final scan
    def _l5(self, k, v, A):
        g = v._i.p.ghost["cy"]
        seen = v.seen
        s = _c("s", Sim)
        self._final = g
        return {"sound": sound(g), "direct": direct(g), "closed": closed(g, lambda m: z3.BoolVal(True)),
                "no_zero_cycle_among_the_scanned": z3.ForAll([s], Implies(seen[s], Not(And(T(g, s, s), is_zero(V(g, s, s))))))}

    loops = {0: lambda c, k, v, A: c._l0(k, v, A), 1: lambda c, k, v, A: c._l1(k, v, A), 2: lambda c, k, v, A: c._l2(k, v, A),
             3: lambda c, k, v, A: c._l3(k, v, A), 4: lambda c, k, v, A: c._l4(k, v, A), 5: lambda c, k, v, A: c._l5(k, v, A)}

    def split_post(self, A, result):
        g = self._p.ghost["cy"]
        return {"SOUND_every_entry_is_the_delay_of_a_connection_path": sound(g),
                "DIRECT_every_connection_has_an_entry_not_above_its_delay": direct(g),
                "CLOSED_under_extension_by_a_connection": closed(g, lambda m: z3.BoolVal(True)),
                "accepted_only_without_a_zero_delay_cycle": Not(zero_cycle(g))}

    def raise_post(self, A, e):
        g = self._p.ghost["cy"]
        return And(sound(g), direct(g), closed(g, lambda m: z3.BoolVal(True)))

    # ---- native: the exhaustive small-scope family of the stand-in plus longer cycles in every start order
    def native_search(self, budget):
        yield {"family": "long_cycles"}
        yield {"family": "contracts.closure_native.bounded_cycle_detection (quick bound)"}

    def native_call(self, m):
        fam = m.get("family", "long_cycles")
        if fam == "long_cycles" or "family" not in m:
            import itertools
            from contracts.closure_native import _world
            from mosaik.tiered_time import TieredInterval
            from mosaik.exceptions import ScenarioError
            for n in (4, 5):
                for order in itertools.permutations(range(n)):
                    if order[0] != 0 and n == 5 and order[1] > 2:
                        continue
                    for shifted in (None, 0, n - 1):
                        w, sims = _world(n, [1] * n)
                        try:
                            # ring order[0] -> order[1] -> ... -> order[0]; simulators were created in index order
                            for j in range(n):
                                a, b = order[j], order[(j + 1) % n]
                                sims[b].input_delays[sims[a]] = TieredInterval(1 if shifted == j else 0)
                            try:
                                w.ensure_no_dataflow_cycles()
                                rejected = False
                            except ScenarioError:
                                rejected = True
                        finally:
                            w.loop.close()
                        if rejected != (shifted is None):
                            return False, (f"ring of {n} simulators created in index order and connected {list(order)} -> back to {order[0]}"
                                           f"{'' if shifted is None else f' with connection #{shifted} time-shifted'}: "
                                           f"{'rejected' if rejected else 'accepted'}, must be {'rejected' if shifted is None else 'accepted'}")
            if "family" in m:
                return True, "rings of 4 and 5 simulators in all connection orders: ok"
        from contracts.closure_native import bounded_cycle_detection
        r = bounded_cycle_detection("quick", 0)
        bad = [f for f in r["failures"] if not f.get("known")]
        if bad:
            return False, bad[0]["desc"]
        return True, f"{r['cases']} small scenarios: accept / reject as the property's rule says"


CONTRACTS = [EnsureNoDataflowCycles()]


class _ML(Lemma):
    property_ids = ["C06", "C05"]

    def native_check(self, m):
        return True, "lemma over the specification (no code)"


class CycleMinBase(_ML):
    """a one-connection path: DIRECT gives an entry not above the connection's delay"""
    name = "cycle_min_base"

    def statement(self, mk):
        g = {"def": z3.Const("descs.def", DefS), "val": z3.Const("descs.val", ValS)}
        s, d = z3.Const("s", Sim), z3.Const("d", Sim)
        return order_axioms() + [direct(g), E(s, d)], And(T(g, s, d), le(V(g, s, d), W(s, d)))


class CycleMinStep(_ML):
    """a path m ~> d with delay x for which [m][d] exists and is <= x, with a connection s -> m (delay w) put in front:
    [s][d] exists and is <= w + x (CLOSED, transitivity, composition monotone in its right argument)"""
    name = "cycle_min_step"

    def statement(self, mk):
        g = {"def": z3.Const("descs.def", DefS), "val": z3.Const("descs.val", ValS)}
        s, m, d = z3.Const("s", Sim), z3.Const("m", Sim), z3.Const("d", Sim)
        x = z3.Const("x", D)
        a, b, w = _c("a", D), _c("b", D), _c("w", D)
        mono_right = z3.ForAll([a, b, w], Implies(le(a, b), le(plus(w, a), plus(w, b))))
        hyps = order_axioms() + [mono_right, closed(g, lambda m_: z3.BoolVal(True)), E(s, m), T(g, m, d), le(V(g, m, d), x)]
        return hyps, And(T(g, s, d), le(V(g, s, d), plus(W(s, m), x)))


LEMMAS = [CycleMinBase(), CycleMinStep()]
