"""Bounded stand-ins: exhaustive native checks of a real function against an independent native
specification, up to a STATED bound.  They are labelled `bounded` in the evidence and are never
counted among the obligations / discharged obligations of a proof-level claim."""
from __future__ import annotations
import time


class NativeBounded:
    """module.func(tier, seed) runs under the repository's interpreter (native/replay.py, mode bounded)"""
    property_ids = []
    module = None
    func = None
    what = ""

    def run(self, tier="quick", seed=0, timeout_ms=10000):
        from pyvc.cli import native
        t0 = time.time()
        nat = native({"module": self.module, "name": self.func, "mode": "bounded", "tier": tier, "seed": seed},
                     timeout=1800 if tier == "thorough" else 600)
        out = {"task": f"bounded:{self.module}.{self.func}", "kind": "bounded", "results": [], "info": {}, "error": None}
        if nat.get("status") == "error":
            out["error"] = {"type": "crash", "msg": "bounded stand-in failed to run: " + str(nat.get("desc"))[:500]}
            return out
        out["bounded"] = {"function": self.what, "stand_in": f"{self.module}.{self.func}", "bound": nat.get("bound"),
                          "cases": nat.get("cases"), "nontrivial": nat.get("nontrivial"), "samples": nat.get("samples"),
                          "failures": len(nat.get("failures", [])), "known_instances": nat.get("known_instances"),
                          "secs": round(time.time() - t0, 2), "label": "bounded (not counted as proved)"}
        for i, f in enumerate(nat.get("failures", [])[:3]):
            out["results"].append({"oid": f"bounded:{self.func}#{i}", "kind": "bounded", "status": "refuted", "solver": "native",
                                   "secs": 0, "where": {"func": self.what}, "note": f"bounded stand-in for {self.what}",
                                   "model": f.get("case"), "n_paths": 1, "detail": f.get("desc", "")[:600],
                                   "replay": {"status": "fails", "desc": f.get("desc", ""), "model": f.get("case"), "mode": "bounded"}})
        return out
