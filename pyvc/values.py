"""Symbolic value universe of pyvc.

Concrete Python values (int, bool, None, str, tuple) are used as they are.
Symbolic scalars are raw z3 terms (Int, Bool, or terms of uninterpreted /
datatype sorts).  The classes below cover what z3 terms cannot: sequences with
symbolic length, (frozen) objects, functions and classes of the program under
verification.
"""
from __future__ import annotations
import ast
import z3
from . import spec as S


class Unsupported(Exception):
    """construct outside the verified subset -> the check is UNDECIDED, never held"""


def is_z3(x):
    return isinstance(x, z3.ExprRef)


def is_int_like(x):
    return (isinstance(x, int) and not isinstance(x, bool)) or (is_z3(x) and z3.is_int(x))


def is_bool_like(x):
    return isinstance(x, bool) or (is_z3(x) and z3.is_bool(x))


class SymSeq:
    """A sequence with (possibly) symbolic length.  Elements are given by a
    meta-level function index -> value, so slicing / concatenation / zip-map
    stay definitional (no quantified axioms)."""

    def __init__(self, length, get, kind="tuple"):
        self.length = length
        self.get = get
        self.kind = kind

    def sym_len(self):
        return self.length

    def __getitem__(self, i):
        if isinstance(i, slice):
            if i.step is not None:
                raise Unsupported("slice step")
            return seq_slice(self, i.start, i.stop)
        return self.get(i)

    @staticmethod
    def from_tuple(t, kind="tuple"):
        t = tuple(t)
        n = len(t)

        def get(i, t=t, n=n):
            if isinstance(i, int):
                return t[i]
            if n == 0:
                return 0
            r = t[n - 1]
            for j in range(n - 2, -1, -1):
                r = z3.If(i == j, t[j], r)
            return r

        return SymSeq(n, get, kind)

    def __repr__(self):
        return f"<SymSeq len={self.length}>"


def as_seq(v):
    if isinstance(v, SymSeq):
        return v
    if isinstance(v, (tuple, list)):
        return SymSeq.from_tuple(v, "tuple" if isinstance(v, tuple) else "list")
    raise Unsupported(f"not a sequence: {v!r}")


def seq_slice(s, lo, hi):
    """s[lo:hi] for lo, hi >= 0 or None (negative bounds are excluded by a
    generated obligation at the use site)."""
    s = as_seq(s)
    n = s.length
    lo = 0 if lo is None else lo
    hi = n if hi is None else hi
    start = S.Min(lo, n)
    stop = S.Min(hi, n)
    ln = S.Max(stop - start, 0)
    if not S.is_sym(ln) and not S.is_sym(start) and isinstance(s, SymSeq):
        pass
    return SymSeq(_simp(ln), lambda i, s=s, start=start: s.get(_simp(i + start)), s.kind)


def seq_concat(a, b):
    a, b = as_seq(a), as_seq(b)
    na = a.length

    def get(i, a=a, b=b, na=na):
        c = _simp(i < na)
        if c is True:
            return a.get(i)
        if c is False:
            return b.get(_simp(i - na))
        return z3.If(c, a.get(i), b.get(_simp(i - na)))

    return SymSeq(_simp(na + b.length), get, a.kind)


def seq_repeat(a, k):
    a = as_seq(a)
    if isinstance(a.length, int) and a.length == 1:
        e = a.get(0)
        return SymSeq(_simp(S.Max(k, 0)), lambda i, e=e: e, a.kind)
    if isinstance(k, int) and isinstance(a.length, int):
        out = []
        for _ in range(max(k, 0)):
            out.extend(a.get(j) for j in range(a.length))
        return SymSeq.from_tuple(out, a.kind)
    raise Unsupported("repeat of a multi-element sequence by a symbolic count")


def _simp(x):
    """constant-fold a z3 term back to a Python value when possible"""
    if is_z3(x):
        x = z3.simplify(x)
        if z3.is_int_value(x):
            return x.as_long()
        if z3.is_true(x):
            return True
        if z3.is_false(x):
            return False
    return x


simp = _simp


class SymObj:
    """An object of a class of the program under verification whose state is a
    dict of fields.  Used for frozen dataclasses (values) and for concrete
    heap objects whose identity is the Python identity of the SymObj."""

    def __init__(self, cls, fields=None, frozen=False):
        object.__setattr__(self, "cls", cls)
        object.__setattr__(self, "fields", dict(fields or {}))
        object.__setattr__(self, "frozen", frozen)

    def __getattr__(self, name):
        f = object.__getattribute__(self, "fields")
        if name in f:
            return f[name]
        raise AttributeError(name)

    def __setattr__(self, name, value):
        self.fields[name] = value

    def __repr__(self):
        return f"<SymObj {self.cls.name} {self.fields}>"


class Func:
    def __init__(self, node, module, qualname, closure=None, cls=None):
        self.node = node
        self.module = module
        self.qualname = qualname
        self.closure = closure
        self.cls = cls

    def __repr__(self):
        return f"<Func {self.qualname}>"


class BoundMethod:
    def __init__(self, func, self_val):
        self.func = func
        self.self_val = self_val


class Builtin:
    def __init__(self, name, fn):
        self.name = name
        self.fn = fn

    def __repr__(self):
        return f"<Builtin {self.name}>"


class ClassInfo:
    def __init__(self, name, node, module):
        self.name = name
        self.node = node
        self.module = module
        self.methods = {}
        self.properties = set()
        self.fields = []  # dataclass fields in order
        self.decorators = []
        self.bases = []
        self.is_dataclass = False
        self.dataclass_eq = True
        self.dataclass_frozen = False
        self.total_ordering = False
        self.class_attrs = {}
        self.qualname = f"{module.name}.{name}"
        for d in node.decorator_list:
            src = ast.unparse(d)
            self.decorators.append(src)
            if src.startswith("dataclass") or src.startswith("dataclasses.dataclass"):
                self.is_dataclass = True
                if isinstance(d, ast.Call):
                    for kw in d.keywords:
                        if kw.arg == "eq" and isinstance(kw.value, ast.Constant):
                            self.dataclass_eq = bool(kw.value.value)
                        if kw.arg == "frozen" and isinstance(kw.value, ast.Constant):
                            self.dataclass_frozen = bool(kw.value.value)
            if "total_ordering" in src:
                self.total_ordering = True
        for b in node.bases:
            self.bases.append(ast.unparse(b))
        for st in node.body:
            if isinstance(st, (ast.FunctionDef, ast.AsyncFunctionDef)):
                f = Func(st, module, f"{module.name}.{name}.{st.name}", cls=self)
                self.methods[st.name] = f
                for d in st.decorator_list:
                    if ast.unparse(d) == "property":
                        self.properties.add(st.name)
            elif isinstance(st, ast.AnnAssign) and isinstance(st.target, ast.Name):
                self.fields.append(st.target.id)

    def lookup(self, name, _depth=0):
        """method / property lookup along the base classes defined in the verified package"""
        if name in self.methods:
            return self.methods[name], self
        if _depth > 8:
            return None, None
        for b in self.bases:
            bn = b.split("[")[0].split(".")[-1]
            base = self.module.classes.get(bn)
            if base is None and bn in self.module.imports:
                try:
                    from . import extract
                    cand = extract.find(self.module.imports[bn])
                    base = cand if isinstance(cand, ClassInfo) else None
                except Exception:
                    base = None
            if base is not None and base is not self:
                m, owner = base.lookup(name, _depth + 1)
                if m is not None:
                    return m, owner
        return None, None

    def __repr__(self):
        return f"<Class {self.qualname}>"


class Opaque:
    """a value whose content is abstracted away (formatted messages, loggers)"""

    def __init__(self, tag, mentions=()):
        self.tag = tag
        self.mentions = tuple(mentions)

    def __repr__(self):
        return f"<Opaque {self.tag} {self.mentions}>"


class NotImplementedType_:
    def __repr__(self):
        return "NotImplemented"


NOT_IMPLEMENTED = NotImplementedType_()


class SymGen:
    """a lazily evaluated generator expression / iterable over a symbolic range:
    elements elem(i) for 0 <= i < n with cond(i) (cond None = no filter)"""

    def __init__(self, n, elem, cond=None):
        self.n = n
        self.elem = elem
        self.cond = cond
