"""Contract / Lemma base classes.  Importable without z3 (native replay)."""
from __future__ import annotations


class Args:
    """the arguments of the function under contract, by parameter name"""

    def __init__(self, d):
        object.__setattr__(self, "_d", dict(d))

    def __getattr__(self, k):
        try:
            return self._d[k]
        except KeyError:
            raise AttributeError(k)

    def __getitem__(self, k):
        return self._d[k]

    def __contains__(self, k):
        return k in self._d

    def items(self):
        return self._d.items()

    def as_dict(self):
        return dict(self._d)


class Contract:
    """A sidecar contract on one real function of /repo (looked up by `target`).

    requires(A)            precondition over the entry values A.<param>
    ensures(A, result)     postcondition on normal return (mutable arguments are seen in
                           their final state; `A.old` holds entry snapshots where needed)
    raises                 {exception class name: predicate(A)} -- the function raises that
                           class IF AND ONLY IF the predicate holds (under requires);
                           every other exception site must be unreachable
    loops                  {loop ordinal in source order: invariant(c, index, v, A)}
    property_post(mk,A,r)  optional extra postcondition taken from the property statement
    variants               optional list of keyword dicts for make_args (shape cases)
    result(mk, p, A)       fresh symbolic result for call sites (modular use of the contract)
    native_call(m)         replay: run the REAL function on the model values m, return
                           (contract_holds: bool, description: str)
    """
    target = None
    property_ids = []
    raises = {}
    loops = {}
    variants = [{}]
    property_post = None
    raise_post = None

    def make_args(self, mk, **variant):
        raise NotImplementedError

    def requires(self, A):
        return True

    def ensures(self, A, result):
        return True


class Lemma:
    """An L3 lemma over contracts / spec functions (no code).
    statement(mk) -> (hypotheses: list, goal) built with pyvc.spec helpers.
    native_check(m) -> (holds, description) evaluates the same statement on the real
    classes for a counter-model m."""
    name = None
    property_ids = []
    provides_axiom = None

    def statement(self, mk):
        raise NotImplementedError
