"""Task runner: one task = one function contract (L1/L2) or one lemma (L3).
A task generates its obligations from /repo's current source, discharges them and
returns JSON-able results.  Tasks are independent and run in a process pool."""
from __future__ import annotations
import time
import traceback
import z3
from . import extract
from .values import Unsupported, SymSeq, SymObj
from .session import Session, Result
from .discharge import discharge, model_value


def extract_model(m, inputs, cap=8):
    """turn a z3 model into plain Python values keyed by the names used in make_args;
    dotted names (a.tiers) become nested dicts"""
    out = {}

    def put(name, val):
        parts = name.split(".")
        d = out
        for q in parts[:-1]:
            d = d.setdefault(q, {})
            if not isinstance(d, dict):
                return
        d[parts[-1]] = val

    for name, desc in inputs.items():
        try:
            if desc[0] in ("int", "bool"):
                put(name, model_value(m, desc[1]))
            elif desc[0] == "seq":
                n = model_value(m, desc[1])
                if not isinstance(n, int):
                    continue
                n2 = max(0, min(n, cap))
                vals = [model_value(m, desc[2][i]) for i in range(n2)]
                put(name, vals)
                if n > cap:
                    put(name + "_truncated_from", n)
            elif desc[0] == "const":
                put(name, model_value(m, desc[1]))
            elif desc[0] == "set":
                arr = desc[1]
                dom = arr.sort().domain()
                uni = m.get_universe(dom) or []
                put(name, [str(e) for e in uni if z3.is_true(m.eval(arr[e], model_completion=True))])
        except Exception as e:  # pragma: no cover
            put(name, f"<{e}>")
    return out


def small_model(ob, inputs, timeout_ms):
    """try to obtain a model with short sequences (easier to replay and to read)"""
    bounds = []
    for name, desc in inputs.items():
        if desc[0] == "seq":
            bounds.append(desc[1] <= 4)
        if desc[0] == "int":
            bounds.append(z3.And(desc[1] >= -9, desc[1] <= 9))
    if not bounds:
        return None
    st, solver, secs, m, det = discharge(ob.assumptions + bounds, ob.goal, timeout_ms)
    if st == "refuted" and m is not None:
        return m
    return None


def discharge_all(session, obligations, timeout_ms, inputs, quick_only=False, only=None):
    """group per-path instances by obligation id; an obligation is discharged iff all
    of its instances are"""
    groups = {}
    order = []
    for ob in obligations:
        if ob.oid not in groups:
            groups[ob.oid] = []
            order.append(ob.oid)
        groups[ob.oid].append(ob)
    results = []
    for oid in order:
        if only is not None and oid not in only:
            continue
        obs = groups[oid]
        status, solver, secs, model, detail = "discharged", set(), 0.0, None, ""
        for ob in obs:
            st, sv, sc, m, det = discharge(ob.assumptions, ob.goal, timeout_ms, quick_only=quick_only)
            secs += sc
            solver.add(sv)
            if st == "refuted":
                status = "refuted"
                inp = ob.inputs if ob.inputs is not None else inputs
                m2 = small_model(ob, inp, min(timeout_ms, 5000)) if m is not None else None
                mm = m2 or m
                model = extract_model(mm, inp) if mm is not None else None
                if model is not None and ob.values:
                    model.update(ob.values)
                mv = getattr(getattr(session, "cur_contract", None), "model_values", None)
                if mv is not None and mm is not None:
                    try:
                        model = dict(model or {})
                        try:
                            model.update(mv(mm, ob))
                        except TypeError:
                            model.update(mv(mm))
                    except Exception as e:  # pragma: no cover
                        model["_model_values_error"] = f"{type(e).__name__}: {e}"
                detail = det or f"path decisions {list(ob.path)}"
                break
            if st == "unknown":
                status = "unknown"
                detail = det
                break  # undecided either way; a small-scope pass (if configured) searches for a model
        r = Result(oid, obs[0].kind, status, "+".join(sorted(solver)), round(secs, 4), obs[0].where, obs[0].note,
                   model, len(obs), detail)
        results.append(r)
    return results


def run_contract(contract, timeout_ms=10000, configure=None, configure_small=None, configure_small2=None):
    t0 = time.time()
    sess = Session(timeout_ms)
    if configure is not None:
        configure(sess)
    out = {"task": contract.target, "kind": "contract", "class": type(contract).__name__, "results": [],
           "error": None, "info": {}}
    try:
        fn = extract.find(contract.target)
        out["source"] = extract.func_source_info(fn)
        sess.register(contract)
        obligations, info = sess.verify(contract)
        out["info"] = info
        results = discharge_all(sess, obligations, timeout_ms, sess.last_inputs, quick_only=configure_small is not None)
        out["info"]["instances"] = len(obligations)
        extra = []
        for conf_s, sname in ((configure_small, "3 simulators, depth 1, times = Int"),
                              (configure_small2, "3 simulators in one group, depth 2, times = (Int, Int)")):
            if conf_s is None or not any(r.status == "unknown" for r in results):
                continue
            # counter-model search: the SAME obligations generated from the same source under
            # a small-scope interpretation of the sorts (every such model is an instance)
            sess2 = Session(timeout_ms)
            conf_s(sess2)
            sess2.register(contract)
            ob2, info2 = sess2.verify(contract)
            res2 = {r.oid: r for r in discharge_all(sess2, ob2, timeout_ms, sess2.last_inputs)}
            out["info"].setdefault("small_scopes", []).append({
                "scope": sname, "instances": len(ob2), "refuted": [k for k, r in res2.items() if r.status == "refuted"],
                "status_of_open": {r.oid: (res2[r.oid].status + " " + str(res2[r.oid].secs) + "s " + res2[r.oid].detail[:80]
                                           if r.oid in res2 else "absent") for r in results if r.status != "discharged"}})
            for r in results:
                if r.status != "unknown":
                    continue
                r2 = res2.get(r.oid)
                if r2 is not None and r2.status == "refuted":
                    r.status, r.model = "refuted", r2.model
                    r.detail = f"proof mode: {r.detail or r.status}; refuted in small scope ({sname})"
                    r.solver = (r.solver + "+" if r.solver else "") + "z3-small-scope"
            # obligations that exist only in small scope (different path structure) and fail there
            known = {r.oid for r in results} | {r.oid for r in extra}
            for r2 in res2.values():
                if r2.status == "refuted" and r2.oid not in known:
                    r2.detail = f"refuted in small scope ({sname}); obligation id has no proof-mode counterpart"
                    extra.append(r2)
        # still undecided after the small-scope passes: give the remaining back ends their chance
        left = {r.oid for r in results if r.status == "unknown"}
        if left and configure_small is not None:
            again = {r.oid: r for r in discharge_all(sess, obligations, timeout_ms, sess.last_inputs, only=left)}
            results = [again.get(r.oid, r) if r.oid in left else r for r in results]
        results.extend(extra)
        out["results"] = [r.to_json() for r in results]
    except Unsupported as e:
        out["error"] = {"type": "unsupported", "msg": str(e)}
    except Exception as e:  # checker crash
        out["error"] = {"type": "crash", "msg": f"{type(e).__name__}: {e}", "tb": traceback.format_exc()}
    out["secs"] = round(time.time() - t0, 3)
    return out


def run_lemma(lemma, timeout_ms=10000, configure=None):
    t0 = time.time()
    sess = Session(timeout_ms)
    if configure is not None:
        configure(sess)
    out = {"task": "lemma:" + lemma.name, "kind": "lemma", "class": type(lemma).__name__, "results": [],
           "error": None, "info": {}}
    try:
        ob = sess.lemma_obligation(lemma)
        # vacuity guard: hypotheses satisfiable
        s = z3.Solver()
        s.set("timeout", min(timeout_ms, 1500))
        for a in ob.assumptions:
            s.add(a)
        out["info"]["hypotheses_sat"] = str(s.check())
        out["results"] = [r.to_json() for r in discharge_all(sess, [ob], timeout_ms, sess.last_inputs)]
        out["info"]["instances"] = 1
    except Unsupported as e:
        out["error"] = {"type": "unsupported", "msg": str(e)}
    except Exception as e:
        out["error"] = {"type": "crash", "msg": f"{type(e).__name__}: {e}", "tb": traceback.format_exc()}
    out["secs"] = round(time.time() - t0, 3)
    return out
