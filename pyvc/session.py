"""Session: contracts registry, built-in models, function verification driver."""
from __future__ import annotations
import ast
import time
import z3
from . import spec as S
from . import extract
from .values import (
    Unsupported, SymSeq, SymObj, Func, BoundMethod, Builtin, ClassInfo, Opaque,
    NOT_IMPLEMENTED, SymGen, as_seq, simp, is_z3, is_int_like, is_bool_like, seq_concat,
)
from .interp import (
    Interp, PathCtx, PathEnd, PyRaise, Env, Frame, ExcClass, ExcValue, Namespace, Obligation,
    EXC_PARENT, exc_is, _Return,
)


class Maker:
    """creates the symbolic inputs of a function under contract (deterministic names)"""

    def __init__(self, session):
        self.s = session
        self.inputs = {}  # name -> description for model extraction

    def int(self, name):
        v = z3.Int(name)
        self.inputs[name] = ("int", v)
        return v

    def bool(self, name):
        v = z3.Bool(name)
        self.inputs[name] = ("bool", v)
        return v

    def seq(self, name, kind="tuple"):
        n = z3.Int(name + ".len")
        a = z3.Array(name, z3.IntSort(), z3.IntSort())
        self.s.side_assumptions.append(n >= 0)
        self.inputs[name] = ("seq", n, a)
        return SymSeq(n, lambda i, a=a: a[i], kind)

    def const(self, name, sort):
        v = z3.Const(name, sort)
        self.inputs[name] = ("const", v)
        return v

    def blank(self, clsname):
        """an object under construction (argument `self` of __init__)"""
        return SymObj(self.s.class_by_name(clsname), {}, frozen=False)

    def obj(self, clsname, **fields):
        cls = self.s.class_by_name(clsname)
        o = SymObj(cls, fields, frozen=cls.dataclass_frozen)
        return o


from .contract import Contract, Args, Lemma  # noqa: E402


class Result:
    def __init__(self, oid, kind, status, solver, secs, where, note="", model=None, n_paths=1, detail=""):
        self.oid = oid
        self.kind = kind
        self.status = status  # 'discharged' | 'refuted' | 'unknown'
        self.solver = solver
        self.secs = secs
        self.where = where
        self.note = note
        self.model = model
        self.n_paths = n_paths
        self.detail = detail

    def to_json(self):
        return {k: getattr(self, k) for k in ("oid", "kind", "status", "solver", "secs", "where", "note", "model", "n_paths", "detail")}


class Session:
    def __init__(self, timeout_ms=10000):
        self.contracts = {}
        self.models = []
        self.side_assumptions = []
        self.timeout_ms = timeout_ms
        self._module_envs = {}
        self._frames = {}
        self.inline_all = False
        self.top_target = None
        self.use_contracts_for = set()
        self.builtins = make_builtins(self)
        self.stats = {"paths": 0, "feas_checks": 0}
        self.unsupported = []

    # ---- registry ------------------------------------------------------
    def register(self, contract):
        self.contracts[contract.target] = contract

    def add_model(self, m):
        self.models.append(m)

    def hook(self, name, *args):
        for m in self.models:
            f = getattr(m, name, None)
            if f is not None:
                r = f(*args)
                if r is not NotImplemented:
                    return r
        return NotImplemented

    def class_by_name(self, clsname):
        if "." in clsname:
            c = extract.find(clsname)
        else:
            c = None
            for mod in list(extract._cache.values()):
                if clsname in mod.classes:
                    c = mod.classes[clsname]
                    break
        if not isinstance(c, ClassInfo):
            raise Unsupported(f"class {clsname} not found")
        return c

    def frame_for(self, fn):
        f = self._frames.get(id(fn.node))
        if f is None:
            f = Frame(fn)
            self._frames[id(fn.node)] = f
        return f

    def float_const(self, v):
        r = self.hook("float_const", v)
        if r is not NotImplemented:
            return r
        raise Unsupported("float constant")

    # ---- names ------------------------------------------------------------
    def module_env(self, module):
        e = self._module_envs.get(module.name)
        if e is None:
            local = {}
            local.update(module.functions)
            local.update(module.classes)
            e = Env(local, None, module)
            self._module_envs[module.name] = e
        return e

    def global_name(self, interp, name, env, node):
        # module-level imports / assignments of the function's module
        mod = interp.frame.func.module if interp.frames else None
        if mod is not None:
            if name in mod.imports:
                v = self.resolve_import(mod.imports[name])
                return v
            if name in mod.assigns:
                r = self.hook("module_constant", interp, mod, name)
                if r is not NotImplemented:
                    return r
                a = mod.assigns[name]
                if isinstance(a, ast.Constant):
                    return a.value
                raise Unsupported(f"module-level name {name}")
        if name in self.builtins:
            return self.builtins[name]
        raise Unsupported(f"unknown name {name} at line {getattr(node, 'lineno', '?')}")

    def resolve_import(self, dotted):
        r = self.hook("resolve_import", dotted)
        if r is not NotImplemented:
            return r
        if dotted.split(".")[-1] in EXC_PARENT:
            return ExcClass(dotted.split(".")[-1])
        if dotted.startswith("mosaik.") or dotted == "mosaik":
            try:
                return extract.find(dotted)
            except Unsupported:
                try:
                    m = extract.load_module(dotted)
                    return Namespace(dotted, dict(**m.functions, **m.classes), None)
                except Unsupported:
                    pass
        last = dotted.split(".")[-1]
        if last in EXC_PARENT:
            return ExcClass(last)
        if dotted in ("functools", "dataclasses", "typing", "__future__.annotations"):
            return Namespace(dotted, {}, None)
        return Namespace(dotted, {}, lambda d: self.resolve_import(d) if d != dotted else None) if False else ExternalRef(dotted)

    # ---- contracts at call sites -------------------------------------------
    def contract_for_call(self, interp, fn):
        c = self.contracts.get(fn.qualname)
        if c is None:
            return None
        if fn.qualname in self.use_contracts_for:
            return c
        return None

    def apply_contract(self, interp, c, fn, args, kwargs, node, star):
        local = Args(interp.bind_args(fn, args, kwargs, node, star))
        p = interp.p
        if hasattr(c, "call_effect"):
            # heap-modifying callee: precondition and effect are evaluated on the current state
            short = fn.qualname.split(".")[-1]
            for cname, g in c.call_requires(interp, local).items():
                p.oblige(interp.oid(node, f"requires:{short}:{cname}"), "call_requires", g, interp.where(node),
                         f"precondition clause {cname} of {fn.qualname} holds at the call")
                p.assume(g)
            return c.call_effect(interp, local, node)
        req = c.requires(local)
        p.oblige(interp.oid(node, "requires:" + fn.qualname.split(".")[-1]), "call_requires", req, interp.where(node),
                 f"precondition of {fn.qualname} holds at the call")
        p.assume(req if not isinstance(req, bool) else req)
        for exc, cond in c.raises.items():
            cv = cond(local)
            if interp.decide(cv):
                interp.raise_(exc, node, implicit="contract")
        mk = Maker(self)
        n0 = len(self.side_assumptions)
        res = c.result(mk, p, local)
        for sa in self.side_assumptions[n0:]:
            p.assume(sa)
        p.assume(c.ensures(local, res))
        return res

    def side_assumptions_since(self, mk):
        return []

    # ---- loops ------------------------------------------------------------
    def loop_invariant(self, frame, node):
        c = self.contracts.get(frame.qualname)
        if c is None:
            return None
        k, o = frame.node_ord.get(id(node), (None, None))
        f = c.loops.get(o)
        if f is None:
            return None
        args = self._cur_args

        def inv(index, view, f=f, c=c, args=args):
            return f(c, index, view, args)

        return inv

    def loop_iter_post(self, frame, node):
        c = self.contracts.get(frame.qualname)
        if c is None:
            return None
        k, o = frame.node_ord.get(id(node), (None, None))
        f = getattr(c, "iter_post", {}).get(o)
        if f is None:
            return None
        args = self._cur_args
        return lambda view, f=f, c=c, args=args: f(c, view, args)

    def havoc_loop(self, interp, st, env, inv):
        names = set()
        for n in ast.walk(ast.Module(body=st.body, type_ignores=[])):
            if isinstance(n, ast.Name) and isinstance(n.ctx, ast.Store):
                names.add(n.id)
        # local lists / sets mutated through methods
        for n in ast.walk(ast.Module(body=st.body, type_ignores=[])):
            if isinstance(n, ast.Call) and isinstance(n.func, ast.Attribute) and isinstance(n.func.value, ast.Name) \
                    and n.func.attr in ("append", "add", "remove", "pop", "extend", "insert", "clear", "update", "discard"):
                names.add(n.func.value.id)
        if isinstance(st, ast.For):
            for n in ast.walk(st.target):
                if isinstance(n, ast.Name):
                    names.discard(n.id)
        for nm in sorted(names):
            try:
                cur = env.lookup(nm)
            except KeyError:
                continue
            env.set(nm, self.havoc_value(interp, nm, cur))
        # fields of local objects assigned / deleted-from in the body
        fields = set()
        for n in ast.walk(ast.Module(body=st.body, type_ignores=[])):
            tgts = []
            if isinstance(n, (ast.Assign,)):
                tgts = n.targets
            elif isinstance(n, (ast.AugAssign, ast.AnnAssign)):
                tgts = [n.target]
            elif isinstance(n, ast.Delete):
                tgts = n.targets
            for t in tgts:
                while isinstance(t, ast.Subscript):
                    t = t.value
                if isinstance(t, ast.Attribute) and isinstance(t.value, ast.Name):
                    fields.add((t.value.id, t.attr))
        for on, attr in sorted(fields):
            try:
                obj = env.lookup(on)
            except KeyError:
                continue
            if isinstance(obj, SymObj) and attr in obj.fields:
                r = self.hook("havoc_field", interp, obj, attr, obj.fields[attr])
                obj.fields[attr] = r if r is not NotImplemented else self.havoc_value(interp, f"{on}.{attr}", obj.fields[attr])
        self.hook("havoc_loop_heap", interp, st, env)

    def havoc_value(self, interp, nm, cur):
        p = interp.p
        if getattr(cur, "elem_sort", None) is not None:
            r = self.hook("havoc_value", interp, nm, cur)
            if r is not NotImplemented:
                return r
        if is_bool_like(cur):
            return p.fresh(nm, "bool")
        if is_int_like(cur):
            return p.fresh(nm, "int")
        if isinstance(cur, (SymSeq, tuple, list)) and not isinstance(cur, str):
            n = p.fresh(nm + ".len", "int")
            p.assume(n >= 0)
            a = p.fresh(nm, z3.ArraySort(z3.IntSort(), z3.IntSort()))
            kind = cur.kind if isinstance(cur, SymSeq) else "tuple"
            return SymSeq(n, lambda i, a=a: a[i], kind)
        if is_z3(cur):
            return p.fresh(nm, cur.sort())
        r = self.hook("havoc_value", interp, nm, cur)
        if r is not NotImplemented:
            return r
        raise Unsupported(f"cannot havoc loop-modified variable {nm} = {cur!r}")

    # ---- verification of one function against its contract -----------------
    def verify(self, contract, max_paths=4000):
        """symbolically execute the real function on every path of every variant;
        returns (obligations, info)"""
        fn = extract.find(contract.target)
        if not isinstance(fn, Func):
            raise Unsupported(f"{contract.target} is not a function")
        self.top_target = contract.target
        self.cur_contract = contract
        sink = []
        info = {"paths": 0, "feasible_returns": 0, "feasible_raises": {}, "variants": len(contract.variants),
                "requires_sat": None}
        short = fn.qualname.split(".", 2)[-1] if fn.qualname.startswith("mosaik.") else fn.qualname
        only = getattr(contract, "_only_variant", None)
        for vi, variant in enumerate(contract.variants):
            if only is not None and vi != only:
                continue
            vtag = f"[v{vi}]" if len(contract.variants) > 1 else ""
            worklist = [[]]
            while worklist:
                preset = worklist.pop()
                info["paths"] += 1
                if info["paths"] > max_paths:
                    raise Unsupported(f"path explosion in {contract.target}")
                p = PathCtx(preset, worklist, sink)
                p.values = dict(variant)
                self.side_assumptions = []
                mk = Maker(self)
                args = contract.make_args(mk, **variant)
                A = Args(args)
                p.inputs = mk.inputs
                self.last_inputs = mk.inputs
                self._cur_args = A
                interp = Interp(p, self)
                try:
                    for sa in self.side_assumptions:
                        p.assume(sa)
                    if hasattr(contract, "setup"):
                        contract.setup(p, A, mk)
                    p.assume(contract.requires(A))
                    if not preset:
                        # vacuity guard: the precondition (with typing side conditions) is satisfiable
                        ok = p.solver.check() != z3.unsat
                        info["requires_sat"] = ok if info["requires_sat"] is None else (info["requires_sat"] and ok)
                    try:
                        res = interp.call_with_locals(fn, dict(args))
                        outcome = ("return", res)
                    except PyRaise as e:
                        outcome = ("raise", e)
                    where = {"func": fn.qualname, "line": fn.node.lineno, "label": "post"}
                    if outcome[0] == "return":
                        info["feasible_returns"] += 1
                        res = outcome[1]
                        if hasattr(contract, "post_hints"):
                            # instances of already assumed (lemma-)axioms that the solver does not find by
                            # itself: each is first an obligation, then available for the postconditions
                            for hi, hf in enumerate(contract.post_hints(A, res)):
                                p.oblige(f"{short}{vtag}:hint#{hi}", "hint", hf, where, "instance of a background lemma")
                                p.assume(hf)
                        if hasattr(contract, "split_post"):
                            for cname, g in contract.split_post(A, res).items():
                                p.oblige(f"{short}{vtag}:post:{cname}", "post", g, where,
                                         f"postcondition clause {cname} on normal return")
                        else:
                            p.oblige(f"{short}{vtag}:post", "post", contract.ensures(A, res), where,
                                     "postcondition on normal return")
                        for exc, cond in contract.raises.items():
                            p.oblige(f"{short}{vtag}:must_raise:{exc}", "must_raise", S.Not(cond(A)), where,
                                     f"normal return only when the condition for {exc} does not hold")
                        if contract.property_post is not None:
                            n0 = len(self.side_assumptions)
                            g = contract.property_post(mk, A, res)
                            for sa in self.side_assumptions[n0:]:
                                p.assume(sa)
                            p.oblige(f"{short}{vtag}:property_post", "property_post", g, where,
                                     "postcondition taken from the property statement")
                    else:
                        e = outcome[1]
                        info["feasible_raises"][e.cls] = info["feasible_raises"].get(e.cls, 0) + 1
                        w = getattr(e, "where", None) or where
                        declared = None
                        for exc, cond in contract.raises.items():
                            if exc_is(e.cls, exc):
                                declared = cond
                                break
                        if hasattr(contract, "raise_allowed"):
                            ra = contract.raise_allowed(A, e)
                            declared = (lambda A_, ra=ra: ra) if ra is not None else None
                        site = (e.site or f"{short}:raise") + vtag
                        if declared is None:
                            p.oblige(f"{site}:unreachable:{e.cls}", "no_raise", False, w,
                                     f"{e.cls} ({e.implicit or 'explicit raise'}) is not permitted by the contract: "
                                     "the site must be unreachable")
                        else:
                            p.oblige(f"{site}:raise_allowed:{e.cls}", "raise_allowed", declared(A), w,
                                     f"{e.cls} is raised only under the declared condition")
                            if contract.raise_post is not None:
                                p.oblige(f"{site}:raise_post:{e.cls}", "raise_post", contract.raise_post(A, e), w,
                                         "exceptional postcondition")
                except PathEnd:
                    pass
                self.stats["paths"] += 1
                self.stats["feas_checks"] += p.stats["feas_checks"]
        return sink, info

    def lemma_obligation(self, lemma):
        """an L3 lemma: one obligation, no code"""
        self.side_assumptions = []
        mk = Maker(self)
        hyps, goal = lemma.statement(mk)
        self.last_inputs = mk.inputs
        hyps = [h for h in hyps if h is not True]
        return Obligation(f"lemma:{lemma.name}", "lemma", list(self.side_assumptions) + hyps, goal,
                          {"func": "lemma " + lemma.name, "line": None, "label": "lemma"}, lemma.__doc__ or "")


class ExternalRef:
    """a name imported from outside the verified package; usable only through a model hook"""

    def __init__(self, dotted):
        self.dotted = dotted

    def __repr__(self):
        return f"<external {self.dotted}>"


# --------------------------------------------------------------------------
# built-ins


def make_builtins(session):
    B = {}

    def reg(name):
        def deco(f):
            B[name] = Builtin(name, f)
            return f
        return deco

    @reg("len")
    def _len(it, node, x):
        if isinstance(x, (tuple, list, str, dict, set, frozenset)):
            return len(x)
        if isinstance(x, SymSeq):
            return x.length
        if isinstance(x, SymObj) and "__len__" in x.cls.methods:
            return it.call_function(x.cls.methods["__len__"], [x], {}, node)
        r = session.hook("len", it, x, node)
        if r is not NotImplemented:
            return r
        raise Unsupported(f"len of {x!r}")

    @reg("min")
    def _min(it, node, *xs, **kw):
        r = session.hook("min_max", it, "min", xs, kw, node)
        if r is not NotImplemented:
            return r
        if len(xs) == 2 and all(is_int_like(x) for x in xs):
            return simp(S.Min(xs[0], xs[1]))
        if len(xs) == 2:
            # Python: min(a, b) returns b if b < a else a
            a, b = xs
            return b if it.decide(it.order("lt", b, a, node)) else a
        raise Unsupported("min")

    @reg("max")
    def _max(it, node, *xs, **kw):
        r = session.hook("min_max", it, "max", xs, kw, node)
        if r is not NotImplemented:
            return r
        if len(xs) == 2 and all(is_int_like(x) for x in xs):
            return simp(S.Max(xs[0], xs[1]))
        if len(xs) == 2:
            a, b = xs
            return b if it.decide(it.order("gt", b, a, node)) else a
        raise Unsupported("max")

    @reg("range")
    def _range(it, node, *xs):
        if all(isinstance(x, int) for x in xs):
            return range(*xs)
        if len(xs) == 1:
            lo, hi = 0, xs[0]
        elif len(xs) == 2:
            lo, hi = xs
        else:
            raise Unsupported("range with step")
        return SymGen(simp(S.Max(hi - lo, 0)), lambda i, lo=lo: simp(lo + i))

    def _seqlike(x):
        if isinstance(x, SymGen):
            if x.cond is not None:
                raise Unsupported("filtered generator as sequence")
            return SymSeq(x.n, x.elem)
        if isinstance(x, range):
            return SymSeq.from_tuple(tuple(x))
        return as_seq(x)

    @reg("zip")
    def _zip(it, node, *xs):
        ss = [_seqlike(x) for x in xs]
        if all(isinstance(s.length, int) for s in ss):
            n = min(s.length for s in ss)
            return [tuple(s.get(i) for s in ss) for i in range(n)]
        n = ss[0].length
        for s in ss[1:]:
            n = S.Min(n, s.length)
        return SymGen(simp(n), lambda i, ss=ss: tuple(s.get(i) for s in ss))

    @reg("enumerate")
    def _enumerate(it, node, x, start=0):
        if isinstance(x, list) and all(isinstance(e, tuple) for e in x) or isinstance(x, (tuple, list)):
            return [(start + i, e) for i, e in enumerate(x)]
        if isinstance(x, SymGen):
            if x.cond is not None:
                raise Unsupported("enumerate of filtered generator")
            if isinstance(x.n, int):
                return [(start + i, x.elem(i)) for i in range(x.n)]
            return SymGen(x.n, lambda i, x=x: (simp(start + i), x.elem(i)))
        s = _seqlike(x)
        if isinstance(s.length, int):
            return [(start + i, s.get(i)) for i in range(s.length)]
        return SymGen(s.length, lambda i, s=s: (simp(start + i), s.get(i)))

    @reg("reversed")
    def _reversed(it, node, x):
        r = session.hook("reversed", it, x, node)
        if r is not NotImplemented:
            return r
        if isinstance(x, (tuple, list, range)):
            return list(reversed(x))
        if isinstance(x, SymGen) and x.cond is None:
            n = x.n
            return SymGen(n, lambda i, x=x, n=n: x.elem(simp(n - 1 - i)))
        s = _seqlike(x)
        n = s.length
        return SymGen(n, lambda i, s=s, n=n: s.get(simp(n - 1 - i)))

    @reg("tuple")
    def _tuple(it, node, x=()):
        if isinstance(x, (tuple, list)):
            return tuple(x)
        if isinstance(x, SymGen):
            if x.cond is not None:
                raise Unsupported("tuple() of filtered generator")
            if isinstance(x.n, int):
                return tuple(x.elem(i) for i in range(x.n))
            return SymSeq(x.n, x.elem, "tuple")
        if isinstance(x, SymSeq):
            return SymSeq(x.length, x.get, "tuple")
        r = session.hook("to_tuple", it, x, node)
        if r is not NotImplemented:
            return r
        raise Unsupported(f"tuple({x!r})")

    @reg("list")
    def _list(it, node, x=()):
        r = session.hook("to_list", it, x, node)
        if r is not NotImplemented:
            return r
        t = _tuple(it, node, x)
        if isinstance(t, tuple):
            return SymSeq.from_tuple(t, "list")
        return SymSeq(t.length, t.get, "list")

    @reg("any")
    def _any(it, node, x):
        if isinstance(x, (tuple, list)):
            return S.Or(*[it.truth(e) for e in x])
        if isinstance(x, SymGen):
            return S.exists(0, x.n, lambda j: S.And(x.cond(j) if x.cond else True, it.truth(x.elem(j))))
        if isinstance(x, SymSeq):
            return S.exists(0, x.length, lambda j: it.truth(x.get(j)))
        raise Unsupported("any")

    @reg("all")
    def _all(it, node, x):
        if isinstance(x, (tuple, list)):
            return S.And(*[it.truth(e) for e in x])
        if isinstance(x, SymGen):
            return S.forall(0, x.n, lambda j: S.Implies(x.cond(j) if x.cond else True, it.truth(x.elem(j))))
        if isinstance(x, SymSeq):
            return S.forall(0, x.length, lambda j: it.truth(x.get(j)))
        raise Unsupported("all")

    @reg("isinstance")
    def _isinstance(it, node, v, cls):
        r = session.hook("isinstance", it, v, cls, node)
        if r is not NotImplemented:
            return r
        if isinstance(cls, tuple):
            return S.Or(*[_isinstance(it, node, v, c) for c in cls])
        if isinstance(cls, ClassInfo):
            if isinstance(v, SymObj):
                c = v.cls
                return c is cls or cls.name in c.bases
            return False
        if isinstance(cls, Builtin):
            nm = cls.name
            if nm == "int":
                return is_int_like(v) or is_bool_like(v)
            if nm == "bool":
                return is_bool_like(v)
            if nm == "str":
                return isinstance(v, (str, Opaque))
            if nm == "tuple":
                return isinstance(v, tuple) or (isinstance(v, SymSeq) and v.kind == "tuple")
            if nm == "list":
                return isinstance(v, list) or (isinstance(v, SymSeq) and v.kind == "list")
        raise Unsupported(f"isinstance(.., {cls!r})")

    @reg("int")
    def _int(it, node, x=0):
        if isinstance(x, bool):
            return int(x)
        if isinstance(x, int):
            return x
        if is_z3(x) and z3.is_bool(x):
            return z3.If(x, 1, 0)
        if is_z3(x) and z3.is_int(x):
            return x
        r = session.hook("to_int", it, x, node)
        if r is not NotImplemented:
            return r
        raise Unsupported(f"int({x!r})")

    @reg("bool")
    def _bool(it, node, x=False):
        return it.truth(x)

    @reg("str")
    def _str(it, node, x=""):
        if isinstance(x, str):
            return x
        return Opaque("str", [])

    @reg("repr")
    def _repr(it, node, x):
        return Opaque("str", [])

    @reg("print")
    def _print(it, node, *a, **k):
        return None

    @reg("abs")
    def _abs(it, node, x):
        return simp(S.If(x >= 0, x, -x))

    @reg("sum")
    def _sum(it, node, x, start=0):
        if isinstance(x, (tuple, list)):
            acc = start
            for e in x:
                acc = simp(acc + e)
            return acc
        raise Unsupported("sum over symbolic range")

    @reg("type")
    def _type(it, node, x):
        if isinstance(x, SymObj):
            return x.cls
        return Opaque("type", [])

    @reg("map")
    def _map(it, node, f, x):
        if isinstance(x, (tuple, list)):
            return [it.call(f, [e], {}, node) for e in x]
        raise Unsupported("map over symbolic")

    # object.__setattr__ (used by frozen dataclass __init__)
    def _obj_setattr(it, node, obj, name, val):
        if not isinstance(obj, SymObj) or not isinstance(name, str):
            raise Unsupported("object.__setattr__")
        obj.fields[name] = val
        return None

    B["object"] = Namespace("object", {"__setattr__": Builtin("object.__setattr__", _obj_setattr)})
    B["NotImplemented"] = NOT_IMPLEMENTED
    B["True"] = True
    B["False"] = False
    B["None"] = None
    for exc in EXC_PARENT:
        if "." not in exc:
            B[exc] = ExcClass(exc)
    for nm in ("int", "bool", "str", "tuple", "list"):
        pass
    return B
