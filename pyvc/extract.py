"""Extraction of the verified text from /repo's working tree (every run).

Nothing is cached and nothing is copied into /verif: the ast.FunctionDef found
under a qualified name *is* the program that gets verified.
"""
from __future__ import annotations
import ast
import hashlib
import os
from .values import ClassInfo, Func, Unsupported

REPO = os.environ.get("VERIF_REPO", "/repo")


class ModuleInfo:
    def __init__(self, name, path):
        self.name = name
        self.path = path
        with open(path, "r", encoding="utf-8") as fh:
            self.source = fh.read()
        self.sha = hashlib.sha256(self.source.encode()).hexdigest()[:16]
        self.tree = ast.parse(self.source, filename=path)
        self.functions = {}
        self.classes = {}
        self.imports = {}  # local name -> dotted origin
        self.assigns = {}  # module-level simple assignments name -> ast expr
        for st in self.tree.body:
            self._scan(st)

    def _scan(self, st):
        if isinstance(st, (ast.FunctionDef, ast.AsyncFunctionDef)):
            self.functions[st.name] = Func(st, self, f"{self.name}.{st.name}")
        elif isinstance(st, ast.ClassDef):
            self.classes[st.name] = ClassInfo(st.name, st, self)
        elif isinstance(st, ast.Import):
            for a in st.names:
                self.imports[a.asname or a.name.split(".")[0]] = a.name
        elif isinstance(st, ast.ImportFrom):
            for a in st.names:
                self.imports[a.asname or a.name] = f"{st.module}.{a.name}"
        elif isinstance(st, ast.Assign) and len(st.targets) == 1 and isinstance(st.targets[0], ast.Name):
            self.assigns[st.targets[0].id] = st.value
        elif isinstance(st, ast.If):
            # e.g. `if TYPE_CHECKING:` blocks: scanned for definitions only
            for s in st.body:
                if isinstance(s, (ast.FunctionDef, ast.AsyncFunctionDef, ast.ClassDef)):
                    self._scan(s)


_cache = {}


def load_module(dotted: str) -> ModuleInfo:
    """dotted = e.g. 'mosaik.tiered_time' ; read from the working tree"""
    if dotted in _cache:
        return _cache[dotted]
    rel = dotted.replace(".", "/") + ".py"
    path = os.path.join(REPO, rel)
    if not os.path.exists(path):
        raise Unsupported(f"module {dotted} not found at {path}")
    m = ModuleInfo(dotted, path)
    _cache[dotted] = m
    return m


def find(qualname: str):
    """'mosaik.tiered_time.TieredInterval.__lt__' -> Func ; '...TieredInterval' -> ClassInfo"""
    parts = qualname.split(".")
    for cut in range(len(parts) - 1, 0, -1):
        mod = ".".join(parts[:cut])
        rel = os.path.join(REPO, mod.replace(".", "/") + ".py")
        if os.path.exists(rel):
            m = load_module(mod)
            rest = parts[cut:]
            if len(rest) == 1:
                if rest[0] in m.functions:
                    return m.functions[rest[0]]
                if rest[0] in m.classes:
                    return m.classes[rest[0]]
            elif len(rest) == 2 and rest[0] in m.classes:
                c = m.classes[rest[0]]
                if rest[1] in c.methods:
                    return c.methods[rest[1]]
            raise Unsupported(f"{qualname}: not found in {mod} (function removed or renamed)")
    raise Unsupported(f"{qualname}: no module found")


def func_source_info(f: Func):
    seg = ast.get_source_segment(f.module.source, f.node) or ""
    return {
        "qualname": f.qualname,
        "file": os.path.relpath(f.module.path, REPO),
        "line": f.node.lineno,
        "end_line": f.node.end_lineno,
        "sha": hashlib.sha256(seg.encode()).hexdigest()[:12],
    }
