"""Heap + time model for the scheduler functions (scheduler.py, simmanager.SimRunner,
progress.Progress, parts of scenario.py).

* Simulators are terms of an uninterpreted sort Sim; every mutable SimRunner field that
  the scheduler touches is a path-local z3 array indexed by Sim ("typed heap", Boogie
  style).  Static connection tables (triggering_ancestors, input_delays, successors,
  triggers, from_world_time, type, depth) are uninterpreted functions: they do not change
  while scheduler.run() is active.
* Times and delays are terms of sorts T and D.  Callers see tiered_time.py ONLY through
  the contracts proved for it in C08 (shape/tier axioms for `+`, order axioms A1-A7 with
  provenance); nothing of tiered_time.py's bodies is re-executed here.
* `scope="small"` re-interprets the same sorts finitely (Sim = 3 constants, T = D = Int,
  depth 1) so that failing obligations yield concrete, replayable counter-models; every
  small-scope model is an instance of the general obligation.
"""
from __future__ import annotations
import ast
import itertools
import z3
from ..values import Unsupported, SymSeq, SymObj, Builtin, Func, BoundMethod, Opaque, is_z3, simp, is_int_like
from ..interp import Namespace, ExcClass, PyRaise
from .. import spec as S


# ======================================================================== algebra
class Algebra:
    """sorts and operations on times (T) and delays (D)"""

    def __init__(self, scope="proof", nsims=3):
        self.scope = scope
        self.small = scope in ("small", "small2")
        self.two = scope == "small2"     # depth-2 scope: every simulator in one group; times = hi * W + lo
        self.W = 4
        self.axioms = []   # (name, formula, provenance)
        if self.small:
            if nsims not in _ENUMS:
                _ENUMS[nsims] = z3.EnumSort(f"SimE{nsims}", [f"s{i}" for i in range(nsims)])
            self.Sim, self.sims = _ENUMS[nsims]
            self.T = z3.IntSort()
            self.D = z3.IntSort()
        else:
            self.Sim = z3.DeclareSort("Sim")
            self.sims = None
            self.T = z3.DeclareSort("T")
            self.D = z3.DeclareSort("D")
            I, B, T, D = z3.IntSort(), z3.BoolSort(), self.T, self.D
            self.f_tlen = z3.Function("tlen", T, I)
            self.f_tier = z3.Function("tier", T, I, I)
            self.f_dpre = z3.Function("dpre", D, I)
            self.f_dcut = z3.Function("dcut", D, I)
            self.f_dlen = z3.Function("dlen", D, I)
            self.f_dtier = z3.Function("dtier", D, I, I)
            self.f_tlt = z3.Function("tlt", T, T, B)
            self.f_tle = z3.Function("tle", T, T, B)
            self.f_plus = z3.Function("plus", T, D, T)
            self.f_comp = z3.Function("comp", D, D, D)
            self.f_dlt = z3.Function("dlt", D, D, B)
            self.f_mkT1 = z3.Function("mkT1", I, T)
            self.f_world = z3.Function("at_world", I, I, T)  # (time, depth) -> (time, 0, ..., 0)
            self._axioms()
        self.Str = z3.DeclareSort("Str")
        self.f_depth = z3.Function("depth", self.Sim, z3.IntSort())
        self.TB = 16 if self.two else 10   # small scope: all times range over 0..TB-1 (assumed for every time term created)
        self.time_terms = []    # (unused for quantifier expansion since the range is fixed)

    # ---- operations (work in both scopes)
    def tlen(self, t):
        if self.two:
            return 2
        return 1 if self.small else self.f_tlen(t)

    def tier(self, t, i):
        if self.two:
            if isinstance(i, int):
                return _div(t, self.W) if i == 0 else t % self.W
            return z3.If(i == 0, _div(t, self.W), t % self.W)
        return t if self.small else self.f_tier(t, i)

    def time(self, t):
        if self.two:
            return _div(t, self.W)
        return t if self.small else self.f_tier(t, 0)

    def dpre(self, d):
        if self.two:
            return 2
        return 1 if self.small else self.f_dpre(d)

    def dcut(self, d):
        if self.two:
            return _div(d, self.W * self.W) + 1
        return 1 if self.small else self.f_dcut(d)

    def dlen(self, d):
        if self.two:
            return 2
        return 1 if self.small else self.f_dlen(d)

    def dtier(self, d, i):
        if self.two:
            d0, d1 = _div(d, self.W) % self.W, d % self.W
            if isinstance(i, int):
                return d0 if i == 0 else d1
            return z3.If(i == 0, d0, d1)
        return d if self.small else self.f_dtier(d, i)

    def lt(self, t, u):
        return t < u if self.small else self.f_tlt(t, u)

    def le(self, t, u):
        return t <= u if self.small else self.f_tle(t, u)

    def plus(self, t, d):
        if self.two:
            W = self.W
            hi, lo = _div(t, W), t % W
            return (hi + self.dtier(d, 0)) * W + z3.If(self.dcut(d) == 2, lo + self.dtier(d, 1), self.dtier(d, 1))
        return t + d if self.small else self.f_plus(t, d)

    def comp(self, a, b):
        if self.two:
            W = self.W
            cut = z3.If(self.dcut(a) <= self.dcut(b), self.dcut(a), self.dcut(b))
            d0 = self.dtier(a, 0) + self.dtier(b, 0)
            d1 = z3.If(self.dcut(b) == 2, self.dtier(a, 1) + self.dtier(b, 1), self.dtier(b, 1))
            return (cut - 1) * W * W + d0 * W + d1
        return a + b if self.small else self.f_comp(a, b)

    def dlt(self, a, b):
        if self.two:
            return a % (self.W * self.W) < b % (self.W * self.W)
        return a < b if self.small else self.f_dlt(a, b)

    def dle(self, a, b):
        if self.two:
            return z3.Or(a == b, self.dlt(a, b))
        return a <= b if self.small else z3.Or(a == b, self.f_dlt(a, b))

    def mkT1(self, x):
        if self.two:
            return x * self.W      # carried as (x, 0); lengths are not modelled in the small scopes
        return x if self.small else self.f_mkT1(x)

    def at_world(self, x, depth):
        """TieredTime(x) + from_world_time of a simulator of that depth = (x, 0, ..., 0)"""
        if self.two:
            return x * self.W
        return x if self.small else self.f_world(x, depth)

    def depth(self, s):
        if self.two:
            return 2
        return 1 if self.small else self.f_depth(s)

    def d_wf(self, d):
        if self.two:
            return z3.And(d >= 0, d < 2 * self.W * self.W)
        if self.small:
            return d >= 0
        return z3.And(1 <= self.f_dcut(d), self.f_dcut(d) <= self.f_dpre(d), self.f_dcut(d) <= self.f_dlen(d))

    def d_nonneg(self, d):
        if self.small:
            return d >= 0
        i = z3.Int("i!nn")
        return z3.ForAll([i], z3.Implies(z3.And(0 <= i, i < self.f_dlen(d)), self.f_dtier(d, i) >= 0))

    def t_nonneg(self, t):
        if self.small:
            return t >= 0
        i = z3.Int("i!tn")
        return z3.ForAll([i], z3.Implies(z3.And(0 <= i, i < self.f_tlen(t)), self.f_tier(t, i) >= 0))

    def forall_sims(self, f, name="s"):
        if self.small:
            return S.And(*[f(c) for c in self.sims])
        x = z3.Const(f"{name}!{next(_q)}", self.Sim)
        body = f(x)
        if body is True:
            return True
        return z3.ForAll([x], body)

    def all_var(self, var, body):
        """forall var: body  (var a Sim constant)"""
        if body is True:
            return True
        if self.small:
            return S.And(*[z3.substitute(body, (var, c)) if is_z3(body) else body for c in self.sims])
        return z3.ForAll([var], body)

    def ex_var(self, var, body):
        if body is False:
            return False
        if self.small:
            return S.Or(*[z3.substitute(body, (var, c)) if is_z3(body) else body for c in self.sims])
        return z3.Exists([var], body if is_z3(body) else z3.BoolVal(bool(body)))

    def exists_sims(self, f, name="s"):
        if self.small:
            return S.Or(*[f(c) for c in self.sims])
        x = z3.Const(f"{name}!{next(_q)}", self.Sim)
        return z3.Exists([x], f(x))

    def forall_times(self, f, name="x"):
        if self.small:
            return S.And(*[f(x) for x in range(self.TB)])
        x = z3.Const(f"{name}!{next(_q)}", self.T)
        body = f(x)
        if body is True:
            return True
        return z3.ForAll([x], body)

    # ---- background axioms with provenance (C08 obligations)
    def _axioms(self):
        T, D = self.T, self.D
        t, u, w = z3.Consts("t u w", T)
        d, e = z3.Consts("d e", D)
        i, x, y, n = z3.Ints("i x y n")
        tlen, tier, tlt, plus, comp = self.f_tlen, self.f_tier, self.f_tlt, self.f_plus, self.f_comp
        dpre, dcut, dlen, dtier = self.f_dpre, self.f_dcut, self.f_dlen, self.f_dtier
        le = self.f_tle
        A = self.axioms.append
        self.derived = []   # consequences of the base axioms, added only to give the solver triggers
        Dv = self.derived.append
        A(("le_def", z3.ForAll([t, u], le(t, u) == z3.Or(t == u, tlt(t, u))), "definition of <= (total_ordering: lt or eq)"))
        Dv(("le_trans", z3.ForAll([t, u, w], z3.Implies(z3.And(le(t, u), le(u, w)), le(t, w)))))
        Dv(("lt_le_trans", z3.ForAll([t, u, w], z3.Implies(z3.And(tlt(t, u), le(u, w)), tlt(t, w)))))
        Dv(("le_lt_trans", z3.ForAll([t, u, w], z3.Implies(z3.And(le(t, u), tlt(u, w)), tlt(t, w)))))
        Dv(("le_total", z3.ForAll([t, u], z3.Implies(tlen(t) == tlen(u), z3.Or(le(t, u), tlt(u, t))))))
        Dv(("le_not_gt", z3.ForAll([t, u], z3.Implies(le(t, u), z3.Not(tlt(u, t))))))
        # shape and tiers of t + d  (postcondition of TieredTime.__add__)
        A(("plus_shape", z3.ForAll([t, d], tlen(plus(t, d)) == dlen(d)), "TieredTime.__add__:post"))
        A(("plus_tier", z3.ForAll([t, d, i], z3.Implies(
            z3.And(0 <= i, i < dlen(d)),
            tier(plus(t, d), i) == z3.If(i < dcut(d), tier(t, i) + dtier(d, i), dtier(d, i)))),
            "TieredTime.__add__:post"))
        # A1: strict total order on times of one length (lemma time_order + dataclass eq = tier-wise eq)
        A(("order_irrefl", z3.ForAll([t], z3.Not(tlt(t, t))), "lemma:time_order"))
        A(("order_trans", z3.ForAll([t, u, w], z3.Implies(z3.And(tlt(t, u), tlt(u, w)), tlt(t, w))), "lemma:time_order"))
        A(("order_total", z3.ForAll([t, u], z3.Implies(tlen(t) == tlen(u), z3.Or(tlt(t, u), t == u, tlt(u, t)))),
           "lemma:time_order"))
        A(("order_asym", z3.ForAll([t, u], z3.Not(z3.And(tlt(t, u), tlt(u, t)))), "lemma:time_order"))
        # A2: t <= u  =>  t + d <= u + d
        A(("mono_time", z3.ForAll([t, u, d], z3.Implies(
            z3.And(tlen(t) == dpre(d), tlen(u) == dpre(d), le(t, u)), le(plus(t, d), plus(u, d)))),
            "lemma:time_monotone"))
        # A3: d <= e (same shape, same cut-off => outside K_mixed and no clash)  =>  t + d <= t + e
        A(("mono_delay", z3.ForAll([t, d, e], z3.Implies(
            z3.And(tlen(t) == dpre(d), dpre(d) == dpre(e), dlen(d) == dlen(e), dcut(d) == dcut(e),
                   z3.Or(d == e, self.f_dlt(d, e))), le(plus(t, d), plus(t, e)))),
            "lemma:delay_monotone"))
        # A4: (t + d) + e == t + (d + e)
        A(("action", z3.ForAll([t, d, e], z3.Implies(
            z3.And(tlen(t) == dpre(d), dlen(d) == dpre(e)), plus(plus(t, d), e) == plus(t, comp(d, e)))),
            "lemma:action_law"))
        A(("comp_shape", z3.ForAll([d, e], z3.And(
            dpre(comp(d, e)) == dpre(d), dlen(comp(d, e)) == dlen(e),
            dcut(comp(d, e)) == z3.If(dcut(d) <= dcut(e), dcut(d), dcut(e)))), "TieredInterval.__add__:post"))
        # A7: order vs. world time
        A(("time0", z3.ForAll([t, u], z3.Implies(z3.And(tlen(t) == tlen(u), tlen(t) >= 1), z3.And(
            z3.Implies(tlt(t, u), tier(t, 0) <= tier(u, 0)),
            z3.Implies(tier(t, 0) < tier(u, 0), tlt(t, u))))), "lemma:time_vs_world_time"))
        # times are canonical terms: equal tiers = equal times (dataclass __eq__ of TieredTime compares
        # the tiers tuples; the model identifies == with term equality)
        self.optional = {}
        self.optional["time_extensional"] = (z3.ForAll([t, u], z3.Implies(
            z3.And(tlen(t) == tlen(u), z3.ForAll([i], z3.Implies(z3.And(0 <= i, i < tlen(t)), tier(t, i) == tier(u, i)))),
            t == u)), "dataclass __eq__ of TieredTime (encoder rule)")
        # constructors
        A(("mkT1", z3.ForAll([x], z3.And(tlen(self.f_mkT1(x)) == 1, tier(self.f_mkT1(x), 0) == x)),
           "TieredTime.__init__ (dataclass field assignment)"))


_q = itertools.count()
_ENUMS = {}


def _div(x, k):
    """integer division by a positive constant (Python ints and z3 Ints alike)"""
    return x // k if isinstance(x, int) else x / k


# ======================================================================== heap handles
class World:
    def __repr__(self):
        return "<world>"


class SimsDict:
    """world.sims"""


class SimsValues:
    """world.sims.values()"""


class ProgH:
    def __init__(self, sim):
        self.sim = sim


class HeapH:
    """sim.next_steps (a heap, modelled as a multiset of times)"""

    def __init__(self, sim):
        self.sim = sim


class OptT:
    """an Optional[TieredTime]"""

    def __init__(self, d, v):
        self.d, self.v = d, v


class OptReal:
    def __init__(self, d, v):
        self.d, self.v = d, v


class DictH:
    """a static per-simulator dict SimRunner -> delay"""

    def __init__(self, kind, owner):
        self.kind, self.owner = kind, owner


class DictItems:
    def __init__(self, h, what="items"):
        self.h, self.what = h, what


class Gen:
    """{ val(k) | k : Sim, guard(k) }"""

    def __init__(self, var, guard, val):
        self.var, self.guard, self.val = var, guard, val


class Bag:
    """a list described by single elements and generators (order abstracted away)"""

    is_abstract_collection = True

    def __init__(self, parts=None, sort=None):
        self.parts = list(parts or [])   # each: ('one', guard, value) | Gen
        self.sort = sort


class Coro:
    """a coroutine object created by calling an async function without awaiting it"""

    def __init__(self, kind, **kw):
        self.kind = kind
        self.kw = kw


class TqdmH:
    pass


class EventH:
    def __init__(self, sim):
        self.sim = sim


MUTABLE_FIELDS = {
    # name: (index sorts..., value sort) filled in by Model.__init__
}


class Model:
    """interpreter plug-in"""

    def __init__(self, session, scope="proof", nsims=3):
        self.s = session
        self._cur_p = None
        self._ranged = set()
        self.alg = Algebra(scope, nsims)
        a = self.alg
        Sim, T, D, I, B, R = a.Sim, a.T, a.D, z3.IntSort(), z3.BoolSort(), z3.RealSort()
        self.world = World()
        # static tables
        self.TAd = z3.Function("TAd", Sim, Sim, B)   # a in s.triggering_ancestors
        self.TAv = z3.Function("TAv", Sim, Sim, D)
        self.IDd = z3.Function("IDd", Sim, Sim, B)   # p in c.input_delays
        self.IDv = z3.Function("IDv", Sim, Sim, D)
        self.SUd = z3.Function("SUd", Sim, Sim, B)   # q in p.successors
        self.SUv = z3.Function("SUv", Sim, Sim, D)
        self.SWd = z3.Function("SWd", Sim, Sim, B)   # q in p.successors_to_wait_for
        self.SWv = z3.Function("SWv", Sim, Sim, D)
        self.PULL = z3.Function("PULL", Sim, Sim, D, B)   # (src, delay) in c.pulled_inputs  (args: c, src, delay)
        # trigger edges: the j-th trigger edge a -> b (j >= 0; small scope: j < 2), its delay and port
        self.TRd = z3.Function("TRd", Sim, Sim, I, B)
        self.TRv = z3.Function("TRv", Sim, Sim, I, D)
        self.TReid = z3.Function("TReid", Sim, Sim, I, a.Str)
        self.TRattr = z3.Function("TRattr", Sim, Sim, I, a.Str)
        self.Data = z3.DeclareSort("OutputData")
        self.has_attr = z3.Function("has_attr", self.Data, a.Str, a.Str, B)
        self.fwt = z3.Function("fwt", Sim, D)        # from_world_time
        self.sid = z3.Function("sid", Sim, a.Str)
        self.typ = z3.Function("typ", Sim, I)        # 0 time-based, 1 event-based, 2 hybrid
        self.until = z3.Int("until")
        self.rt_d = z3.Bool("rt_factor.given")
        self.rt_v = z3.Real("rt_factor")
        self.max_loop = z3.Int("max_loop_iterations")
        self.use_cache = z3.Bool("use_cache")
        # multiset minimum
        MS = z3.ArraySort(T, I)
        self.MS = MS
        self.minT = z3.Function("minT", MS, T)
        self.heap_sorts = {
            "P": z3.ArraySort(Sim, T), "NS": z3.ArraySort(Sim, MS),
            "CSd": z3.ArraySort(Sim, B), "CSv": z3.ArraySort(Sim, T),
            "LS": z3.ArraySort(Sim, T), "OT": z3.ArraySort(Sim, T),
            "in_step": z3.ArraySort(Sim, B), "started": z3.ArraySort(Sim, B),
            "rt_start": z3.ArraySort(Sim, R), "newer": z3.ArraySort(Sim, B),
            "NSSd": z3.ArraySort(Sim, B), "NSSv": z3.ArraySort(Sim, T),
            "DATA": z3.ArraySort(Sim, self.Data),
            # ghost: the time of the last step the simulator BEGAN (DESIGN 8: begun[s])
            "BGd": z3.ArraySort(Sim, B), "BGv": z3.ArraySort(Sim, T),
            # output cache (cache=True): which output times have an entry
            "OUTP": z3.ArraySort(Sim, z3.ArraySort(I, B)),
        }
        self.J = 2  # small scope: parallel trigger edges per ordered pair
        self.events = None
        session.add_model(self)
        session.builtins["heappop"] = Builtin("heappop", self._heappop)
        session.builtins["heappush"] = Builtin("heappush", self._heappush)
        session.builtins["perf_counter"] = Builtin("perf_counter", self._perf_counter)
        session.builtins["ceil"] = Builtin("ceil", self._ceil)
        # hasattr(sim, "rt_start"): whether scheduler.run() (or an earlier caller) has given the simulator its real-time origin
        # already -- a fact about the state before the call: an uninterpreted predicate, both cases are explored
        self.rt_start_set = z3.Function("rt_start_already_set", Sim, B)

        def _hasattr(it, node, obj, name):
            if is_z3(obj) and obj.sort() == Sim and name == "rt_start":
                return self.rt_start_set(obj)
            raise Unsupported(f"hasattr(..., {name!r})")
        session.builtins["hasattr"] = Builtin("hasattr", _hasattr)
        _set0 = session.builtins.get("set")

        def _set(it, node, *a2, **k2):
            if not a2 and not k2:
                return SimSet(z3.K(self.alg.Sim, z3.BoolVal(False)))     # (used for sets of simulators only)
            if _set0 is None:
                raise Unsupported("set(...)")
            return _set0.fn(it, node, *a2, **k2)
        session.builtins["set"] = Builtin("set", _set)

    # ------------------------------------------------------------------ heap
    def fresh_heap(self, p, tag="h"):
        a = self.alg
        a.time_terms = []
        self.small_bounds = []
        self._cur_p = p
        self._ranged = set()
        h = {}
        if not a.small:
            for k, srt in self.heap_sorts.items():
                h[k] = z3.Const(f"{tag}.{k}", srt)
            return h
        # small scope: every array is built from scalar constants, so that nothing lies
        # outside the enumerated domain (the model is then a genuine, complete state)
        for k, srt in self.heap_sorts.items():
            rng = srt.range()
            if k == "NS":
                arr = z3.K(a.Sim, z3.K(z3.IntSort(), z3.IntVal(0)))
                for c in a.sims:
                    inner = z3.K(z3.IntSort(), z3.IntVal(0))
                    for x in range(a.TB):
                        inner = z3.Store(inner, x, z3.Int(f"{tag}.NS[{c}][{x}]"))
                    arr = z3.Store(arr, c, inner)
                h[k] = arr
            else:
                arr = None
                for c in a.sims:
                    v = z3.Const(f"{tag}.{k}[{c}]", rng)
                    arr = z3.K(a.Sim, v) if arr is None else z3.Store(arr, c, v)
                    if k in ("P", "CSv", "LS", "OT", "NSSv", "BGv"):
                        a.time_terms.append(v)
                        self.small_bounds.append(z3.And(v >= (-1 if k == "LS" and not a.two else 0), v < a.TB))
                h[k] = arr
        for c in a.sims:
            for x in range(a.TB):
                self.small_bounds.append(z3.And(h["NS"][c][x] >= 0, h["NS"][c][x] <= 2))
            self.small_bounds.append(z3.And(self.fwt(c) == 0))
            for b in a.sims:
                for vv in (self.TAv, self.IDv, self.SUv, self.SWv):
                    self.small_bounds.append(z3.And(vv(c, b) >= 0, vv(c, b) < 2 * a.W * a.W) if a.two
                                             else z3.And(vv(c, b) >= 0, vv(c, b) <= 3))
                for j in range(self.J):
                    self.small_bounds.append(z3.And(self.TRv(c, b, j) >= 0, self.TRv(c, b, j) < 2 * a.W * a.W) if a.two
                                             else z3.And(self.TRv(c, b, j) >= 0, self.TRv(c, b, j) <= 3))
        self.small_bounds.append(z3.And(self.until >= 0, self.until < (a.TB // a.W if a.two else a.TB)))
        self.small_bounds.append(z3.And(self.max_loop >= 1, self.max_loop <= a.W))
        return h

    def min_of(self, it, ns):
        """minimum of a multiset of times; small scope: instantiate the min axiom on the domain"""
        return self.minT(ns)

    def small_sync(self, p, h):
        """small scope: pin down minT for the next_steps multiset of EVERY simulator in the
        current heap (instances of the min axiom on the whole finite domain); called for the
        initial heap and after every mutation of next_steps"""
        a = self.alg
        if not a.small:
            return
        dom = list(range(a.TB))
        for c in a.sims:
            ns = h["NS"][c]
            m = self.minT(ns)
            p.assume(z3.And(*[z3.Implies(ns[x] > 0, z3.And(ns[m] > 0, m <= x)) for x in dom]))

    def heap(self, it):
        return it.p.ghost["heap"]

    def background(self):
        """axioms assumed on every path (with provenance)"""
        out = [ax for _, ax, _ in self.alg.axioms] + [ax for _, ax in getattr(self.alg, "derived", [])]
        a = self.alg
        if a.small:
            return list(self.small_bounds)
        # minimum of a multiset of times
        Sx = z3.Const("S!ms", self.MS)
        x = z3.Const("x!ms", a.T)
        out.append(z3.ForAll([Sx, x], z3.Implies(Sx[x] > 0, z3.And(Sx[self.minT(Sx)] > 0, a.le(self.minT(Sx), x)))))
        return out

    def dump_model(self, m, h0):
        """small scope: the complete pre-state as plain values (for native replay)"""
        a = self.alg
        if not a.small:
            return {}
        from ..discharge import model_value as mv
        names = [str(c) for c in a.sims]
        out = {"sims": {}, "until": mv(m, self.until), "rt_factor": None, "TB": a.TB, "scope": a.scope, "W": a.W,
               "max_loop_iterations": mv(m, self.max_loop), "use_cache": mv(m, self.use_cache)}
        if mv(m, self.rt_d) is True:
            out["rt_factor"] = mv(m, self.rt_v)
        for c in a.sims:
            d = {"P": mv(m, h0["P"][c]),
                 "NS": {str(x): mv(m, h0["NS"][c][x]) for x in range(a.TB) if mv(m, h0["NS"][c][x]) != 0},
                 "CS": mv(m, h0["CSv"][c]) if mv(m, h0["CSd"][c]) is True else None,
                 "LS": mv(m, h0["LS"][c]), "OT": mv(m, h0["OT"][c]),
                 "type": {0: "time-based", 1: "event-based", 2: "hybrid"}.get(mv(m, self.typ(c)), "hybrid"),
                 "in_step": mv(m, h0["in_step"][c]),
                 "begun": mv(m, h0["BGv"][c]) if mv(m, h0["BGd"][c]) is True else None,
                 "NSS": mv(m, h0["NSSv"][c]) if mv(m, h0["NSSd"][c]) is True else None,
                 "fwt": mv(m, self.fwt(c))}
            for nm, dd, vv in (("TA", self.TAd, self.TAv), ("ID", self.IDd, self.IDv), ("SU", self.SUd, self.SUv),
                               ("SW", self.SWd, self.SWv)):
                d[nm] = {str(b): mv(m, vv(c, b)) for b in a.sims if mv(m, dd(c, b)) is True}
            d["TR"] = [{"dest": str(b), "delay": mv(m, self.TRv(c, b, j)), "eid": str(mv(m, self.TReid(c, b, j))),
                        "attr": str(mv(m, self.TRattr(c, b, j))),
                        "present": mv(m, self.has_attr(h0["DATA"][c], self.TReid(c, b, j), self.TRattr(c, b, j)))}
                       for b in a.sims for j in range(self.J) if mv(m, self.TRd(c, b, j)) is True]
            d["newer"] = mv(m, h0["newer"][c])
            out["sims"][str(c)] = d
        return out

    def ns_nonempty(self, ns):
        return ns[self.minT(ns)] > 0

    # ------------------------------------------------------------------ hooks
    def resolve_import(self, dotted):
        if dotted in ("heapq.heappop",):
            return self.s.builtins["heappop"]
        if dotted in ("heapq.heappush",):
            return self.s.builtins["heappush"]
        if dotted == "heapq":
            return Namespace("heapq", {"heappop": self.s.builtins["heappop"], "heappush": self.s.builtins["heappush"]})
        if dotted == "time.perf_counter":
            return self.s.builtins["perf_counter"]
        if dotted == "math.ceil":
            return self.s.builtins["ceil"]
        if dotted == "loguru.logger":
            def mk(kind):
                def log(it, node, *a, **kw):
                    it.p.ghost.setdefault("logged", []).append(kind)
                return Builtin("logger." + kind, log)
            return Namespace("logger", {k: mk(k) for k in ("warning", "info", "debug", "error", "exception")})
        if dotted == "asyncio":
            return Namespace("asyncio", {
                "gather": Builtin("asyncio.gather", self._gather),
                "wait": Builtin("asyncio.wait", self._aio_wait),
                "create_task": Builtin("asyncio.create_task", lambda it, node, c, **kw: c),
                "sleep": Builtin("asyncio.sleep", lambda it, node, *a: Coro("sleep")),
            })
        return NotImplemented

    def getattr(self, it, obj, name, node):
        a = self.alg
        if obj is self.world:
            if name == "until":
                return self.until
            if name == "rt_factor":
                return OptReal(self.rt_d, self.rt_v)
            if name == "sims":
                return SimsDict()
            if name == "max_loop_iterations":
                return self.max_loop
            if name == "use_cache":
                return self.use_cache
            if name == "tqdm":
                return TqdmH()
            if name == "sim_progress":
                return Opaque("sim_progress")
            raise Unsupported(f"world.{name}")
        if isinstance(obj, SimsDict):
            if name == "values":
                return Builtin("sims.values", lambda it, node: SimsValues())
            raise Unsupported(f"world.sims.{name}")
        if obj is self.world and name == "time_resolution":
            return z3.Real("time_resolution")
        if is_z3(obj) and obj.sort() == a.Sim:
            h = self.heap(it)
            if name == "progress":
                return ProgH(obj)
            if name == "next_steps":
                return HeapH(obj)
            if name == "current_step":
                return OptT(h["CSd"][obj], h["CSv"][obj])
            if name == "next_self_step":
                return OptT(h["NSSd"][obj], h["NSSv"][obj])
            if name == "last_step":
                return self.T_(h["LS"][obj])
            if name == "output_time":
                return self.T_(h["OT"][obj])
            if name == "triggering_ancestors":
                return DictH("TA", obj)
            if name == "input_delays":
                return DictH("ID", obj)
            if name == "successors":
                return DictH("SU", obj)
            if name == "successors_to_wait_for":
                return DictH("SW", obj)
            if name == "from_world_time":
                return self.D_(self.fwt(obj))
            if name == "sid":
                return self.sid(obj)
            if name == "rt_start":
                return h["rt_start"][obj]
            if name == "tqdm":
                return TqdmH()
            if name == "newer_step":
                return EventH(obj)
            if name == "is_in_step":
                return h["in_step"][obj]
            if name == "started":
                return h["started"][obj]
            if name == "type":
                return SimType(self.typ(obj))
            if name in ("step", "get_data", "setup_done", "stop"):
                # SimRunner.step / get_data / ... are thin wrappers around proxy.send: external calls
                return Builtin("SimRunner." + name, lambda it2, node2, *a2, name=name, obj=obj, **k2:
                               Coro("ext_" + name, sim=obj, args=a2))
            if name == "output_request":
                return OutReq(self.out_req(obj))
            if name == "outputs":
                return OutputsH(obj)
            if name == "pulled_inputs":
                return PulledH(obj)
            if name == "output_to_push":
                return PushH(obj)
            if name == "timed_input_buffer":
                return BufferH(obj)
            if name == "triggers":
                return TrigH(obj)
            if name == "data":
                return DataH(h["DATA"][obj])
            cls = self._simrunner_class()
            if cls is not None and name in cls.methods and name not in cls.properties:
                return BoundMethod(cls.methods[name], obj)
            r = self.s.hook("sim_getattr", it, obj, name, node)
            if r is not NotImplemented:
                return r
            raise Unsupported(f"SimRunner.{name}")
        if isinstance(obj, ProgH):
            if name == "time":
                return self.T_(self.heap(it)["P"][obj.sim])
            if name == "set":
                return Builtin("Progress.set", lambda it2, node2, t, obj=obj: self._progress_set(it2, node2, obj.sim, t))
            if name in ("has_passed", "has_reached"):
                def mk(it2, node2, target, shift=None, name=name, obj=obj):
                    return Coro(name, sim=obj.sim, target=self.as_T(it2, target, node2), shift=shift)
                return Builtin("Progress." + name, mk)
            raise Unsupported(f"Progress.{name}")
        if isinstance(obj, OptT):
            v = self.as_T(it, obj, node, attr=True)
            return self.getattr(it, v, name, node)
        if is_z3(obj) and obj.sort() == a.T and not a.small or (a.small and isinstance(obj, TInt)):
            pass
        if self.is_T(obj):
            t = self.unT(obj)
            if name == "time":
                return a.time(t)
            if name == "tiers":
                return SymSeq(a.tlen(t), lambda i, t=t: a.tier(t, i), "tuple")
            raise Unsupported(f"TieredTime.{name}")
        if self.is_D(obj):
            d = self.unD(obj)
            if name == "tiers":
                return SymSeq(a.dlen(d), lambda i, d=d: a.dtier(d, i), "tuple")
            if name == "cutoff":
                return a.dcut(d)
            if name == "pre_length":
                return a.dpre(d)
            raise Unsupported(f"TieredInterval.{name}")
        if isinstance(obj, SimSet):
            if name in ("add", "discard"):
                def op(it2, node2, x, obj=obj, name=name):
                    if not (is_z3(x) and x.sort() == a.Sim):
                        raise Unsupported("set of something other than simulators")
                    obj.arr = z3.Store(obj.arr, x, name == "add")
                return Builtin("set." + name, op)
            raise Unsupported(f"set.{name}")
        if isinstance(obj, OutputsH):
            if name == "items":
                return Builtin("outputs.items", lambda it2, node2, obj=obj: OutItems(obj.sim))
            raise Unsupported(f"outputs.{name}")
        if isinstance(obj, PushH):
            if name == "items":
                return Builtin("output_to_push.items", lambda it2, node2, obj=obj: PushItems(self, obj.sim))
            raise Unsupported(f"output_to_push.{name}")
        if isinstance(obj, BufferH):
            if name == "add":
                def badd(it2, node2, *a2, obj=obj):
                    it2.p.ghost.setdefault("events", []).append(("buffer_add", obj.sim, a2))
                    return None
                return Builtin("timed_input_buffer.add", badd)
            raise Unsupported(f"timed_input_buffer.{name}")
        if isinstance(obj, OutData):
            if name == "get":
                def oget(it2, node2, key, default=None, obj=obj):
                    if key != "time":
                        raise Unsupported("data.get of a key other than 'time'")
                    return obj.time if it2.decide(obj.has_time) else default
                return Builtin("data.get", oget)
            raise Unsupported(f"data.{name}")
        if isinstance(obj, TaskH):
            return Builtin("task." + name, lambda it2, node2, *a2, **k2: None)
        if isinstance(obj, TrigH):
            if name == "items":
                return Builtin("triggers.items", lambda it2, node2, obj=obj: TrigItems(self, obj.sim))
            raise Unsupported(f"triggers.{name}")
        if isinstance(obj, DataH):
            if name == "get":
                def dget(it2, node2, eid, default=None, obj=obj):
                    return DataEnt(obj.term, eid)
                return Builtin("data.get", dget)
            raise Unsupported(f"data.{name}")
        if isinstance(obj, DictH):
            if name in ("items", "keys", "values"):
                return Builtin("dict." + name, lambda it2, node2, obj=obj, name=name: DictItems(obj, name))
            if name == "get":
                raise Unsupported("dict.get on static table")
        if isinstance(obj, TqdmH):
            if name == "n":
                return it.p.fresh("tqdm.n", "int")
            return Builtin("tqdm." + name, lambda it2, node2, *a2, **k2: None)
        if isinstance(obj, EventH):
            if name == "set":
                return Builtin("Event.set", lambda it2, node2, obj=obj: self._event(it2, obj.sim, True))
            if name == "clear":
                return Builtin("Event.clear", lambda it2, node2, obj=obj: self._event(it2, obj.sim, False))
            if name == "wait":
                return Builtin("Event.wait", lambda it2, node2, obj=obj: Coro("event_wait", sim=obj.sim))
        return NotImplemented

    # times / delays may be wrapped (small scope uses Ints for both, so they are tagged)
    def is_T(self, v):
        return isinstance(v, TInt) or (is_z3(v) and not self.alg.small and v.sort() == self.alg.T)

    def is_D(self, v):
        return isinstance(v, DInt) or (is_z3(v) and not self.alg.small and v.sort() == self.alg.D)

    def unT(self, v):
        return v.t if isinstance(v, TInt) else v

    def unD(self, v):
        return v.d if isinstance(v, DInt) else v

    def T_(self, t):
        if self.alg.small:
            if is_z3(t) and self._cur_p is not None and t.get_id() not in self._ranged:
                self._ranged.add(t.get_id())
                self._cur_p.assume(z3.And(t >= (0 if self.alg.two else -1), t < self.alg.TB))
            return TInt(t)
        return t

    def D_(self, d):
        return DInt(d) if self.alg.small else d

    def as_T(self, it, v, node, attr=False):
        """unwrap an Optional time; None -> the exception Python would raise"""
        if isinstance(v, OptT):
            it.check_raise(S.Not(v.d), "AttributeError" if attr else "TypeError", node, "None where a time is required")
            return self.T_(v.v)
        if self.is_T(v):
            return v
        if v is None:
            it.raise_("AttributeError" if attr else "TypeError", node, implicit="None where a time is required")
        raise Unsupported(f"expected a time, got {v!r}")

    def setattr(self, it, obj, name, v, node):
        a = self.alg
        if is_z3(obj) and obj.sort() == a.Sim:
            h = self.heap(it)

            def put(field, val):
                h[field] = z3.Store(h[field], obj, val)

            if name == "current_step":
                self._set_opt(it, h, obj, "CSd", "CSv", v, node)
                if v is not None:
                    # ghost: begun[sim] := the step that begins (BEGIN anchor, DESIGN section 8)
                    h["BGd"] = z3.Store(h["BGd"], obj, h["CSd"][obj])
                    h["BGv"] = z3.Store(h["BGv"], obj, h["CSv"][obj])
                return True
            if name == "next_self_step":
                self._set_opt(it, h, obj, "NSSd", "NSSv", v, node)
                return True
            if name == "last_step":
                put("LS", self.unT(self.as_T(it, v, node)))
                return True
            if name == "output_time":
                put("OT", self.unT(self.as_T(it, v, node)))
                return True
            if name == "is_in_step":
                put("in_step", v if is_z3(v) else z3.BoolVal(bool(v)))
                return True
            if name == "started":
                put("started", v if is_z3(v) else z3.BoolVal(bool(v)))
                return True
            if name == "rt_start":
                put("rt_start", v)
                return True
            if name == "outputs":
                if not isinstance(v, FilteredOut):
                    raise Unsupported("sim.outputs = <not a filtered copy of a cache>")
                base = h["OUTP"][v.sim]
                new = z3.Const(f"outp!{next(_q)}", z3.ArraySort(z3.IntSort(), z3.BoolSort()))
                it.p.assume(z3.ForAll([v.k], new[v.k] == z3.And(base[v.k], v.cond if is_z3(v.cond) else z3.BoolVal(bool(v.cond)))))
                put("OUTP", new)
                return True
            if name == "data":
                if not isinstance(v, OutData):
                    raise Unsupported("sim.data = <not a get_data reply>")
                put("DATA", v.term)
                return True
            r = self.s.hook("sim_setattr", it, obj, name, v, node)
            if r is not NotImplemented:
                return True
            raise Unsupported(f"assignment to SimRunner.{name}")
        if obj is self.world:
            if name in ("sim_progress",):
                return True
            raise Unsupported(f"assignment to world.{name}")
        return NotImplemented

    def _set_opt(self, it, h, sim, fd, fv, v, node):
        if v is None:
            h[fd] = z3.Store(h[fd], sim, False)
        elif isinstance(v, OptT):
            h[fd] = z3.Store(h[fd], sim, v.d)
            h[fv] = z3.Store(h[fv], sim, v.v)
        else:
            h[fd] = z3.Store(h[fd], sim, True)
            h[fv] = z3.Store(h[fv], sim, self.unT(self.as_T(it, v, node)))

    def truth(self, it, v):
        a = self.alg
        if isinstance(v, HeapH):
            ns = self.heap(it)["NS"][v.sim]
            self.min_of(it, ns)
            return self.ns_nonempty(ns)
        if isinstance(v, OptT):
            # TieredTime has __len__: truthiness = not None and len(tiers) > 0
            return S.And(v.d, a.tlen(v.v) > 0) if not a.small else v.d
        if isinstance(v, OptReal):
            return z3.And(v.d, v.v != 0)
        if is_z3(v) and z3.is_real(v):
            return v != 0
        if self.is_T(v):
            return True if a.small else a.tlen(self.unT(v)) > 0
        if isinstance(v, (Bag,)):
            # a list is truthy iff it has an element
            return S.Or(*[(a.ex_var(q.var, q.guard) if q.guard is not True else True) if isinstance(q, Gen) else q[1]
                          for q in v.parts]) if v.parts else False
        if isinstance(v, SimType):
            return True
        if isinstance(v, SimSet):
            return a.exists_sims(lambda k: v.arr[k])
        if isinstance(v, DictH):
            dom = {"TA": self.TAd, "ID": self.IDd, "SU": self.SUd, "SW": self.SWd}[v.kind]
            return a.exists_sims(lambda k: dom(v.owner, k))
        if isinstance(v, OutputsH):
            k = z3.Int(f"k!o{next(_q)}")
            return z3.And(self.has_outputs(v.sim), z3.Exists([k], self.heap(it)["OUTP"][v.sim][k]))
        if isinstance(v, OutReq):
            return v.nonempty
        if isinstance(v, (OutData, TaskH)):
            return True
        return NotImplemented

    def identical(self, it, a_, b_):
        for x, y in ((a_, b_), (b_, a_)):
            if isinstance(x, OutputsH) and y is None:
                return S.Not(self.has_outputs(x.sim))
        for x, y in ((a_, b_), (b_, a_)):
            if isinstance(x, OptT) and y is None:
                return S.Not(x.d)
            if isinstance(x, OptReal) and y is None:
                return S.Not(x.d)
        return NotImplemented

    def equal(self, it, x, y, node):
        a = self.alg
        if isinstance(x, SimType) or isinstance(y, SimType):
            st, other = (x, y) if isinstance(x, SimType) else (y, x)
            if isinstance(other, str):
                code = {"time-based": 0, "event-based": 1, "hybrid": 2}.get(other)
                if code is None:
                    return False
                return st.code == code
            raise Unsupported("comparison of sim.type")
        if isinstance(x, OptT) or isinstance(y, OptT) or self.is_T(x) or self.is_T(y):
            if x is None or y is None:
                return NotImplemented
            # dataclass __eq__ of TieredTime = equality of tiers = term equality (canonical terms)
            ox = x if isinstance(x, OptT) else OptT(True, self.unT(x))
            oy = y if isinstance(y, OptT) else OptT(True, self.unT(y))
            return S.And(S.Iff(ox.d, oy.d), S.Implies(ox.d, ox.v == oy.v))
        if self.is_D(x) and self.is_D(y):
            return self.unD(x) == self.unD(y)
        return NotImplemented

    def order(self, it, name, x, y, node):
        a = self.alg
        if (is_z3(x) and z3.is_real(x)) or (is_z3(y) and z3.is_real(y)):
            fx = z3.ToReal(x) if is_z3(x) and z3.is_int(x) else x
            fy = z3.ToReal(y) if is_z3(y) and z3.is_int(y) else y
            return {"lt": fx < fy, "le": fx <= fy, "gt": fx > fy, "ge": fx >= fy}[name]
        if isinstance(x, OptT) or isinstance(y, OptT) or self.is_T(x) or self.is_T(y):
            tx, ty = self.unT(self.as_T(it, x, node)), self.unT(self.as_T(it, y, node))
            # contract of TieredTime.__lt__ (C08): AssertionError iff the lengths differ
            if not a.small:
                it.check_raise(a.tlen(tx) != a.tlen(ty), "AssertionError", node, "TieredTime.__lt__: len(self) == len(other)")
            lt, gt = a.lt(tx, ty), a.lt(ty, tx)
            # functools.total_ordering on __lt__ + dataclass __eq__
            return {"lt": lt, "ge": z3.Not(lt), "le": z3.Or(lt, tx == ty), "gt": z3.And(z3.Not(lt), tx != ty)}[name]
        if self.is_D(x) and self.is_D(y):
            raise Unsupported("delay comparison outside a contract")
        return NotImplemented

    def binop(self, it, name, x, y, node):
        a = self.alg
        if name == "add" and (self.is_T(x) or isinstance(x, OptT)) and self.is_D(y):
            t, d = self.unT(self.as_T(it, x, node)), self.unD(y)
            # contract of TieredTime.__add__ (C08): AssertionError iff len(t) != d.pre_length
            if not a.small:
                it.check_raise(a.tlen(t) != a.dpre(d), "AssertionError", node,
                               "TieredTime.__add__: len(self.tiers) == interval.pre_length")
            if a.two:
                it.p.assume(z3.Or(a.dcut(d) != 2, t % a.W + a.dtier(d, 1) < a.W))   # stay inside the encoding
            return self.T_(a.plus(t, d))
        if name == "add" and self.is_D(x) and self.is_D(y):
            d, e = self.unD(x), self.unD(y)
            if not a.small:
                it.check_raise(a.dlen(d) != a.dpre(e), "AssertionError", node,
                               "TieredInterval.__add__: len(self) == other.pre_length")
            return self.D_(a.comp(d, e))
        if name == "add" and (x is None or isinstance(x, OptT)) and self.is_D(y):
            self.as_T(it, x, node)
        if isinstance(x, OptReal) or isinstance(y, OptReal):
            ox = x.v if isinstance(x, OptReal) else x
            oy = y.v if isinstance(y, OptReal) else y
            for o in (x, y):
                if isinstance(o, OptReal) and not it.decide(o.d):
                    it.raise_("TypeError", node, implicit="None in arithmetic")
            return it.binop({"add": ast.Add(), "sub": ast.Sub(), "mul": ast.Mult(), "truediv": ast.Div()}[name], ox, oy, node)
        if is_z3(x) and is_z3(y) and (z3.is_real(x) or z3.is_real(y)) or \
                (is_z3(x) and z3.is_real(x) and isinstance(y, (int, float))) or (is_z3(y) and z3.is_real(y) and isinstance(x, (int, float))):
            fx = z3.ToReal(x) if is_z3(x) and z3.is_int(x) else x
            fy = z3.ToReal(y) if is_z3(y) and z3.is_int(y) else y
            if name == "add":
                return fx + fy
            if name == "sub":
                return fx - fy
            if name == "mul":
                return fx * fy
            if name == "truediv":
                if it.decide(fy == 0):
                    it.raise_("ZeroDivisionError", node, implicit="div")
                return fx / fy
        return NotImplemented

    def merge(self, it, c, x, y):
        if isinstance(x, OptT) or isinstance(y, OptT) or self.is_T(x) or self.is_T(y) or ((x is None or y is None) and
                                                                                        (self.is_T(x) or self.is_T(y))):
            def opt(v):
                if v is None:
                    return OptT(False, None)
                if isinstance(v, OptT):
                    return v
                return OptT(True, self.unT(v))
            ox, oy = opt(x), opt(y)
            vx = ox.v if ox.v is not None else oy.v
            vy = oy.v if oy.v is not None else ox.v
            d = z3.If(c, ox.d if is_z3(ox.d) else z3.BoolVal(bool(ox.d)), oy.d if is_z3(oy.d) else z3.BoolVal(bool(oy.d)))
            return OptT(simp(d), z3.If(c, vx, vy))
        if self.is_D(x) and self.is_D(y):
            return self.D_(z3.If(c, self.unD(x), self.unD(y)))
        return NotImplemented

    def len(self, it, x, node):
        a = self.alg
        if isinstance(x, OptT) or self.is_T(x):
            return a.tlen(self.unT(self.as_T(it, x, node)))
        if self.is_D(x):
            return a.dlen(self.unD(x))
        return NotImplemented

    def contains(self, it, container, item, node):
        if isinstance(container, SimSet):
            if not (is_z3(item) and item.sort() == self.alg.Sim):
                raise Unsupported("membership of a non-simulator in a set of simulators")
            return container.arr[item]
        if isinstance(container, DictH):
            if not (is_z3(item) and item.sort() == self.alg.Sim):
                raise Unsupported("membership of a non-simulator in a connection table")
            return {"TA": self.TAd, "ID": self.IDd, "SU": self.SUd, "SW": self.SWd}[container.kind](container.owner, item)
        if isinstance(container, DataEnt):
            return self.has_attr(container.term, container.eid, item)
        if isinstance(container, HeapH):
            t = self.unT(self.as_T(it, item, node))
            # list.__contains__ uses ==, i.e. equality of tiers
            return self.heap(it)["NS"][container.sim][t] > 0
        return NotImplemented

    def setitem(self, it, obj, idx, v, node):
        if isinstance(obj, OutputsH):
            it.p.ghost.setdefault("events", []).append(("cache_write", obj.sim, idx))
            return True
        return NotImplemented

    def getitem(self, it, obj, idx, node):
        if isinstance(obj, SimsDict):
            # world.sims[sid]: the simulator with that id (assumed to exist)
            return z3.Function("sim_with_id", self.alg.Str, self.alg.Sim)(idx)
        if isinstance(obj, OutData):
            return DataEnt2(obj, idx)
        if isinstance(obj, DataEnt2):
            it.check_raise(S.Not(self.has_attr(obj.data.term, obj.eid, idx)), "KeyError", node, "output not present in the reply")
            return Opaque("output value")
        if isinstance(obj, HeapH):
            if idx != 0:
                raise Unsupported("heap access other than [0]")
            ns = self.heap(it)["NS"][obj.sim]
            m = self.min_of(it, ns)
            it.check_raise(S.Not(self.ns_nonempty(ns)), "IndexError", node, "next_steps[0] on an empty heap")
            return self.T_(m)
        return NotImplemented

    def construct(self, it, cls, args, kwargs, node, star):
        a = self.alg
        if cls.name == "TieredTime":
            if star is None and len(args) == 1 and not kwargs:
                x = args[0]
                if isinstance(x, OptReal):
                    raise Unsupported("TieredTime(None)")
                if is_z3(x) and z3.is_real(x):
                    raise Unsupported("TieredTime(real)")
                return self.T_(a.mkT1(x))
            if a.small:
                return self.T_(args[0] * a.W if a.two else args[0])
            # TieredTime(x, *zeros) : fresh term with defined shape/tiers
            parts = list(args)
            r = it.p.fresh("tt", a.T)
            if star is not None:
                n = simp(len(parts) + star.length)
            else:
                n = len(parts)
            it.p.assume(a.f_tlen(r) == n)
            for j, v in enumerate(parts):
                it.p.assume(a.f_tier(r, j) == v)
            if star is not None:
                k = len(parts)
                i = z3.Int(f"i!{next(_q)}")
                it.p.assume(z3.ForAll([i], z3.Implies(z3.And(k <= i, i < n), a.f_tier(r, i) == star.get(i - k))))
            return r
        if cls.name == "SimulationError":
            return NotImplemented
        return NotImplemented

    def iter_plan(self, it, x):
        if isinstance(x, SimsValues):
            return ("abstract", SimsColl(self))
        if isinstance(x, (TrigItems, TrigList, PushItems, PushList)):
            return ("abstract", x)
        if isinstance(x, list) and all(isinstance(t, TaskH) for t in x):
            return ("concrete", x)
        if isinstance(x, DictItems):
            return ("abstract", DictColl(self, x))
        if isinstance(x, DictH):
            return ("abstract", DictColl(self, DictItems(x, "keys")))
        return NotImplemented

    def _simrunner_class(self):
        from .. import extract
        try:
            return extract.find("mosaik.simmanager.SimRunner")
        except Unsupported:
            return None

    def havoc_heap(self, p, fields=None, tag="hv"):
        """replace the named mutable fields (default: all) by arbitrary values"""
        a = self.alg
        h = p.ghost["heap"]
        n = next(_q)
        if not a.small:
            for k, srt in self.heap_sorts.items():
                if fields is None or k in fields:
                    h[k] = z3.Const(f"{tag}{n}.{k}", srt)
            return
        dom = list(range(a.TB))
        for k, srt in self.heap_sorts.items():
            if fields is not None and k not in fields:
                continue
            rng = srt.range()
            if k == "NS":
                arr = z3.K(a.Sim, z3.K(z3.IntSort(), z3.IntVal(0)))
                for c in a.sims:
                    inner = z3.K(z3.IntSort(), z3.IntVal(0))
                    for j, x in enumerate(dom):
                        cnt = z3.Int(f"{tag}{n}.NS[{c}][#{j}]")
                        p.assume(z3.And(cnt >= 0, cnt <= 2))
                        inner = z3.Store(inner, x, cnt)
                    arr = z3.Store(arr, c, inner)
                h[k] = arr
            else:
                arr = None
                for c in a.sims:
                    v = z3.Const(f"{tag}{n}.{k}[{c}]", rng)
                    arr = z3.K(a.Sim, v) if arr is None else z3.Store(arr, c, v)
                    if k in ("P", "CSv", "LS", "OT", "NSSv", "BGv"):
                        p.assume(z3.And(v >= (-1 if k == "LS" and not a.two else 0), v < a.TB))
                h[k] = arr
        self.small_sync(p, h)

    def havoc_loop_heap(self, it, st, env):
        if "heap" not in it.p.ghost:
            return NotImplemented
        c = getattr(self.s, "cur_contract", None)
        fr = it.frame
        k, o = fr.node_ord.get(id(st), (None, None))
        fields = None
        lm = getattr(self.s.contracts.get(fr.qualname), "loop_modifies", None)
        if lm is not None and o in lm:
            fields = lm[o]
        self.havoc_heap(it.p, fields, "loop")
        top = getattr(self.s, "cur_contract", None)
        if hasattr(top, "at_cut"):
            it.p.ghost["region_start"] = dict(it.p.ghost["heap"])
        return True

    def unop(self, it, op, v):
        return NotImplemented

    # ------------------------------------------------------------------ comprehensions / bags
    def _dict_binding(self, it, di, target):
        """bind the loop target of `for k, v in d.items()` to a fresh simulator variable"""
        h = di.h
        k = z3.Const(f"k!{next(_q)}", self.alg.Sim)
        dom = {"TA": self.TAd, "ID": self.IDd, "SU": self.SUd, "SW": self.SWd}[h.kind](h.owner, k)
        val = self.D_({"TA": self.TAv, "ID": self.IDv, "SU": self.SUv, "SW": self.SWv}[h.kind](h.owner, k))
        if di.what == "items":
            item = (k, val)
        elif di.what == "keys":
            item = k
        else:
            item = val
        return k, dom, item

    def comprehension(self, it, e, env, kind):
        from ..interp import Env
        if kind == "dict" and len(e.generators) == 1:
            # {k: v for k, v in sim.outputs.items() if cond(k)}: the same entries in the same order, filtered
            g = e.generators[0]
            src = it.eval(g.iter, env)
            if isinstance(src, OutItems) and isinstance(g.target, ast.Tuple) and len(g.target.elts) == 2 \
                    and isinstance(e.key, ast.Name) and isinstance(e.value, ast.Name) \
                    and e.key.id == g.target.elts[0].id and e.value.id == g.target.elts[1].id:
                k = z3.Int(f"k!f{next(_q)}")
                sub = Env({g.target.elts[0].id: k, g.target.elts[1].id: Opaque("cached reply")}, env)
                it.pure_depth += 1
                try:
                    cond = S.And(*[it.truth(it.eval(c, sub)) for c in g.ifs])
                finally:
                    it.pure_depth -= 1
                return FilteredOut(src.sim, k, cond)
            return NotImplemented
        if kind == "gen":
            r = self._qgen(it, e, env)
            if r is not NotImplemented:
                return r
        if kind not in ("list", "gen") or len(e.generators) != 1:
            return NotImplemented
        g = e.generators[0]
        src = it.eval(g.iter, env)
        if isinstance(src, DictH):
            src = DictItems(src, "keys")
        if isinstance(src, SimsValues):
            k = z3.Const(f"k!{next(_q)}", self.alg.Sim)
            dom, item = True, k
        elif isinstance(src, DictItems):
            k, dom, item = self._dict_binding(it, src, g.target)
        else:
            # not one of ours: re-evaluate generically (iter expression is pure here)
            return NotImplemented
        sub = Env({}, env)
        it.assign(g.target, item, sub)
        guard, val = self.pure_eval(it, dom, [c for c in g.ifs], e.elt, sub)
        return Bag([Gen(k, guard, val)])

    def _qgen(self, it, e, env):
        """(elt for x in <table> [for y in <table of x>] [if c]) where every table is world.sims.values(),
        sim.pulled_inputs or sim.outputs (keys) and at least one is of the latter two kinds"""
        from ..interp import Env
        a = self.alg
        if a.small:
            return NotImplemented
        sub = Env({}, env)
        vars_, dom, conds, special = [], True, [], False
        it.pure_depth += 1
        try:
            for g in e.generators:
                if g.is_async:
                    return NotImplemented
                try:
                    src = it.eval(g.iter, sub)
                except Unsupported:
                    return NotImplemented
                if isinstance(src, SimsValues):
                    k = z3.Const(f"s!g{next(_q)}", a.Sim)
                    vars_.append(k)
                    item = k
                elif isinstance(src, PulledH):
                    special = True
                    k = z3.Const(f"src!g{next(_q)}", a.Sim)
                    d = z3.Const(f"d!g{next(_q)}", a.D)
                    vars_ += [k, d]
                    dom = S.And(dom, self.PULL(src.sim, k, d))
                    item = (k, self.D_(d))
                elif isinstance(src, OutputsH):
                    special = True
                    k = z3.Int(f"k!g{next(_q)}")
                    vars_.append(k)
                    dom = S.And(dom, self.heap(it)["OUTP"][src.sim][k])
                    item = k
                else:
                    return NotImplemented
                it.assign(g.target, item, sub)
                conds += list(g.ifs)
        finally:
            it.pure_depth -= 1
        if not special:
            return NotImplemented
        guard, val = self.pure_eval(it, dom, conds, e.elt, sub)
        return QGen(vars_, guard, val)

    def pure_eval(self, it, dom, conds, elt, env):
        """evaluate filter conditions and element expression for an ARBITRARY element (the
        loop variable is a fresh constant): no path forking; every potential exception in
        there becomes an obligation (Interp.check_raise)"""
        p = it.p
        p.solver.push()
        saved_pc = len(p.pc)
        it.pure_depth += 1
        guard = dom
        try:
            if dom is not True:
                p.assume(dom)
            for c in conds:
                cv = it.truth(it.eval(c, env))
                guard = S.And(guard, cv)
                if cv is not True:
                    p.assume(cv if is_z3(cv) else z3.BoolVal(bool(cv)))
            val = it.eval(elt, env) if elt is not None else None
        finally:
            it.pure_depth -= 1
            p.solver.pop()
            del p.pc[saved_pc:]
        return guard, val

    def summarize_loop(self, it, st, env, src):
        """`for k, v in <table>.items(): [if c:] lst.append(e)` -- an append-only loop over a
        static table is summarised as a generator part of the (order-free) bag `lst`.  Any
        other loop shape is left to the invariant-based rules."""
        from ..interp import Env
        if isinstance(src, DictH):
            src = DictItems(src, "keys")
        if not isinstance(src, (DictItems, SimsValues)) or st.orelse:
            return NotImplemented
        targets = set()

        def shape_ok(stmts):
            for x in stmts:
                if isinstance(x, ast.If):
                    if not shape_ok(x.body) or not shape_ok(x.orelse):
                        return False
                elif isinstance(x, ast.Expr) and isinstance(x.value, ast.Call) and isinstance(x.value.func, ast.Attribute) \
                        and x.value.func.attr == "append" and isinstance(x.value.func.value, ast.Name) \
                        and len(x.value.args) == 1 and not x.value.keywords:
                    targets.add(x.value.func.value.id)
                elif isinstance(x, ast.Expr) and isinstance(x.value, ast.Constant):
                    continue
                elif isinstance(x, (ast.Pass, ast.Continue)):
                    continue
                else:
                    return False
            return True

        if not shape_ok(st.body) or not targets:
            return NotImplemented
        if isinstance(src, SimsValues):
            k = z3.Const(f"k!{next(_q)}", self.alg.Sim)
            dom, item = True, k
        else:
            k, dom, item = self._dict_binding(it, src, st.target)
        sub = Env({}, env)
        it.assign(st.target, item, sub)
        collected = []   # (target name, guard, value)

        p = it.p

        def walk(stmts, guard):
            """-> the condition under which control falls through the end of stmts (`continue` ends
            the iteration); appends are collected with the condition under which they are reached"""
            for x in stmts:
                if guard is False:
                    return False
                if isinstance(x, ast.If):
                    p.solver.push()
                    saved = len(p.pc)
                    cv = it.truth(it.eval(x.test, sub))
                    cvz = cv if is_z3(cv) else z3.BoolVal(bool(cv))
                    p.assume(cvz)
                    g1 = walk(x.body, S.And(guard, cv))
                    del p.pc[saved:]
                    p.solver.pop()
                    p.solver.push()
                    p.assume(z3.Not(cvz))
                    g2 = walk(x.orelse, S.And(guard, S.Not(cv)))
                    del p.pc[saved:]
                    p.solver.pop()
                    guard = S.Or(g1, g2)
                    if is_z3(guard):
                        guard = simp(guard)
                    # what follows is evaluated under the fall-through condition
                    if guard is not True and guard is not False:
                        p.assume(guard)
                elif isinstance(x, ast.Continue):
                    return False
                elif isinstance(x, ast.Expr) and isinstance(x.value, ast.Call):
                    collected.append((x.value.func.value.id, guard, it.eval(x.value.args[0], sub)))
            return guard

        p.solver.push()
        saved_pc = len(p.pc)
        it.pure_depth += 1
        try:
            if dom is not True:
                p.assume(dom)
            walk(st.body, dom)
        finally:
            it.pure_depth -= 1
            del p.pc[saved_pc:]
            p.solver.pop()
        for name, guard, val in collected:
            cur = env.lookup(name)
            if isinstance(cur, SymSeq) and isinstance(cur.length, int):
                cur = Bag([("one", True, cur.get(i)) for i in range(cur.length)])
            if not isinstance(cur, Bag):
                raise Unsupported(f"append to {name}: not a list known to the model")
            nb = Bag(cur.parts + [Gen(k, guard, val)])
            # the variable may live in an outer scope
            e = env
            while e is not None and name not in e.local:
                e = e.parent
            (e or env).set(name, nb)
        return True

    def list_display(self, it, e, env):
        """[*bag, *list, elem] -> Bag when any part is a Bag"""
        vals = []
        anybag = False
        for x in e.elts:
            if isinstance(x, ast.Starred):
                v = it.eval(x.value, env)
                vals.append(("star", v))
                if isinstance(v, Bag):
                    anybag = True
            else:
                vals.append(("one", it.eval(x, env)))
        if not anybag:
            # re-use the generic path with pre-evaluated values
            out = []
            for k, v in vals:
                if k == "one":
                    out.append(v)
                elif isinstance(v, (tuple, list)):
                    out.extend(v)
                elif isinstance(v, SymSeq) and isinstance(v.length, int):
                    out.extend(v.get(i) for i in range(v.length))
                else:
                    raise Unsupported("splice of a symbolic sequence into a list display")
            if any(self.is_T(v) or isinstance(v, OptT) for v in out):
                return Bag([("one", True, v) for v in out])
            return SymSeq.from_tuple(out, "list")
        b = Bag()
        for k, v in vals:
            if k == "one":
                b.parts.append(("one", True, v))
            elif isinstance(v, Bag):
                b.parts.extend(v.parts)
            elif isinstance(v, (tuple, list)):
                b.parts.extend(("one", True, x) for x in v)
            elif isinstance(v, SymSeq) and isinstance(v.length, int):
                b.parts.extend(("one", True, v.get(i)) for i in range(v.length))
            else:
                raise Unsupported("splice of a symbolic sequence into a bag")
        return b

    def min_max(self, it, which, xs, kw, node):
        a = self.alg
        if len(xs) == 1 and isinstance(xs[0], Bag):
            return self._bag_min(it, which, xs[0], node)
        if len(xs) == 1 and isinstance(xs[0], QGen):
            q = xs[0]
            if not is_int_like(q.val):
                raise Unsupported("min/max of a generator of non-integers")
            m = it.p.fresh(which, "int")
            g = q.guard if is_z3(q.guard) else z3.BoolVal(bool(q.guard))
            some = z3.Exists(q.vars, g)
            bound_ = z3.ForAll(q.vars, z3.Implies(g, (q.val >= m) if which == "min" else (q.val <= m)))
            attained = z3.Exists(q.vars, z3.And(g, q.val == m))
            if "default" in kw:
                dflt = kw["default"]
                if not is_int_like(dflt):
                    raise Unsupported("min/max default of another type")
                it.p.assume(z3.If(some, z3.And(bound_, attained), m == dflt))
            else:
                if not it.decide(some):
                    it.raise_("ValueError", node, implicit="min()/max() of an empty iterable")
                it.p.assume(z3.And(bound_, attained))
            return m
        if len(xs) == 1 and isinstance(xs[0], SymSeq) and isinstance(xs[0].length, int) and xs[0].length > 0 \
                and all(is_int_like(xs[0].get(i)) for i in range(xs[0].length)):
            vals = [xs[0].get(i) for i in range(xs[0].length)]
            r = vals[0]
            for v in vals[1:]:
                r = simp(S.Min(r, v) if which == "min" else S.Max(r, v))
            return r
        if len(xs) == 2 and not kw and all(self.is_T(x) or isinstance(x, OptT) for x in xs):
            # Python: min(x, y) = y if y < x else x ; max(x, y) = y if y > x else x   (TieredTime.__lt__ asserts equal lengths)
            x, y = (self.unT(self.as_T(it, v, node)) for v in xs)
            if not a.small:
                it.check_raise(a.tlen(x) != a.tlen(y), "AssertionError", node, "TieredTime.__lt__ length assertion")
            c = a.lt(y, x) if which == "min" else a.lt(x, y)
            return self.T_(z3.If(c, y, x))
        if len(xs) == 2 and (self.is_D(xs[0]) or self.is_D(xs[1])):
            raise Unsupported("min/max of delays outside a contract")
        return NotImplemented

    def _bag_min(self, it, which, bag, node):
        """min(bag): a member that is a lower bound.  Python's min() compares with `<`;
        TieredTime.__lt__ asserts equal lengths: all elements must have one length."""
        a = self.alg
        p = it.p
        parts = []
        for part in bag.parts:
            if isinstance(part, Gen):
                parts.append(part)
            else:
                _, g, v = part
                if isinstance(v, OptT):
                    v = self.as_T(it, v, node)
                parts.append(("one", g, v))
        is_time = any((isinstance(q, Gen) and self.is_T(q.val)) or (not isinstance(q, Gen) and self.is_T(q[2])) for q in parts)
        if not parts:
            it.raise_("ValueError", node, implicit="min() of an empty list")
        if is_time:
            m = p.fresh("min", a.T)
            val = lambda q: self.unT(q.val if isinstance(q, Gen) else q[2])  # noqa: E731
            cmp_le = (lambda x, y: a.le(x, y)) if which == "min" else (lambda x, y: a.le(y, x))
            ln = lambda t: a.tlen(t)  # noqa: E731
        else:
            m = p.fresh("min", "int")
            val = lambda q: (q.val if isinstance(q, Gen) else q[2])  # noqa: E731
            cmp_le = (lambda x, y: x <= y) if which == "min" else (lambda x, y: x >= y)
            ln = None
        # non-emptiness: at least one unguarded single element, otherwise obligation
        nonempty = S.Or(*[(a.ex_var(q.var, q.guard) if q.guard is not True else True) if isinstance(q, Gen) else q[1]
                          for q in parts])
        if not it.decide(nonempty if is_z3(nonempty) else bool(nonempty)):
            it.raise_("ValueError", node, implicit="min() of an empty list")
        if is_time and not a.small:
            # all elements of one length (else the comparison inside min() asserts)
            L = p.fresh("minlen", "int")
            same = S.And(*[a.all_var(q.var, z3.Implies(q.guard, ln(val(q)) == L)) if isinstance(q, Gen)
                           else S.Implies(q[1], ln(val(q)) == L) for q in parts])
            ex_len = S.Or(*[a.ex_var(q.var, z3.And(q.guard, ln(val(q)) == L)) if isinstance(q, Gen)
                            else S.And(q[1], ln(val(q)) == L) for q in parts])
            p.assume(ex_len)
            if not it.decide(same):
                it.raise_("AssertionError", node, implicit="min(): TieredTime.__lt__ on times of different length")
        member = S.Or(*[a.ex_var(q.var, z3.And(q.guard, m == val(q))) if isinstance(q, Gen)
                        else S.And(q[1], m == val(q)) for q in parts])
        lower = S.And(*[a.all_var(q.var, z3.Implies(q.guard, cmp_le(m, val(q)))) if isinstance(q, Gen)
                        else S.Implies(q[1], cmp_le(m, val(q))) for q in parts])
        p.assume(member)
        p.assume(lower)
        return self.T_(m) if is_time else m

    # ------------------------------------------------------------------ modelled callees
    def _heappop(self, it, node, hp):
        if not isinstance(hp, HeapH):
            raise Unsupported("heappop of a non-heap")
        h = self.heap(it)
        ns = h["NS"][hp.sim]
        m = self.min_of(it, ns)
        it.check_raise(S.Not(self.ns_nonempty(ns)), "IndexError", node, "heappop from an empty heap")
        h["NS"] = z3.Store(h["NS"], hp.sim, z3.Store(ns, m, ns[m] - 1))
        self.small_sync(it.p, h)
        self.s.hook("ghost_heappop", it, hp.sim, m, node)
        return self.T_(m)

    def _heappush(self, it, node, hp, x):
        if not isinstance(hp, HeapH):
            raise Unsupported("heappush on a non-heap")
        h = self.heap(it)
        t = self.unT(self.as_T(it, x, node))
        ns = h["NS"][hp.sim]
        h["NS"] = z3.Store(h["NS"], hp.sim, z3.Store(ns, t, ns[t] + 1))
        self.small_sync(it.p, h)
        return None

    def _perf_counter(self, it, node):
        # A-CLOCK: monotonically non-decreasing real
        now = it.p.fresh("now", z3.RealSort())
        last = it.p.ghost.get("clock")
        if last is not None:
            it.p.assume(now >= last)
        it.p.ghost["clock"] = now
        return now

    def _ceil(self, it, node, x):
        if isinstance(x, int):
            return x
        c = it.p.fresh("ceil", "int")
        fx = z3.ToReal(x) if z3.is_int(x) else x
        it.p.assume(z3.And(z3.ToReal(c) >= fx, z3.ToReal(c) < fx + 1))
        return c

    def _event(self, it, sim, val):
        h = self.heap(it)
        h["newer"] = z3.Store(h["newer"], sim, val)
        return None

    def _progress_set(self, it, node, sim, t):
        """contract of Progress.set (verified on the real code in contracts/progress.py):
        AssertionError iff not time >= self.time; then self.time = time (waiters whose
        trigger is met are resolved, others kept)"""
        a = self.alg
        h = self.heap(it)
        new = self.unT(self.as_T(it, t, node))
        old = h["P"][sim]
        if not a.small and it.decide(a.tlen(new) != a.tlen(old)):
            it.raise_("AssertionError", node, implicit="Progress.set: TieredTime.__lt__ length assertion")
        if it.decide(a.lt(new, old)):
            it.raise_("AssertionError", node, implicit="cannot progress backwards")
        h["P"] = z3.Store(h["P"], sim, new)
        return None

    def _schedule_step(self, it, node, sim, t):
        c = self.s.hook("schedule_step_call", it, sim, t, node)
        if c is not NotImplemented:
            return c
        raise Unsupported("schedule_step call without a contract in this session")

    def _gather(self, it, node, *coros, _star=None):
        items = Bag([("one", True, c) for c in coros])
        if _star is not None:
            if not isinstance(_star, Bag):
                raise Unsupported("gather(*symbolic sequence)")
            items.parts.extend(_star.parts)
        return Coro("gather", items=items)

    def _aio_wait(self, it, node, tasks, **kw):
        return Coro("wait", tasks=tasks, kw=kw)

    def out_req(self, sim):
        return z3.Function("has_output_request", self.alg.Sim, z3.BoolSort())(sim)

    def has_outputs(self, sim):
        """sim.outputs is not None  (cache enabled for this simulator)"""
        return z3.Function("has_outputs", self.alg.Sim, z3.BoolSort())(sim)

    def await_value(self, it, v, e, env):
        if isinstance(v, Coro):
            return self.suspend(it, e, v)
        if isinstance(v, Bag):
            raise Unsupported("await of a bag")
        return NotImplemented

    def suspend(self, it, node, coro):
        """a cut point: the task gives up control.
        1. the global invariant and the guarantee must hold NOW (obligations);
        2. every shared location is havocked subject to the invariant and the rely;
        3. the awaited primitive's postcondition is assumed."""
        top = getattr(self.s, "cur_contract", None)
        if not hasattr(top, "at_cut"):
            raise Unsupported("await in a function whose contract has no concurrency rules")
        p = it.p
        h = p.ghost["heap"]
        lab = it.oid(node)
        if hasattr(top, "wait_obligations"):
            for name, g in top.wait_obligations(it, coro, h).items():
                p.oblige(f"{lab}:wait:{name}", "cut", g, it.where(node), f"what is awaited here can become true: {name}")
        for name, g in top.at_cut(it, h).items():
            p.oblige(f"{lab}:cut:{name}", "cut", g, it.where(node), f"at this await: {name}")
        old = dict(h)
        self.havoc_heap(p, None, "aw")
        h = p.ghost["heap"]
        p.assume(top.rely(it, old, h))
        p.ghost["region_start"] = dict(h)
        p.ghost["cuts"] = p.ghost.get("cuts", 0) + 1
        return self.resume(it, node, coro, h)

    def resume(self, it, node, coro, h):
        a = self.alg
        p = it.p
        k = coro.kind
        if k == "gather":
            for part in coro.kw["items"].parts:
                if isinstance(part, Gen):
                    post = self.coro_post(it, part.val, h)
                    p.assume(a.all_var(part.var, S.Implies(part.guard, post)))
                else:
                    _, g, c = part
                    if isinstance(c, Bag):
                        for q in c.parts:
                            if isinstance(q, Gen):
                                p.assume(a.all_var(q.var, S.Implies(q.guard, self.coro_post(it, q.val, h))))
                            else:
                                p.assume(S.Implies(q[1], self.coro_post(it, q[2], h)))
                    else:
                        p.assume(S.Implies(g, self.coro_post(it, c, h)))
            return Opaque("gather result")
        if k == "wait":
            # returns at an arbitrary later point (first completed or timeout): no postcondition
            return (Opaque("done"), [TaskH()])
        if k in ("ext_step", "ext_get_data", "ext_setup_done", "ext_stop"):
            # the remote side may have closed the connection
            if it.decide(p.fresh("connection_lost", "bool")):
                it.raise_("ConnectionError", node, implicit="external call")
            if k == "ext_step":
                kind = p.fresh("reply_kind", "int")
                p.assume(z3.And(kind >= 0, kind <= 2))
                if it.decide(kind == 0):
                    p.ghost["step_reply_kind"] = "none"
                    return None
                if it.decide(kind == 1):
                    r = p.fresh("next_step_reply", "int")
                    p.ghost["step_reply"] = r
                    p.ghost["step_reply_kind"] = "int"
                    return r
                p.ghost["step_reply_kind"] = "other"
                return Opaque("non-int reply")
            if k == "ext_get_data":
                term = p.fresh("data", self.Data)
                od = OutData(term, p.fresh("reply_has_time", "bool"), p.fresh("reply_time", "int"))
                p.ghost["out_reply"] = od
                return od
            return None
        if k in ("has_passed", "has_reached"):
            p.assume(self.coro_post(it, coro, h))
            return Opaque("triggered time")
        if k in ("event_wait", "sleep"):
            return None
        raise Unsupported(f"await of {k}")

    def coro_post(self, it, c, h):
        """postcondition of Progress.has_passed / has_reached at resumption: the trigger
        condition held when the waiter was resolved (contract of Progress.set) and is stable
        because progress only grows (lemma wait_post_stable)"""
        a = self.alg
        if not isinstance(c, Coro):
            raise Unsupported(f"gather of {c!r}")
        if c.kind not in ("has_passed", "has_reached"):
            return True
        sim, target, shift = c.kw["sim"], self.unT(c.kw["target"]), c.kw["shift"]
        prog = h["P"][sim]
        at_dest = prog if shift is None else a.plus(prog, self.unD(shift))
        return a.lt(target, at_dest) if c.kind == "has_passed" else a.le(target, at_dest)

    def havoc_value(self, it, nm, cur):
        if isinstance(cur, Bag):
            raise Unsupported(f"loop modifies a bag {nm}")
        if isinstance(cur, SimSet):
            return SimSet(it.p.fresh(nm, z3.ArraySort(self.alg.Sim, z3.BoolSort())))
        return NotImplemented


class TrigH:
    def __init__(self, sim):
        self.sim = sim


class DataH:
    def __init__(self, term):
        self.term = term


class DataEnt:
    def __init__(self, term, eid):
        self.term, self.eid = term, eid


class OutItems:
    def __init__(self, sim):
        self.sim = sim


class FilteredOut:
    def __init__(self, sim, k, cond):
        self.sim, self.k, self.cond = sim, k, cond


class OutReq:
    def __init__(self, nonempty):
        self.nonempty = nonempty


class OutputsH:
    def __init__(self, sim):
        self.sim = sim


class PulledH:
    """sim.pulled_inputs: {(src_sim, delay): dataflows}; only the keys are modelled (static table PULL)"""

    def __init__(self, sim):
        self.sim = sim


class SimSet:
    """a local set of simulators (characteristic array)"""

    def __init__(self, arr):
        self.arr = arr


class QGen:
    """a generator expression over modelled tables: { val(vars) | guard(vars) } (order abstracted away)"""

    def __init__(self, vars_, guard, val):
        self.vars, self.guard, self.val = list(vars_), guard, val


class PushH:
    def __init__(self, sim):
        self.sim = sim


class BufferH:
    def __init__(self, sim):
        self.sim = sim


class OutData:
    """the reply of get_data: which (eid, attr) are present (abstract term) and the optional 'time'"""

    def __init__(self, term, has_time, time):
        self.term, self.has_time, self.time = term, has_time, time


class DataEnt2:
    def __init__(self, data, eid):
        self.data, self.eid = data, eid


class TaskH:
    pass


class PushItems:
    """sim.output_to_push.items(): ((eid, attr), [(dest_sim, time_shift, (dest_eid, dest_attr)), ...])"""

    def __init__(self, M, sim):
        self.M, self.sim = M, sim

    def arbitrary(self, it):
        M = self.M
        port = (it.p.fresh("src_eid", M.alg.Str), it.p.fresh("src_attr", M.alg.Str))
        it.p.ghost["last_push_port"] = port
        return (port, PushList(M, self.sim))


class PushList:
    def __init__(self, M, sim):
        self.M, self.sim = M, sim

    def arbitrary(self, it):
        M = self.M
        a = M.alg
        dest = it.p.fresh("push_dest", a.Sim)
        d = it.p.fresh("push_delay", a.D)
        it.p.assume(S.And(a.d_wf(d), a.dlen(d) >= 1) if not a.small else d >= 0)
        item = (dest, M.D_(d), (it.p.fresh("dest_eid", a.Str), it.p.fresh("dest_attr", a.Str)))
        it.p.ghost["last_push"] = {"dest": dest, "delay": d, "dest_eid": item[2][0], "dest_attr": item[2][1],
                                   "events_before": len(it.p.ghost.get("events", []))}
        return item


class SimsColl:
    """all simulators of the world"""

    def __init__(self, M):
        self.M = M
        self.key_sort = None if M.alg.small else M.alg.Sim   # (small scope: plain index-free rule)

    def arbitrary(self, it):
        return it.p.fresh("isim", self.M.alg.Sim)

    def member(self, x):
        return z3.BoolVal(True)

    def key_of(self, item):
        return item


class DictColl:
    def __init__(self, M, items):
        self.M, self.items = M, items

    def arbitrary(self, it):
        k, dom, item = self.M._dict_binding(it, self.items, None)
        k2 = it.p.fresh("key", self.M.alg.Sim)
        it.p.assume(z3.substitute(dom, (k, k2)) if is_z3(dom) else dom)
        if isinstance(item, tuple):
            return (k2, self.M.D_(z3.substitute(self.M.unD(item[1]), (k, k2))))
        if is_z3(item) and item.sort() == self.M.alg.Sim:
            return k2
        return self.M.D_(z3.substitute(self.M.unD(item), (k, k2)))


class TrigItems:
    """sim.triggers.items(): ((eid, attr), [(dest, delay), ...]) for every port with trigger edges"""

    def __init__(self, M, sim):
        self.M, self.sim = M, sim

    def arbitrary(self, it):
        M = self.M
        eid = it.p.fresh("eid", M.alg.Str)
        attr = it.p.fresh("attr", M.alg.Str)
        return ((eid, attr), TrigList(M, self.sim, eid, attr))


class TrigList:
    """the trigger edges of one port"""

    def __init__(self, M, sim, eid, attr):
        self.M, self.sim, self.eid, self.attr = M, sim, eid, attr

    def arbitrary(self, it):
        M = self.M
        b = it.p.fresh("dest", M.alg.Sim)
        j = it.p.fresh("j", "int")
        if M.alg.small:
            it.p.assume(z3.And(j >= 0, j < M.J))
        it.p.assume(z3.And(j >= 0, M.TRd(self.sim, b, j), M.TReid(self.sim, b, j) == self.eid,
                           M.TRattr(self.sim, b, j) == self.attr))
        it.p.ghost["last_trigger"] = (self.sim, b, j)
        return (b, M.D_(M.TRv(self.sim, b, j)))


class TInt:
    """small scope: a time (an Int term)"""

    def __init__(self, t):
        self.t = t


class DInt:
    def __init__(self, d):
        self.d = d


class SimType:
    def __init__(self, code):
        self.code = code
