"""Lazily-initialised containers (dict / list / set) for straight-line scenario code.

A container of the pre-state is unknown: which keys it has is decided on demand (the
path forks on presence and on aliasing of keys), present values are materialised from a
declared schema.  Every mutation is recorded in a log; contracts state the exact set of
mutations of a call (and hence the frame: nothing else changed), per path.
Reference semantics: containers are Python objects with identity; a value stored in two
places is the same object.
"""
from __future__ import annotations
import z3
from ..values import Unsupported, SymObj, SymSeq, Builtin, Opaque, is_z3, simp
from .. import spec as S


class Entry:
    __slots__ = ("key", "pre_present", "pre_value", "present", "value", "touched")

    def __init__(self, key, pre_present, pre_value):
        self.key = key
        self.pre_present = pre_present
        self.pre_value = pre_value
        self.present = pre_present
        self.value = pre_value
        self.touched = False


class LContainer:
    pass


class LDict(LContainer):
    def __init__(self, model, name, schema=None, complete=False):
        self.model = model
        self.name = name
        self.schema = schema      # key -> value factory for entries present in the pre-state
        self.complete = complete  # True: a dict created by this call ({}): unknown keys are absent
        self.entries = []

    def __repr__(self):
        return f"<LDict {self.name}>"

    def lookup(self, it, key, need_presence=True):
        """the entry for `key` (aliasing with the keys seen so far is decided here).  Whether the key
        was present in the pre-state is decided only when the caller needs to know."""
        found = None
        for e in self.entries:
            c = it.equal(e.key, key)
            if it.decide(c):
                found = e
                break
        if found is None:
            if self.complete:
                found = Entry(key, False, None)
            else:
                found = Entry(key, it.p.fresh(f"{self.name}.has", "bool"), None)
            self.entries.append(found)
        if need_presence:
            self.force(it, found)
        return found

    def force(self, it, e):
        """decide the presence of an entry (fork) and materialise its pre-state value"""
        if e.present is True or e.present is False:
            return
        if it.decide(e.present):
            e.pre_present = e.present = True
            e.pre_value = e.value = self.materialise(it, e.key)
        else:
            e.pre_present = e.present = False

    def materialise(self, it, key):
        if self.schema is None:
            raise Unsupported(f"no schema for the values of {self.name}")
        return self.schema(it, key, f"{self.name}[..]")


class LList(LContainer):
    def __init__(self, model, name, complete=False):
        self.model, self.name, self.complete = model, name, complete
        self.appended = []

    def __repr__(self):
        return f"<LList {self.name}>"


class LSet(LContainer):
    def __init__(self, model, name, complete=False):
        self.model, self.name, self.complete = model, name, complete
        self.added = []

    def __repr__(self):
        return f"<LSet {self.name}>"


class NoOp:
    """an object whose methods have no effect we model (networkx graph, logger)"""

    def __init__(self, name):
        self.name = name


class Sentinel:
    def __init__(self, name):
        self.name = name

    def __repr__(self):
        return f"<sentinel {self.name}>"


class LazyModel:
    def __init__(self, session):
        self.s = session
        self.log = None
        session.add_model(self)
        session.builtins["set"] = Builtin("set", self._set_ctor)

    def reset(self, p):
        p.ghost["log"] = []

    def record(self, it, op, container, key, value):
        it.p.ghost["log"].append((op, container, key, value))

    def _set_ctor(self, it, node, x=None):
        if x is None or (isinstance(x, (tuple, list)) and len(x) == 0):
            return LSet(self, "new set", complete=True)
        r = self.s.hook("to_set", it, x, node)
        if r is not NotImplemented:
            return r
        raise Unsupported("set(iterable)")

    @staticmethod
    def is_new_container(v):
        return (isinstance(v, dict) and not v) or (isinstance(v, SymSeq) and v.kind == "list" and isinstance(v.length, int)
                                                     and v.length == 0) or (isinstance(v, LContainer) and v.complete
                                                                            and not getattr(v, "entries", None)
                                                                            and not getattr(v, "appended", None)
                                                                            and not getattr(v, "added", None))

    def wrap_new(self, v, name):
        """a freshly created empty literal stored into a container becomes a container object"""
        if isinstance(v, dict) and not v:
            return LDict(self, name, complete=True)
        if isinstance(v, SymSeq) and v.kind == "list" and isinstance(v.length, int) and v.length == 0:
            return LList(self, name, complete=True)
        return v

    # ---- hooks
    def resolve_import(self, dotted):
        if dotted == "loguru.logger":
            return NoOp("logger")
        if dotted == "warnings":
            return NoOp("warnings")
        return NotImplemented

    def getattr(self, it, obj, name, node):
        if isinstance(obj, NoOp):
            return Builtin(f"{obj.name}.{name}", lambda it2, n2, *a, **k: None)
        if isinstance(obj, LDict):
            if name == "get":
                def get(it2, n2, key, default=None, obj=obj):
                    e = obj.lookup(it2, key)
                    return e.value if e.present is True else default
                return Builtin("dict.get", get)
            if name == "setdefault":
                def setdefault(it2, n2, key, default=None, obj=obj):
                    if self.is_new_container(default):
                        # d.setdefault(k, {}) : whether the intermediate container existed does not matter for
                        # what is stored into it: no fork; the result is "the existing one or a new empty one"
                        e = obj.lookup(it2, key, need_presence=False)
                        if e.present is True:
                            return e.value
                        if e.present is False:
                            v = self.wrap_new(default, f"{obj.name}[new]")
                        else:
                            v = obj.materialise(it2, key)
                        e.present, e.value, e.touched = True, v, True
                        self.record(it2, "ensure", obj, key, v)
                        return v
                    e = obj.lookup(it2, key)
                    if e.present is True:
                        return e.value
                    e.present, e.value, e.touched = True, default, True
                    self.record(it2, "set", obj, key, default)
                    return default
                return Builtin("dict.setdefault", setdefault)
            raise Unsupported(f"dict.{name} on a lazily initialised dict")
        if isinstance(obj, LList):
            if name == "append":
                def append(it2, n2, x, obj=obj):
                    obj.appended.append(x)
                    self.record(it2, "append", obj, None, x)
                    return None
                return Builtin("list.append", append)
            raise Unsupported(f"list.{name} on a lazily initialised list")
        if isinstance(obj, LSet):
            if name == "add":
                def add(it2, n2, x, obj=obj):
                    obj.added.append(x)
                    self.record(it2, "add", obj, None, x)
                    return None
                return Builtin("set.add", add)
            raise Unsupported(f"set.{name} on a lazily initialised set")
        return NotImplemented

    def getitem(self, it, obj, idx, node):
        if isinstance(obj, LDict):
            e = obj.lookup(it, idx)
            if e.present is not True:
                it.raise_("KeyError", node, implicit="KeyError")
            return e.value
        return NotImplemented

    def setitem(self, it, obj, idx, v, node):
        if isinstance(obj, LDict):
            e = obj.lookup(it, idx, need_presence=False)
            v = self.wrap_new(v, f"{obj.name}[new]")
            e.present, e.value, e.touched = True, v, True
            self.record(it, "set", obj, idx, v)
            return True
        return NotImplemented

    def contains(self, it, container, item, node):
        if isinstance(container, LDict):
            return container.lookup(it, item).present is True
        return NotImplemented

    def identical(self, it, a, b):
        if isinstance(a, Sentinel) or isinstance(b, Sentinel):
            return a is b
        for x, y in ((a, b), (b, a)):
            if isinstance(x, LContainer) and y is None:
                return False
        if isinstance(a, LContainer) and isinstance(b, LContainer):
            return a is b
        return NotImplemented

    def truth(self, it, v):
        if isinstance(v, (Sentinel, NoOp)):
            return True
        return NotImplemented

    def equal(self, it, a, b, node):
        if isinstance(a, LContainer) or isinstance(b, LContainer):
            return a is b
        return NotImplemented
