"""Model of Python (frozen)sets over an uninterpreted element sort, and of
string-keyed record dicts with optional keys (model descriptions).

A set value is its characteristic array Elem -> Bool.  All built-in operators
used by mosaik's in_or_out_set.py are total and pure, so no obligations arise.
Assumption (listed in the evidence): the element universe is infinite, every
concrete set is finite -- provided to the solver as one witness element that
lies outside all finite input sets (see Maker.set)."""
from __future__ import annotations
import z3
from ..values import Unsupported, SymObj, Builtin, is_z3, simp
from .. import spec as S

Elem = z3.DeclareSort("Elem")
SetSort = z3.ArraySort(Elem, z3.BoolSort())
EMPTY = z3.K(Elem, z3.BoolVal(False))


class SymSet:
    """a finite set (frozenset / set / iterable of elements) given by its characteristic array"""

    def __init__(self, arr, kind="frozenset"):
        self.arr = arr
        self.kind = kind

    def __repr__(self):
        return f"<SymSet {self.kind} {self.arr}>"


def union(a, b):
    return z3.Map(_f_or(), a, b)


def inter(a, b):
    return z3.Map(_f_and(), a, b)


def diff(a, b):
    return z3.Map(_f_and(), a, z3.Map(_f_not(), b))


def compl(a):
    return z3.Map(_f_not(), a)


_cache = {}


def _f_or():
    if "or" not in _cache:
        a, b = z3.Bools("a b")
        _cache["or"] = z3.Or(a, b).decl()
    return _cache["or"]


def _f_and():
    if "and" not in _cache:
        a, b = z3.Bools("a b")
        _cache["and"] = z3.And(a, b).decl()
    return _cache["and"]


def _f_not():
    if "not" not in _cache:
        a = z3.Bool("a")
        _cache["not"] = z3.Not(a).decl()
    return _cache["not"]


class RecDict:
    """a dict with a fixed universe of string keys, each optionally present"""

    def __init__(self, entries):
        self.entries = dict(entries)  # key -> (present: bool | z3 Bool, value)


class SetModel:
    """hooks into the interpreter"""

    def resolve_import(self, dotted):
        return NotImplemented

    def binop(self, it, name, a, b, node):
        if isinstance(a, SymSet) and isinstance(b, SymSet):
            if name == "or":
                return SymSet(union(a.arr, b.arr))
            if name == "and":
                return SymSet(inter(a.arr, b.arr))
            if name == "sub":
                return SymSet(diff(a.arr, b.arr))
            raise Unsupported(f"set operator {name}")
        if isinstance(a, SymSet) and not isinstance(b, SymObj):
            if isinstance(b, (tuple, list)) and name in ("or", "and", "sub"):
                # frozenset op tuple -> TypeError in Python
                it.raise_("TypeError", node, implicit="binop")
        return NotImplemented

    def equal(self, it, a, b, node):
        if isinstance(a, SymSet) and isinstance(b, SymSet):
            return simp(a.arr == b.arr)
        if isinstance(a, SymSet) and b is None or isinstance(b, SymSet) and a is None:
            return False
        return NotImplemented

    def contains(self, it, container, item, node):
        if isinstance(container, SymSet):
            if is_z3(item) and item.sort() == Elem:
                return simp(container.arr[item])
            raise Unsupported("membership of a non-element in a set")
        if isinstance(container, RecDict):
            if not isinstance(item, str):
                raise Unsupported("symbolic key in record dict")
            if item not in container.entries:
                return False
            return container.entries[item][0]
        return NotImplemented

    def truth(self, it, v):
        if isinstance(v, SymSet):
            return S.Not(simp(v.arr == EMPTY))
        if isinstance(v, RecDict):
            return S.Or(*[p for p, _ in v.entries.values()])
        return NotImplemented

    def getattr(self, it, obj, name, node):
        if isinstance(obj, RecDict):
            if name == "get":
                def get(it2, node2, key, default=None, obj=obj):
                    if not isinstance(key, str):
                        raise Unsupported("symbolic key in record dict")
                    if key not in obj.entries:
                        return default
                    present, val = obj.entries[key]
                    return val if it2.decide(present) else default
                return Builtin("dict.get", get)
            raise Unsupported(f"dict.{name}")
        return NotImplemented

    def getitem(self, it, obj, idx, node):
        if isinstance(obj, RecDict):
            if not isinstance(idx, str):
                raise Unsupported("symbolic key in record dict")
            if idx in obj.entries and it.decide(obj.entries[idx][0]):
                return obj.entries[idx][1]
            it.raise_("KeyError", node, implicit="KeyError")
        return NotImplemented

    def isinstance(self, it, v, cls, node):
        if isinstance(cls, Builtin) and cls.name == "frozenset":
            return isinstance(v, SymSet) and v.kind == "frozenset"
        return NotImplemented


def install(session):
    session.add_model(SetModel())

    def _frozenset(it, node, x=()):
        if isinstance(x, SymSet):
            return SymSet(x.arr, "frozenset")
        if isinstance(x, (tuple, list)) and len(x) == 0:
            return SymSet(EMPTY, "frozenset")
        if isinstance(x, (tuple, list)):
            arr = EMPTY
            for e in x:
                if not (is_z3(e) and e.sort() == Elem):
                    raise Unsupported("frozenset of non-elements")
                arr = z3.Store(arr, e, True)
            return SymSet(arr, "frozenset")
        raise Unsupported(f"frozenset({x!r})")

    session.builtins["frozenset"] = Builtin("frozenset", _frozenset)


def maker_set(mk, name, kind="frozenset"):
    """a symbolic finite set; registers the outside-witness assumption"""
    arr = z3.Const(name, SetSort)
    mk.inputs[name] = ("set", arr)
    w = z3.Const("w!outside", Elem)
    mk.s.side_assumptions.append(z3.Not(arr[w]))
    return SymSet(arr, kind)
