"""Discharge of obligations: z3 (Python API) first, z3 with E-matching only, then the
cvc5 command-line solver on every `unknown`.  `unknown` is never mapped to a verdict."""
from __future__ import annotations
import os
import subprocess
import tempfile
import time
import z3

CVC5 = "/usr/bin/cvc5"


def _check_z3(assumptions, goal, timeout_ms, ematch_only=False, seed=0):
    s = z3.Solver()
    s.set("timeout", timeout_ms)
    if seed:
        s.set("random_seed", seed)
        s.set("smt.random_seed", seed)
    if ematch_only:
        s.set("smt.mbqi", False)
        s.set("smt.auto_config", False)
    for a in assumptions:
        s.add(a)
    s.add(z3.Not(goal))
    r = s.check()
    return r, s


def _check_cvc5(solver, timeout_ms):
    try:
        smt = solver.to_smt2()
    except Exception as e:  # pragma: no cover
        return "unknown", f"to_smt2 failed: {e}"
    if "(declare-datatypes" in smt and "lambda" in smt:
        return "unknown", "not exportable"
    smt = "(set-logic ALL)\n" + smt
    fd, path = tempfile.mkstemp(suffix=".smt2", prefix="pyvc_")
    try:
        with os.fdopen(fd, "w") as fh:
            fh.write(smt)
        try:
            out = subprocess.run([CVC5, "--lang=smt2", f"--tlimit={timeout_ms}", path],
                                 capture_output=True, text=True, timeout=timeout_ms / 1000 + 5)
        except subprocess.TimeoutExpired:
            return "unknown", "cvc5 timeout"
        first = (out.stdout.strip().splitlines() or ["unknown"])[0].strip()
        if first in ("sat", "unsat"):
            return first, "cvc5"
        return "unknown", (out.stderr.strip() or first)[:200]
    finally:
        try:
            os.unlink(path)
        except OSError:
            pass


def discharge(assumptions, goal, timeout_ms=10000, want_model=True, quick_only=False):
    """-> (status, solver, secs, model or None, detail)
    status: 'discharged' (negation unsat), 'refuted' (negation sat), 'unknown'"""
    t0 = time.time()
    if goal is True:
        return "discharged", "encoder", 0.0, None, "trivial after simplification"
    # quantified obligations are sensitive to the solver's search order: a few short attempts with
    # different seeds / E-matching only come first (stability), then the full budget
    short = min(2500, timeout_ms)
    for seed, em in ((0, False), (7, False), (0, True), (13, False)):
        r, s = _check_z3(assumptions, goal, short, ematch_only=em, seed=seed)
        if r == z3.unsat:
            return "discharged", "z3-ematch" if em else "z3", time.time() - t0, None, ""
        if r == z3.sat and not em:
            return "refuted", "z3", time.time() - t0, s.model() if want_model else None, ""
    r, s = _check_z3(assumptions, goal, timeout_ms)
    if r == z3.unsat:
        return "discharged", "z3", time.time() - t0, None, ""
    if r == z3.sat:
        return "refuted", "z3", time.time() - t0, s.model() if want_model else None, ""
    reason = s.reason_unknown()
    if quick_only:
        return "unknown", "z3", time.time() - t0, None, reason
    r2, s2 = _check_z3(assumptions, goal, timeout_ms, ematch_only=True)
    if r2 == z3.unsat:
        return "discharged", "z3-ematch", time.time() - t0, None, ""
    # (sat from the incomplete E-matching mode is not trusted as a refutation)
    if os.path.exists(CVC5):
        r3, d3 = _check_cvc5(s, timeout_ms)
        if r3 == "unsat":
            return "discharged", "cvc5", time.time() - t0, None, ""
        if r3 == "sat":
            return "refuted", "cvc5", time.time() - t0, None, "cvc5 sat (no model extracted)"
        reason += " | cvc5: " + d3
    return "unknown", "z3+cvc5", time.time() - t0, None, reason


def model_value(m, term, depth=8):
    """evaluate a z3 term in a model into a Python value"""
    v = m.eval(term, model_completion=True)
    if z3.is_int_value(v):
        return v.as_long()
    if z3.is_true(v):
        return True
    if z3.is_false(v):
        return False
    if z3.is_rational_value(v):
        return float(v.numerator_as_long()) / float(v.denominator_as_long())
    return str(v)
