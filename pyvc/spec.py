"""Dual-mode specification helpers.

Every helper works on *native* Python values (ints, bools, tuples, real mosaik
objects) and on *symbolic* values (z3 terms, SymSeq, SymObj, ...).  A contract
written with these helpers is therefore one text with two evaluators:

* symbolic: the result is a z3 formula that becomes (part of) an obligation;
* native:   the result is a Python bool, used when a counter-model is replayed
            against the real function under /venv/bin/python and when the
            contracts are evaluated at run time.

The module must stay importable without z3 (native replay runs under the
repository's interpreter, which has no z3).
"""
from __future__ import annotations

try:  # symbolic mode only
    import z3  # type: ignore
except Exception:  # pragma: no cover - native replay interpreter
    z3 = None  # type: ignore

_counter = [0]


def _fresh_int(prefix="q"):
    _counter[0] += 1
    return z3.Int(f"{prefix}!{_counter[0]}")


def is_sym(x) -> bool:
    return z3 is not None and isinstance(x, z3.ExprRef)


def _b(x):
    """coerce python bool to z3 when mixing"""
    if isinstance(x, bool):
        return z3.BoolVal(x)
    return x


def And(*xs):
    xs = [x for x in xs]
    if not any(is_sym(x) for x in xs):
        return all(bool(x) for x in xs)
    if any(x is False for x in xs):
        return False
    ys = [x for x in xs if x is not True]
    return z3.And(*[_b(y) for y in ys]) if len(ys) != 1 else ys[0]


def Or(*xs):
    xs = [x for x in xs]
    if not any(is_sym(x) for x in xs):
        return any(bool(x) for x in xs)
    if any(x is True for x in xs):
        return True
    ys = [x for x in xs if x is not False]
    return z3.Or(*[_b(y) for y in ys]) if len(ys) != 1 else ys[0]


def Not(x):
    if is_sym(x):
        return z3.Not(x)
    return not x


def Implies(a, b):
    if not is_sym(a) and not is_sym(b):
        return (not a) or bool(b)
    if a is True:
        return b
    if a is False:
        return True
    if b is True:
        return True
    return z3.Implies(_b(a), _b(b))


def Iff(a, b):
    if not is_sym(a) and not is_sym(b):
        return bool(a) == bool(b)
    return _b(a) == _b(b)


def If(c, a, b):
    if not is_sym(c):
        return a if c else b
    if isinstance(a, bool) or isinstance(b, bool):
        a, b = _b(a), _b(b)
    return z3.If(c, a, b)


def Min(a, b):
    if not is_sym(a) and not is_sym(b):
        return min(a, b)
    return z3.If(a <= b, a, b)


def Max(a, b):
    if not is_sym(a) and not is_sym(b):
        return max(a, b)
    return z3.If(a >= b, a, b)


def forall(lo, hi, f):
    """forall j in range(lo, hi): f(j)"""
    if not is_sym(lo) and not is_sym(hi):
        # concrete range: expand (native mode, or symbolic body over a concrete range)
        return And(*[f(j) for j in range(lo, hi)])
    j = _fresh_int("j")
    body = f(j)
    if body is True:
        return True
    return z3.ForAll([j], z3.Implies(z3.And(lo <= j, j < hi), _b(body)))


def exists(lo, hi, f):
    if not is_sym(lo) and not is_sym(hi):
        return Or(*[f(j) for j in range(lo, hi)])
    j = _fresh_int("k")
    body = f(j)
    if body is False:
        return False
    return z3.Exists([j], z3.And(lo <= j, j < hi, _b(body)))


def len_(xs):
    if hasattr(xs, "sym_len"):
        return xs.sym_len()
    return len(xs)


def seq_eq(a, b):
    """element-wise equality of two int sequences (native tuples or SymSeq)"""
    n = len_(a)
    return And(n == len_(b), forall(0, n, lambda j: a[j] == b[j]))


def lex_lt(a, b):
    """Python's tuple '<' on int sequences (prefix rule included)."""
    na, nb = len_(a), len_(b)
    m = Min(na, nb)
    return Or(
        exists(0, m, lambda k: And(forall(0, k, lambda j: a[j] == b[j]), a[k] < b[k])),
        And(na < nb, forall(0, na, lambda j: a[j] == b[j])),
    )


def lex_le(a, b):
    return Or(lex_lt(a, b), seq_eq(a, b))
