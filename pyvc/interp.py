"""pyvc symbolic executor: runs the ast of a real function from /repo on symbolic
values, one path at a time (paths are enumerated by re-execution with a
decision trace), and emits obligations.

Python semantics assumed by this encoder are listed in DESIGN.md section 3.4.
"""
from __future__ import annotations
import ast
import itertools
import z3
from . import spec as S
from .values import (
    Unsupported, SymSeq, SymObj, Func, BoundMethod, Builtin, ClassInfo, Opaque,
    NOT_IMPLEMENTED, SymGen, as_seq, seq_slice, seq_concat, seq_repeat, simp,
    is_z3, is_int_like, is_bool_like,
)

# --------------------------------------------------------------------------
# control-flow signals


class PyRaise(Exception):
    """a Python exception raised by the interpreted program"""

    def __init__(self, cls, args=(), node=None, implicit=None):
        super().__init__(cls)
        self.cls = cls
        self.args_ = tuple(args)
        self.node = node
        self.implicit = implicit  # e.g. 'assert', 'KeyError' for implicitly raised ones
        self.site = None


class _Return(Exception):
    def __init__(self, value):
        self.value = value


class _Break(Exception):
    pass


class _Continue(Exception):
    pass


class PathEnd(Exception):
    """the current path ends here (infeasible, or cut after a loop-body check)"""


EXC_PARENT = {
    "BaseException": None, "Exception": "BaseException", "KeyboardInterrupt": "BaseException",
    "AssertionError": "Exception", "ValueError": "Exception", "TypeError": "Exception",
    "LookupError": "Exception", "KeyError": "LookupError", "IndexError": "LookupError",
    "RuntimeError": "Exception", "NotImplementedError": "RuntimeError",
    "OSError": "Exception", "ConnectionError": "OSError", "TimeoutError": "OSError",
    "ConnectionResetError": "ConnectionError", "BrokenPipeError": "ConnectionError",
    "ConnectionRefusedError": "ConnectionError", "ConnectionAbortedError": "ConnectionError",
    "StopIteration": "Exception", "AttributeError": "Exception", "ArithmeticError": "Exception",
    "ZeroDivisionError": "ArithmeticError", "EOFError": "Exception",
    "IncompleteReadError": "EOFError", "CancelledError": "BaseException",
    "ScenarioError": "Exception", "SimulationError": "Exception",
    "NonSerializableOutputsError": "SimulationError",
    "RemoteException": "Exception", "EndOfRequests": "Exception",
    "asyncio.TimeoutError": "TimeoutError", "DeprecationWarning": "Exception",
}


def exc_is(cls, target):
    while cls is not None:
        if cls == target:
            return True
        cls = EXC_PARENT.get(cls)
    return False


# --------------------------------------------------------------------------
# obligations and per-path context


_hq_cache = {}


def has_quantifier(e):
    if not is_z3(e):
        return False
    todo = [e]
    seen = set()
    while todo:
        x = todo.pop()
        k = x.get_id()
        if k in seen:
            continue
        seen.add(k)
        if z3.is_quantifier(x):
            return True
        if z3.is_app(x):
            todo.extend(x.children())
    return False


class Obligation:
    __slots__ = ("oid", "kind", "assumptions", "goal", "where", "note", "path", "values", "inputs", "ghost")

    def __init__(self, oid, kind, assumptions, goal, where, note="", path=(), values=None):
        self.oid = oid
        self.kind = kind
        self.assumptions = list(assumptions)
        self.goal = goal
        self.where = where
        self.note = note
        self.path = tuple(path)
        self.values = values or {}
        self.inputs = None
        self.ghost = None


class PathCtx:
    """one execution path: path condition, decisions, fresh names"""

    def __init__(self, preset, worklist, sink, feas_timeout_ms=3000):
        self.preset = list(preset)
        self.worklist = worklist
        self.sink = sink
        self.decisions = []
        self.pc = []
        self.solver = z3.Solver()
        self.solver.set("timeout", feas_timeout_ms)
        self.names = itertools.count()
        self.stats = {"feas_checks": 0}
        self.ghost = {}
        self.values = {}
        self.inputs = None

    # fresh symbols are numbered per path in execution order, so that the same
    # program point gets the same symbol on every path sharing the prefix
    def fresh(self, prefix, sort):
        n = next(self.names)
        if isinstance(sort, str):
            if sort == "int":
                return z3.Int(f"{prefix}!{n}")
            if sort == "bool":
                return z3.Bool(f"{prefix}!{n}")
            raise ValueError(sort)
        return z3.Const(f"{prefix}!{n}", sort)

    def recording(self):
        return len(self.decisions) >= len(self.preset)

    def assume(self, c):
        if c is True:
            return
        if c is False:
            raise PathEnd()
        self.pc.append(c)
        # the feasibility solver sees only quantifier-free facts (over-approximates
        # feasibility: sound, and keeps branching cheap); obligations carry everything
        if not has_quantifier(c):
            self.solver.add(c)
        elif z3.is_and(c):
            # keep the quantifier-free conjuncts of a conjunction
            todo = list(c.children())
            while todo:
                x = todo.pop()
                if z3.is_and(x):
                    todo.extend(x.children())
                elif not has_quantifier(x):
                    self.solver.add(x)

    def feasible(self, c):
        self.stats["feas_checks"] += 1
        self.solver.push()
        self.solver.add(c)
        r = self.solver.check()
        self.solver.pop()
        return r != z3.unsat

    def decide(self, cond):
        """branch on a symbolic condition"""
        cond = simp(cond)
        if isinstance(cond, bool):
            return cond
        idx = len(self.decisions)
        if idx < len(self.preset):
            d = self.preset[idx]
        else:
            ft = self.feasible(cond)
            ff = self.feasible(z3.Not(cond))
            if ft and ff:
                d = True
                self.worklist.append(self.decisions + [False])
            elif ft:
                d = True
            elif ff:
                d = False
            else:
                raise PathEnd()
        self.decisions.append(d)
        self.assume(cond if d else z3.Not(cond))
        return d

    def oblige(self, oid, kind, goal, where, note="", values=None):
        if not self.recording():
            return
        goal = simp(goal) if is_z3(goal) else goal
        if goal is True:
            # trivially true instances are still counted (as discharged by the encoder)
            self.sink.append(Obligation(oid, kind, [], True, where, note, self.decisions, values or self.values))
            self.sink[-1].inputs = self.inputs
            self.sink[-1].ghost = self.ghost
            return
        if goal is False:
            goal = z3.BoolVal(False)
        self.sink.append(Obligation(oid, kind, self.pc, goal, where, note, self.decisions, values or self.values))
        self.sink[-1].inputs = self.inputs
        self.sink[-1].ghost = self.ghost


# --------------------------------------------------------------------------


class Env:
    def __init__(self, local=None, parent=None, module=None):
        self.local = local if local is not None else {}
        self.parent = parent
        self.module = module

    def lookup(self, name):
        e = self
        while e is not None:
            if name in e.local:
                return e.local[name]
            e = e.parent
        raise KeyError(name)

    def set(self, name, val):
        self.local[name] = val


class Frame:
    """per-call bookkeeping: qualname and ordinals of loops / asserts / calls"""

    def __init__(self, func):
        self.func = func
        self.qualname = func.qualname
        self.short = func.qualname.split(".", 2)[-1] if func.qualname.startswith("mosaik.") else func.qualname
        self.ordinals = {}
        self.node_ord = {}
        self._index(func.node)

    def _index(self, fnode):
        counters = {}

        def visit(n):
            for ch in ast.iter_child_nodes(n):
                if isinstance(ch, (ast.FunctionDef, ast.AsyncFunctionDef, ast.Lambda, ast.ClassDef)):
                    if isinstance(ch, ast.Lambda):
                        visit(ch)
                    continue
                k = None
                if isinstance(ch, (ast.For, ast.While, ast.AsyncFor)):
                    k = "loop"
                elif isinstance(ch, ast.Assert):
                    k = "assert"
                elif isinstance(ch, ast.Raise):
                    k = "raise"
                elif isinstance(ch, ast.Call):
                    k = "call"
                elif isinstance(ch, ast.Subscript):
                    k = "sub"
                elif isinstance(ch, ast.Await):
                    k = "await"
                elif isinstance(ch, ast.Return):
                    k = "return"
                elif isinstance(ch, (ast.ListComp, ast.GeneratorExp, ast.SetComp, ast.DictComp)):
                    k = "comp"
                elif isinstance(ch, ast.BinOp):
                    k = "binop"
                elif isinstance(ch, ast.Compare):
                    k = "cmp"
                elif isinstance(ch, ast.Attribute):
                    k = "attr"
                elif isinstance(ch, (ast.Assign, ast.AugAssign, ast.AnnAssign)):
                    k = "assign"
                if k:
                    self.node_ord[id(ch)] = (k, counters.get(k, 0))
                    counters[k] = counters.get(k, 0) + 1
                visit(ch)

        visit(fnode)

    def label(self, node):
        k, o = self.node_ord.get(id(node), ("node", getattr(node, "lineno", 0)))
        return f"{k}#{o}"


class Interp:
    def __init__(self, path: PathCtx, session):
        self.p = path
        self.s = session
        self.frames = []
        self.pure_depth = 0

    # ---- helpers -----------------------------------------------------
    @property
    def frame(self):
        return self.frames[-1]

    def where(self, node):
        f = self.frame
        return {"func": f.qualname, "line": getattr(node, "lineno", None), "label": f.label(node)}

    def oid(self, node, suffix=""):
        f = self.frame
        return f"{f.short}:{f.label(node)}{(':' + suffix) if suffix else ''}"

    def decide(self, cond):
        cond = simp(cond)
        if isinstance(cond, bool):
            return cond
        if self.pure_depth:
            raise Unsupported("branching inside a pure (element-wise) expression")
        return self.p.decide(cond)

    def truth(self, v):
        """Python truthiness as bool / z3 Bool"""
        if isinstance(v, bool):
            return v
        if v is None:
            return False
        if isinstance(v, int):
            return v != 0
        if isinstance(v, str):
            return len(v) > 0
        if isinstance(v, (tuple, list, dict, set, frozenset)):
            return len(v) > 0
        if is_z3(v):
            if z3.is_bool(v):
                return v
            if z3.is_int(v):
                return v != 0
            r = self.s.hook("truth", self, v)
            if r is not NotImplemented:
                return r
            raise Unsupported(f"truthiness of term of sort {v.sort()}")
        if isinstance(v, SymSeq):
            return simp(v.length != 0) if is_z3(v.length) else v.length != 0
        if isinstance(v, SymObj):
            if "__bool__" in v.cls.methods:
                return self.truth(self.call_function(v.cls.methods["__bool__"], [v], {}))
            if "__len__" in v.cls.methods:
                n = self.call_function(v.cls.methods["__len__"], [v], {})
                return simp(n != 0) if is_z3(n) else n != 0
            return True
        if isinstance(v, (Func, BoundMethod, Builtin, ClassInfo, Opaque)):
            return True
        r = self.s.hook("truth", self, v)
        if r is not NotImplemented:
            return r
        raise Unsupported(f"truthiness of {v!r}")

    def test(self, v):
        return self.decide(self.truth(v))

    def check_raise(self, cond, exc, node, implicit=None):
        """raise `exc` iff cond.  Inside a pure element expression (comprehension body
        evaluated for an arbitrary element) no exception may occur: the negated
        condition becomes an obligation and is then assumed for that element."""
        cond = simp(cond)
        if cond is False:
            return
        if self.pure_depth:
            if cond is True:
                raise Unsupported(f"{exc} certain inside an element expression")
            self.p.oblige(self.oid(node, f"element_no_{exc}"), "no_raise_in_element", z3.Not(cond), self.where(node),
                          f"no {exc} ({implicit}) while evaluating the element expression for any element")
            self.p.assume(z3.Not(cond))
            return
        if self.decide(cond):
            self.raise_(exc, node, implicit=implicit)

    def raise_(self, cls, node, args=(), implicit=None):
        e = PyRaise(cls, args, node, implicit)
        e.site = self.oid(node) if self.frames else None
        e.where = self.where(node) if self.frames else None
        raise e

    # ---- statements ----------------------------------------------------
    def exec_block(self, stmts, env):
        for st in stmts:
            self.exec_stmt(st, env)

    def exec_stmt(self, st, env):
        m = getattr(self, "st_" + type(st).__name__, None)
        if m is None:
            raise Unsupported(f"statement {type(st).__name__} at line {st.lineno}")
        return m(st, env)

    def st_Pass(self, st, env):
        pass

    def st_Expr(self, st, env):
        if isinstance(st.value, ast.Constant):
            return  # docstring
        self.eval(st.value, env)

    def st_Return(self, st, env):
        raise _Return(self.eval(st.value, env) if st.value is not None else None)

    def st_Break(self, st, env):
        raise _Break()

    def st_Continue(self, st, env):
        raise _Continue()

    def st_Global(self, st, env):
        raise Unsupported("global")

    def st_Import(self, st, env):
        for a in st.names:
            env.set(a.asname or a.name.split(".")[0], self.s.resolve_import(a.name))

    def st_ImportFrom(self, st, env):
        for a in st.names:
            env.set(a.asname or a.name, self.s.resolve_import(f"{st.module}.{a.name}"))

    def st_Assert(self, st, env):
        ok = self.test(self.eval(st.test, env))
        if not ok:
            msg = self.eval(st.msg, env) if st.msg is not None else None
            self.raise_("AssertionError", st, (msg,), implicit="assert")

    def st_Raise(self, st, env):
        if st.exc is None:
            cur = getattr(self, "_current_exc", None)
            if cur is None:
                raise Unsupported("bare raise outside handler")
            raise cur
        v = self.eval(st.exc, env)
        if isinstance(v, ExcValue):
            e = PyRaise(v.cls, v.args, st)
            e.site = self.oid(st)
            e.where = self.where(st)
            e.value = v
            raise e
        if isinstance(v, ExcClass):
            self.raise_(v.name, st)
        raise Unsupported(f"raise of {v!r}")

    def st_If(self, st, env):
        if _only_logging(st.body) and _only_logging(st.orelse):
            # logging is dropped by the extraction (DESIGN 3.2): no need to split the path on its condition
            if not _is_pure_expr(st.test) and not all(isinstance(n, (ast.expr_context, ast.Name, ast.Attribute, ast.Compare, ast.BoolOp,
                                                                      ast.UnaryOp, ast.Constant, ast.cmpop, ast.boolop, ast.unaryop))
                                                       for n in ast.walk(st.test)):
                self.eval(st.test, env)
            return
        if self.test(self.eval(st.test, env)):
            self.exec_block(st.body, env)
        else:
            self.exec_block(st.orelse, env)

    def st_Assign(self, st, env):
        v = self.eval(st.value, env)
        for t in st.targets:
            self.assign(t, v, env)

    def st_AnnAssign(self, st, env):
        if st.value is not None:
            self.assign(st.target, self.eval(st.value, env), env)

    def st_AugAssign(self, st, env):
        cur = self.eval(_load(st.target), env)
        v = self.binop(st.op, cur, self.eval(st.value, env), st)
        self.assign(st.target, v, env)

    def st_Delete(self, st, env):
        for t in st.targets:
            r = self.s.hook("delete", self, t, env)
            if r is not NotImplemented:
                continue
            # del obj.attr[i] / del name[i] on a list with symbolic length (value semantics for the
            # list itself: DESIGN 3.4, the list object is not aliased)
            if isinstance(t, ast.Subscript) and not isinstance(t.slice, ast.Slice):
                seq = self.eval(t.value, env)
                idx = self.eval(t.slice, env)
                if isinstance(seq, SymSeq) and seq.kind == "list":
                    self.s.hook("on_delete_item", self, seq, idx, t)
                    n = seq.length
                    self.check_raise(S.Not(S.And(idx >= 0, idx < n)), "IndexError", t, "del list[i]")
                    new = SymSeq(simp(n - 1), lambda j, seq=seq, idx=idx: _ite(simp(j < idx), seq.get(j), seq.get(simp(j + 1))), "list")
                    new.elem_merge = getattr(seq, "elem_merge", None)
                    self.assign(_as_store(t.value), new, env)
                    continue
            raise Unsupported("del")

    def st_FunctionDef(self, st, env):
        env.set(st.name, Func(st, self.frame.func.module, f"{self.frame.qualname}.<locals>.{st.name}", closure=env))

    st_AsyncFunctionDef = st_FunctionDef

    def st_Try(self, st, env):
        try:
            try:
                self.exec_block(st.body, env)
            except PyRaise as e:
                for h in st.handlers:
                    if self.handler_matches(h, e, env):
                        if h.name:
                            env.set(h.name, ExcValue(e.cls, e.args_, getattr(e, "value", None)))
                        prev = getattr(self, "_current_exc", None)
                        self._current_exc = e
                        try:
                            self.exec_block(h.body, env)
                        finally:
                            self._current_exc = prev
                        break
                else:
                    raise
            else:
                self.exec_block(st.orelse, env)
        except (PyRaise, _Return, _Break, _Continue):
            # finally runs on every exit; an exception in it replaces the pending one
            self.exec_block(st.finalbody, env)
            raise
        else:
            self.exec_block(st.finalbody, env)

    def handler_matches(self, h, e, env):
        if h.type is None:
            return True
        t = self.eval(h.type, env)
        ts = t if isinstance(t, tuple) else (t,)
        for c in ts:
            if not isinstance(c, ExcClass):
                raise Unsupported(f"except {c!r}")
            if exc_is(e.cls, c.name):
                return True
        return False

    def st_With(self, st, env):
        r = self.s.hook("with", self, st, env)
        if r is NotImplemented:
            raise Unsupported("with")

    # ---- assignment -------------------------------------------------------
    def assign(self, target, v, env):
        if isinstance(target, ast.Name):
            env.set(target.id, v)
        elif isinstance(target, (ast.Tuple, ast.List)):
            vals = self.unpack(v, len(target.elts), target)
            for t, x in zip(target.elts, vals):
                self.assign(t, x, env)
        elif isinstance(target, ast.Attribute):
            obj = self.eval(target.value, env)
            self.setattr(obj, target.attr, v, target)
        elif isinstance(target, ast.Subscript):
            obj = self.eval(target.value, env)
            idx = self.eval_index(target.slice, env)
            self.setitem(obj, idx, v, target, env)
        else:
            raise Unsupported(f"assignment target {type(target).__name__}")

    def unpack(self, v, n, node):
        if isinstance(v, (tuple, list)):
            if len(v) != n:
                self.raise_("ValueError", node, implicit="unpack")
            return list(v)
        if isinstance(v, SymSeq):
            if not self.decide(v.length == n):
                self.raise_("ValueError", node, implicit="unpack")
            return [v.get(i) for i in range(n)]
        r = self.s.hook("unpack", self, v, n, node)
        if r is not NotImplemented:
            return r
        raise Unsupported(f"unpack of {v!r}")

    def setattr(self, obj, name, v, node):
        r = self.s.hook("setattr", self, obj, name, v, node)
        if r is not NotImplemented:
            return
        if isinstance(obj, SymObj):
            if obj.frozen:
                self.raise_("AttributeError", node, implicit="frozen")
            obj.fields[name] = v
            return
        raise Unsupported(f"attribute assignment on {obj!r}")

    def setitem(self, obj, idx, v, node, env):
        r = self.s.hook("setitem", self, obj, idx, v, node)
        if r is not NotImplemented:
            return
        if isinstance(obj, SymSeq) and obj.kind == "list":
            # local list (value semantics; DESIGN 3.4: assumes the list is not aliased)
            if not isinstance(node.value, ast.Name):
                raise Unsupported("list item assignment through a non-local")
            n = obj.length
            self.p.oblige(self.oid(node, "index"), "index", z3.And(idx >= -0, idx < n) if is_z3(idx) or is_z3(n) else (0 <= idx < n),
                          self.where(node), "list index in range")
            self.p.assume(z3.And(idx >= 0, idx < n) if (is_z3(idx) or is_z3(n)) else True)
            old = obj

            def get(i, old=old, idx=idx, v=v):
                c = simp(i == idx)
                if c is True:
                    return v
                if c is False:
                    return old.get(i)
                return z3.If(c, v, old.get(i))

            env.set(node.value.id, SymSeq(n, get, "list"))
            return
        raise Unsupported(f"item assignment on {obj!r}")

    # ---- loops ------------------------------------------------------------
    def st_For(self, st, env):
        it = self.eval(st.iter, env)
        r = self.s.hook("summarize_loop", self, st, env, it)
        if r is not NotImplemented:
            return
        plan = self.iter_plan(it)
        if plan[0] == "concrete":
            broke = False
            for x in plan[1]:
                self.assign(st.target, x, env)
                try:
                    self.exec_block(st.body, env)
                except _Break:
                    broke = True
                    break
                except _Continue:
                    continue
            if not broke:
                self.exec_block(st.orelse, env)
            return
        if plan[0] == "abstract":
            return self.abstract_loop(st, env, plan[1])
        _, n, elem = plan[0], plan[1], plan[2]
        self.symbolic_loop(st, env, n=n, elem=elem)

    def st_While(self, st, env):
        # concrete unrolling is attempted only when the condition is concretely
        # decidable; otherwise an invariant is required
        inv = self.s.loop_invariant(self.frame, st)
        if inv is None:
            guard = 0
            while True:
                c = self.truth(self.eval(st.test, env))
                c = simp(c)
                if not isinstance(c, bool):
                    raise Unsupported(f"while loop without invariant at line {st.lineno} ({self.frame.qualname})")
                if not c:
                    self.exec_block(st.orelse, env)
                    return
                guard += 1
                if guard > 64:
                    raise Unsupported("concrete while loop exceeds 64 iterations")
                try:
                    self.exec_block(st.body, env)
                except _Break:
                    return
                except _Continue:
                    continue
        self.symbolic_loop(st, env, n=None, elem=None)

    def symbolic_loop(self, st, env, n, elem):
        """Hoare rule for a loop with invariant.
        for-loop: index k with 0<=k<=n, Inv(k); body with element k; Inv(k+1).
        while-loop: Inv; cond; body; Inv."""
        inv = self.s.loop_invariant(self.frame, st)
        if inv is None:
            raise Unsupported(f"loop without invariant at line {st.lineno} ({self.frame.qualname})")
        lab = self.oid(st)
        view = LoopView(self, env)
        # entry
        g = inv(0 if n is not None else None, view)
        self._oblige_inv(lab + ":inv_entry", "loop_inv_entry", g, st, "invariant holds on entry")
        # havoc
        self.s.havoc_loop(self, st, env, inv)
        if n is not None:
            k = self.p.fresh("k", "int")
            self.p.assume(z3.And(k >= 0, k <= n))
        else:
            k = None
        self.p.assume(self._inv_formula(inv(k, LoopView(self, env))))
        if n is not None:
            cont = self.decide(k < n)
        else:
            cont = self.test(self.eval(st.test, env))
        if cont:
            if n is not None:
                self.assign(st.target, elem(k), env)
            try:
                self.exec_block(st.body, env)
            except _Continue:
                pass
            except _Break:
                return  # leaves the loop from here, orelse skipped
            g = inv(simp(k + 1) if k is not None else None, LoopView(self, env))
            self._oblige_inv(lab + ":inv_preserved", "loop_inv_preserved", g, st, "invariant preserved by the body")
            raise PathEnd()
        else:
            if n is not None:
                self.p.assume(k == n)
            self.exec_block(st.orelse, env)

    def _oblige_inv(self, oid, kind, g, st, note):
        """an invariant may be given clause by clause (dict): one obligation per clause"""
        if isinstance(g, dict):
            for name, f in g.items():
                self.p.oblige(f"{oid}:{name}", kind, f, self.where(st), f"{note} (clause {name})")
        else:
            self.p.oblige(oid, kind, g, self.where(st), note)

    @staticmethod
    def _inv_formula(g):
        return S.And(*g.values()) if isinstance(g, dict) else g

    def abstract_loop(self, st, env, coll):
        """loop over a collection known only through a membership predicate (dict items,
        all simulators, ...): iteration order is arbitrary.  Rule with a ghost set `seen` of the
        elements processed so far (available to the invariant as v.seen):
          Inv(seen = {}) on entry; havoc; assume Inv(seen), seen within the collection;
          either one more iteration with an ARBITRARY member not in seen, then Inv(seen + {e});
          or exit with Inv(seen) and seen = the whole collection."""
        inv = self.s.loop_invariant(self.frame, st)
        if inv is None:
            raise Unsupported(f"loop over an abstract collection without invariant at line {st.lineno} ({self.frame.qualname})")
        lab = self.oid(st)
        key_sort = getattr(coll, "key_sort", None)
        seen = z3.K(key_sort, z3.BoolVal(False)) if key_sort is not None else None
        self._oblige_inv(lab + ":inv_entry", "loop_inv_entry", inv(None, LoopView(self, env, seen)), st, "invariant holds on entry")
        self.s.havoc_loop(self, st, env, inv)
        if key_sort is not None:
            seen = self.p.fresh("seen", z3.ArraySort(key_sort, z3.BoolSort()))
            x = z3.Const(f"e!seen{next(self.p.names)}", key_sort)
            self.p.assume(z3.ForAll([x], z3.Implies(seen[x], coll.member(x))))
        self.p.assume(self._inv_formula(inv(None, LoopView(self, env, seen))))
        more = self.p.fresh("iterate", "bool")
        if self.decide(more):
            item = coll.arbitrary(self)
            if key_sort is not None:
                k = coll.key_of(item)
                self.p.assume(z3.And(coll.member(k), z3.Not(seen[k])))
                seen = z3.Store(seen, k, True)
            self.assign(st.target, item, env)
            try:
                self.exec_block(st.body, env)
            except _Continue:
                pass
            except _Break:
                return
            self._oblige_inv(lab + ":inv_preserved", "loop_inv_preserved", inv(None, LoopView(self, env, seen)), st,
                             "invariant preserved by the body (for an arbitrary element)")
            ip = self.s.loop_iter_post(self.frame, st)
            if ip is not None:
                self.p.oblige(lab + ":iteration_effect", "loop_iteration_effect", ip(LoopView(self, env, seen)), self.where(st),
                              "effect of one iteration on its (arbitrary) element")
            raise PathEnd()
        else:
            if key_sort is not None:
                x = z3.Const(f"e!all{next(self.p.names)}", key_sort)
                self.p.assume(z3.ForAll([x], z3.Implies(coll.member(x), seen[x])))
            self.exec_block(st.orelse, env)

    def iter_plan(self, it):
        """-> ('concrete', [values]) or ('sym', n, elem_at)"""
        if isinstance(it, (tuple, list)):
            return ("concrete", list(it))
        if isinstance(it, range):
            return ("concrete", list(it))
        if isinstance(it, SymSeq):
            if isinstance(it.length, int):
                return ("concrete", [it.get(i) for i in range(it.length)])
            return ("sym", it.length, it.get)
        if isinstance(it, SymGen):
            if it.cond is not None:
                raise Unsupported("iteration over filtered generator")
            if isinstance(it.n, int):
                return ("concrete", [it.elem(i) for i in range(it.n)])
            return ("sym", it.n, it.elem)
        r = self.s.hook("iter_plan", self, it)
        if r is not NotImplemented:
            return r
        raise Unsupported(f"iteration over {it!r}")

    # ---- expressions --------------------------------------------------------
    def eval(self, e, env):
        m = getattr(self, "ex_" + type(e).__name__, None)
        if m is None:
            raise Unsupported(f"expression {type(e).__name__} at line {getattr(e, 'lineno', '?')}")
        return m(e, env)

    def ex_Constant(self, e, env):
        if isinstance(e.value, float):
            return self.s.float_const(e.value)
        return e.value

    def ex_Name(self, e, env):
        try:
            return env.lookup(e.id)
        except KeyError:
            pass
        return self.s.global_name(self, e.id, env, e)

    def ex_NamedExpr(self, e, env):
        v = self.eval(e.value, env)
        env.set(e.target.id, v)
        return v

    def ex_Tuple(self, e, env):
        out = []
        for x in e.elts:
            if isinstance(x, ast.Starred):
                v = self.eval(x.value, env)
                if isinstance(v, (tuple, list)):
                    out.extend(v)
                else:
                    sv = as_seq(v)
                    if isinstance(sv.length, int):
                        out.extend(sv.get(i) for i in range(sv.length))
                    else:
                        # symbolic splice: build a SymSeq
                        return self._splice(e.elts, env, "tuple")
            else:
                out.append(self.eval(x, env))
        return tuple(out)

    def ex_List(self, e, env):
        r = self.s.hook("list_display", self, e, env)
        if r is not NotImplemented:
            return r
        t = self.ex_Tuple(e, env)
        if isinstance(t, SymSeq):
            return SymSeq(t.length, t.get, "list")
        return SymSeq.from_tuple(t, "list")

    def _splice(self, elts, env, kind):
        acc = SymSeq.from_tuple((), kind)
        for x in elts:
            if isinstance(x, ast.Starred):
                acc = seq_concat(acc, as_seq(self.eval(x.value, env)))
            else:
                acc = seq_concat(acc, SymSeq.from_tuple((self.eval(x, env),)))
        acc.kind = kind
        return acc

    def ex_Dict(self, e, env):
        r = self.s.hook("dict_display", self, e, env)
        if r is not NotImplemented:
            return r
        if not e.keys:
            return {}
        raise Unsupported("dict display")

    def ex_Set(self, e, env):
        r = self.s.hook("set_display", self, e, env)
        if r is not NotImplemented:
            return r
        raise Unsupported("set display")

    def ex_JoinedStr(self, e, env):
        mentions = []
        for v in e.values:
            if isinstance(v, ast.FormattedValue):
                mentions.append(ast.unparse(v.value))
        return Opaque("fstring", mentions)

    def ex_IfExp(self, e, env):
        c = simp(self.truth(self.eval(e.test, env)))
        if self.pure_depth and not isinstance(c, bool):
            # element expression: no forking -- evaluate both arms under their condition, merge
            vals = []
            for cond, arm in ((c, e.body), (z3.Not(c), e.orelse)):
                self.p.solver.push()
                saved = len(self.p.pc)
                try:
                    self.p.assume(cond)
                    vals.append(self.eval(arm, env))
                finally:
                    del self.p.pc[saved:]
                    self.p.solver.pop()
            return self.merge(c, vals[0], vals[1])
        if self.decide(c):
            return self.eval(e.body, env)
        return self.eval(e.orelse, env)

    def merge(self, c, a, b):
        """If(c, a, b) on interpreter values"""
        r = self.s.hook("merge", self, c, a, b)
        if r is not NotImplemented:
            return r
        if a is b:
            return a
        if (is_int_like(a) or is_bool_like(a)) and (is_int_like(b) or is_bool_like(b)):
            if is_bool_like(a) and is_bool_like(b):
                return z3.If(c, a if is_z3(a) else z3.BoolVal(a), b if is_z3(b) else z3.BoolVal(b))
            return z3.If(c, _toint(a), _toint(b))
        if is_z3(a) and is_z3(b) and a.sort() == b.sort():
            return z3.If(c, a, b)
        raise Unsupported(f"cannot merge {a!r} and {b!r} in a conditional element expression")

    def ex_Lambda(self, e, env):
        return Func(e, self.frame.func.module, f"{self.frame.qualname}.<lambda>", closure=env)

    def ex_Await(self, e, env):
        # `await f(...)` on an in-repo coroutine function runs f's body in the same task: it is
        # inlined; its own awaits are the cut points.  Awaiting a primitive (a Coro value created
        # by a modelled external / library call) is a cut point: see the model's `suspend`.
        self._awaiting = getattr(self, "_awaiting", 0) + 1
        try:
            v = self.eval(e.value, env)
        finally:
            self._awaiting -= 1
        r = self.s.hook("await_value", self, v, e, env)
        if r is not NotImplemented:
            return r
        return v

    def ex_Yield(self, e, env):
        # a generator function under contract (e.g. a @contextmanager): what happens while it is suspended is the model's business
        r = self.s.hook("yield_value", self, e, env)
        if r is NotImplemented:
            raise Unsupported("yield")
        return r

    def ex_BoolOp(self, e, env):
        is_and = isinstance(e.op, ast.And)
        v = None
        for i, x in enumerate(e.values):
            v = self.eval(x, env)
            if i == len(e.values) - 1:
                return v
            t = self.truth(v)
            t = simp(t)
            if isinstance(t, bool):
                if is_and and not t:
                    return v
                if (not is_and) and t:
                    return v
                continue
            if self.pure_depth:
                # element expression / filter: no forking; the result is used for its truth value:
                # evaluate the rest under the condition that makes it be evaluated at all
                rest_e = ast.BoolOp(op=e.op, values=e.values[i + 1:]) if len(e.values) - i - 1 > 1 else e.values[i + 1]
                self.p.solver.push()
                saved = len(self.p.pc)
                try:
                    self.p.assume(t if is_and else z3.Not(t))
                    rv = self.truth(self.eval(rest_e, env))
                finally:
                    del self.p.pc[saved:]
                    self.p.solver.pop()
                return (S.And if is_and else S.Or)(t, rv)
            # symbolic: if the remaining operands are pure, build a formula,
            # otherwise fork
            rest = e.values[i + 1:]
            if all(_is_pure_expr(r) for r in rest) and is_bool_like(v):
                try:
                    self.pure_depth += 1
                    try:
                        rv = [self.truth(self.eval(r, env)) for r in rest]
                    finally:
                        self.pure_depth -= 1
                    return (S.And if is_and else S.Or)(t, *rv)
                except (Unsupported, PyRaise):
                    pass
            d = self.decide(t)
            if is_and and not d:
                return v
            if (not is_and) and d:
                return v
        return v

    def ex_UnaryOp(self, e, env):
        v = self.eval(e.operand, env)
        if isinstance(e.op, ast.Not):
            return S.Not(self.truth(v))
        if isinstance(e.op, ast.USub):
            r = self.s.hook("unop", self, e.op, v)
            if r is not NotImplemented:
                return r
            return simp(-v)
        if isinstance(e.op, ast.UAdd):
            return v
        raise Unsupported("unary op")

    def ex_BinOp(self, e, env):
        a = self.eval(e.left, env)
        b = self.eval(e.right, env)
        return self.binop(e.op, a, b, e)

    _OPNAMES = {ast.Add: "add", ast.Sub: "sub", ast.Mult: "mul", ast.FloorDiv: "floordiv", ast.Mod: "mod",
                ast.BitOr: "or", ast.BitAnd: "and", ast.Div: "truediv", ast.BitXor: "xor"}

    def binop(self, op, a, b, node):
        name = self._OPNAMES.get(type(op))
        if name is None:
            raise Unsupported(f"operator {type(op).__name__}")
        r = self.s.hook("binop", self, name, a, b, node)
        if r is not NotImplemented:
            return r
        # user-defined operators with reflected dispatch
        if isinstance(a, SymObj) or isinstance(b, SymObj):
            if isinstance(a, SymObj) and f"__{name}__" in a.cls.methods:
                r = self.call_function(a.cls.methods[f"__{name}__"], [a, b], {}, node)
                if r is not NOT_IMPLEMENTED:
                    return r
            if isinstance(b, SymObj) and f"__r{name}__" in b.cls.methods:
                r = self.call_function(b.cls.methods[f"__r{name}__"], [b, a], {}, node)
                if r is not NOT_IMPLEMENTED:
                    return r
            self.raise_("TypeError", node, implicit="binop")
        if isinstance(a, Opaque) or isinstance(b, Opaque) or (isinstance(a, str) and name in ("mod", "add")):
            ms = []
            for x in (a, b):
                if isinstance(x, Opaque):
                    ms.extend(x.mentions)
            if isinstance(node, ast.BinOp):
                if not isinstance(a, Opaque) and not isinstance(a, str):
                    ms.append(ast.unparse(node.left))
                if not isinstance(b, Opaque) and not isinstance(b, str):
                    ms.append(ast.unparse(node.right))
            if isinstance(a, str) and isinstance(b, str) and name == "add":
                return a + b
            return Opaque("str", ms)
        if a is None or b is None:
            self.raise_("TypeError", node, implicit="binop on None")
        seqa = isinstance(a, (SymSeq, tuple, list))
        seqb = isinstance(b, (SymSeq, tuple, list))
        if name == "add" and seqa and seqb:
            if isinstance(a, tuple) and isinstance(b, tuple):
                return a + b
            return seq_concat(a, b)
        if name == "mul" and (seqa or seqb):
            s, k = (a, b) if seqa else (b, a)
            if isinstance(s, tuple) and isinstance(k, int):
                return s * k
            return seq_repeat(s, k)
        if is_int_like(a) or is_bool_like(a):
            if is_int_like(b) or is_bool_like(b):
                a, b = _toint(a), _toint(b)
                if name == "add":
                    return simp(a + b)
                if name == "sub":
                    return simp(a - b)
                if name == "mul":
                    return simp(a * b)
                if name in ("floordiv", "mod"):
                    if isinstance(b, int) and b == 0:
                        self.raise_("ZeroDivisionError", node, implicit="div")
                    if is_z3(b):
                        if not self.decide(b != 0):
                            self.raise_("ZeroDivisionError", node, implicit="div")
                    # Python floor division == SMT-LIB div only for positive divisor
                    if isinstance(a, int) and isinstance(b, int):
                        return a // b if name == "floordiv" else a % b
                    if isinstance(b, int) and b > 0:
                        return simp(a / b) if name == "floordiv" else simp(a % b)
                    raise Unsupported("floor division by a symbolic or negative divisor")
        raise Unsupported(f"binop {name} on {type(a).__name__}, {type(b).__name__}")

    def ex_Compare(self, e, env):
        left = self.eval(e.left, env)
        acc = True
        for op, rn in zip(e.ops, e.comparators):
            right = self.eval(rn, env)
            c = self.compare(op, left, right, e)
            acc = S.And(acc, c)
            acc = simp(acc) if is_z3(acc) else acc
            if acc is False:
                return False
            left = right
        return acc

    def compare(self, op, a, b, node):
        if isinstance(op, ast.Is):
            return self.identical(a, b)
        if isinstance(op, ast.IsNot):
            return S.Not(self.identical(a, b))
        if isinstance(op, ast.Eq):
            return self.equal(a, b, node)
        if isinstance(op, ast.NotEq):
            return S.Not(self.equal(a, b, node))
        if isinstance(op, ast.In):
            return self.contains(b, a, node)
        if isinstance(op, ast.NotIn):
            return S.Not(self.contains(b, a, node))
        name = {ast.Lt: "lt", ast.LtE: "le", ast.Gt: "gt", ast.GtE: "ge"}[type(op)]
        return self.order(name, a, b, node)

    def identical(self, a, b):
        r = self.s.hook("identical", self, a, b)
        if r is not NotImplemented:
            return r
        if a is None or b is None:
            if a is None and b is None:
                return True
            other = b if a is None else a
            if is_z3(other):
                r = self.s.hook("is_none", self, other)
                if r is not NotImplemented:
                    return r
            return False
        if isinstance(a, bool) and isinstance(b, bool):
            return a == b
        if isinstance(a, SymObj) and isinstance(b, SymObj):
            return a is b
        if is_z3(a) and is_z3(b) and a.sort() == b.sort():
            return a == b
        if is_bool_like(a) and is_bool_like(b):
            return a == b
        if type(a) in (int, str) and type(b) in (int, str):
            return a == b  # small ints / interned strings: used only for sentinels
        return a is b

    def equal(self, a, b, node=None):
        r = self.s.hook("equal", self, a, b, node)
        if r is not NotImplemented:
            return r
        if a is None or b is None:
            return self.identical(a, b)
        if isinstance(a, SymObj) or isinstance(b, SymObj):
            return self.obj_equal(a, b, node)
        sa = isinstance(a, (SymSeq, tuple, list))
        sb = isinstance(b, (SymSeq, tuple, list))
        if sa and sb:
            if isinstance(a, (tuple, list)) and isinstance(b, (tuple, list)):
                if len(a) != len(b):
                    return False
                return S.And(*[self.equal(x, y, node) for x, y in zip(a, b)])
            return S.seq_eq(as_seq(a), as_seq(b))
        if sa != sb:
            return False
        if isinstance(a, str) and isinstance(b, str):
            return a == b
        if (is_int_like(a) or is_bool_like(a)) and (is_int_like(b) or is_bool_like(b)):
            if is_bool_like(a) and is_bool_like(b):
                return simp(a == b) if (is_z3(a) or is_z3(b)) else a == b
            a, b = _toint(a), _toint(b)
            return simp(a == b) if (is_z3(a) or is_z3(b)) else a == b
        if is_z3(a) and is_z3(b) and a.sort() == b.sort():
            return simp(a == b)
        if isinstance(a, (int, str, bool)) and isinstance(b, (int, str, bool)):
            return a == b
        if isinstance(a, (Func, ClassInfo, Builtin, ExcClass)) or isinstance(b, (Func, ClassInfo, Builtin, ExcClass)):
            return a is b
        raise Unsupported(f"== on {a!r}, {b!r}")

    def obj_equal(self, a, b, node):
        if isinstance(a, SymObj) and "__eq__" in a.cls.methods:
            r = self.call_function(a.cls.methods["__eq__"], [a, b], {}, node)
            if r is not NOT_IMPLEMENTED:
                return self.truth(r)
        if isinstance(b, SymObj) and "__eq__" in b.cls.methods and not (isinstance(a, SymObj) and a.cls is b.cls):
            r = self.call_function(b.cls.methods["__eq__"], [b, a], {}, node)
            if r is not NOT_IMPLEMENTED:
                return self.truth(r)
        if isinstance(a, SymObj) and isinstance(b, SymObj):
            # dataclass-generated __eq__ (DESIGN 3.4): same class -> field-wise tuple equality
            if a.cls.is_dataclass and a.cls.dataclass_eq and "__eq__" not in a.cls.methods:
                if a.cls is not b.cls:
                    return a is b
                return S.And(*[self.equal(a.fields[f], b.fields[f], node) for f in a.cls.fields])
            return a is b
        return False

    def order(self, name, a, b, node):
        r = self.s.hook("order", self, name, a, b, node)
        if r is not NotImplemented:
            return r
        if isinstance(a, SymObj) or isinstance(b, SymObj):
            return self.obj_order(name, a, b, node)
        sa = isinstance(a, (SymSeq, tuple, list))
        sb = isinstance(b, (SymSeq, tuple, list))
        if sa and sb:
            a, b = as_seq(a), as_seq(b)
            if name == "lt":
                return S.lex_lt(a, b)
            if name == "le":
                return S.lex_le(a, b)
            if name == "gt":
                return S.lex_lt(b, a)
            return S.lex_le(b, a)
        if (is_int_like(a) or is_bool_like(a)) and (is_int_like(b) or is_bool_like(b)):
            a, b = _toint(a), _toint(b)
            r = {"lt": lambda: a < b, "le": lambda: a <= b, "gt": lambda: a > b, "ge": lambda: a >= b}[name]()
            return simp(r) if is_z3(r) else r
        raise Unsupported(f"ordering {name} on {a!r}, {b!r}")

    def obj_order(self, name, a, b, node):
        """rich comparison with functools.total_ordering semantics (DESIGN 3.4)"""
        refl = {"lt": "gt", "gt": "lt", "le": "ge", "ge": "le"}
        for x, y, nm in ((a, b, name), (b, a, refl[name])):
            if not isinstance(x, SymObj):
                continue
            meth = f"__{nm}__"
            if meth in x.cls.methods:
                r = self.call_function(x.cls.methods[meth], [x, y], {}, node)
                if r is not NOT_IMPLEMENTED:
                    return self.truth(r)
            elif x.cls.total_ordering:
                # derive from the one defined root operation (here: __lt__)
                root = next((m for m in ("__lt__", "__le__", "__gt__", "__ge__") if m in x.cls.methods), None)
                if root == "__lt__":
                    lt = self.call_function(x.cls.methods["__lt__"], [x, y], {}, node)
                    if lt is NOT_IMPLEMENTED:
                        continue
                    lt = self.truth(lt)
                    if nm == "ge":
                        return S.Not(lt)
                    if nm == "le":
                        # `op_result or self == other`
                        if self.decide(lt):
                            return True
                        return self.equal(x, y, node)
                    if nm == "gt":
                        # `not op_result and self != other`
                        if self.decide(lt):
                            return False
                        return S.Not(self.equal(x, y, node))
                else:
                    raise Unsupported("total_ordering with a root other than __lt__")
        self.raise_("TypeError", node, implicit="order")

    def contains(self, container, item, node):
        r = self.s.hook("contains", self, container, item, node)
        if r is not NotImplemented:
            return r
        if isinstance(container, SymObj) and "__contains__" in container.cls.methods:
            return self.truth(self.call_function(container.cls.methods["__contains__"], [container, item], {}, node))
        if isinstance(container, (tuple, list)):
            return S.Or(*[self.equal(x, item, node) for x in container])
        if isinstance(container, SymSeq):
            return S.exists(0, container.length, lambda j: self.equal(container.get(j), item, node))
        if isinstance(container, (set, frozenset, dict)) and isinstance(item, (str, int)):
            return item in container
        raise Unsupported(f"'in' on {container!r}")

    def ex_Attribute(self, e, env):
        obj = self.eval(e.value, env)
        if isinstance(obj, SymSeq) and obj.kind == "list" and e.attr == "append":
            # list.append on a list with symbolic length: the new list value is stored back to the
            # place the receiver was read from (value semantics, DESIGN 3.4: list not aliased)
            def append(it, node, x, obj=obj, recv=e.value, env=env):
                n = obj.length
                new = SymSeq(simp(n + 1), lambda j, obj=obj, n=n, x=x: _ite(simp(j == n), x, obj.get(j)), "list")
                if hasattr(obj, "elem_sort"):
                    new.elem_sort = obj.elem_sort
                it.assign(_as_store(recv), new, env)
                return None
            return Builtin("list.append", append)
        return self.getattr(obj, e.attr, e)

    def getattr(self, obj, name, node):
        r = self.s.hook("getattr", self, obj, name, node)
        if r is not NotImplemented:
            return r
        if isinstance(obj, SymObj):
            if name in obj.fields:
                return obj.fields[name]
            c = obj.cls
            if name in c.properties:
                return self.call_function(c.methods[name], [obj], {}, node)
            if name in c.methods:
                return BoundMethod(c.methods[name], obj)
            m, owner = c.lookup(name) if c is not None else (None, None)
            if m is not None:
                if name in owner.properties:
                    return self.call_function(m, [obj], {}, node)
                return BoundMethod(m, obj)
            if name == "__class__":
                return c
            self.raise_("AttributeError", node, implicit="attr")
        if isinstance(obj, ClassInfo):
            if name in obj.methods:
                return obj.methods[name]
            if name == "__name__":
                return obj.name
        if isinstance(obj, Namespace):
            return obj.get(self, name, node)
        if isinstance(obj, (str, Opaque)) and name in ("join", "format", "strip", "lower", "upper", "replace", "rstrip", "lstrip"):
            # string building: content abstracted (only which values are mentioned is kept)
            def strop(it, node2, *a, obj=obj, **k):
                ms = list(getattr(obj, "mentions", ()))
                for x in a:
                    ms.extend(getattr(x, "mentions", ()))
                return Opaque("str", ms)
            return Builtin(f"str.{name}", strop)
        if isinstance(obj, ExcValue):
            if name == "args":
                return tuple(obj.args)
            return Opaque("excattr", [name])
        raise Unsupported(f"attribute .{name} of {obj!r} at line {getattr(node, 'lineno', '?')}")

    def eval_index(self, sl, env):
        if isinstance(sl, ast.Slice):
            lo = self.eval(sl.lower, env) if sl.lower is not None else None
            hi = self.eval(sl.upper, env) if sl.upper is not None else None
            if sl.step is not None:
                raise Unsupported("slice step")
            return slice(lo, hi)
        return self.eval(sl, env)

    def ex_Subscript(self, e, env):
        obj = self.eval(e.value, env)
        idx = self.eval_index(e.slice, env)
        return self.getitem(obj, idx, e)

    def getitem(self, obj, idx, node):
        r = self.s.hook("getitem", self, obj, idx, node)
        if r is not NotImplemented:
            return r
        if isinstance(obj, (SymSeq, tuple, list)):
            if isinstance(idx, slice):
                for nm, bnd in (("lo", idx.start), ("hi", idx.stop)):
                    if bnd is not None and not (isinstance(bnd, int) and bnd >= 0):
                        if isinstance(bnd, int):
                            raise Unsupported("negative slice bound")
                        self.p.oblige(self.oid(node, "slice_" + nm), "slice_bound", bnd >= 0, self.where(node),
                                      "slice bound is non-negative (encoder models only non-negative bounds)")
                        self.p.assume(bnd >= 0)
                if isinstance(obj, tuple) and all(isinstance(x, (int, type(None))) for x in (idx.start, idx.stop)):
                    return obj[idx]
                return seq_slice(obj, idx.start, idx.stop)
            if isinstance(obj, (tuple, list)) and isinstance(idx, int):
                if not (-len(obj) <= idx < len(obj)):
                    self.raise_("IndexError", node, implicit="index")
                return obj[idx]
            s = as_seq(obj)
            n = s.length
            if isinstance(idx, int) and idx < 0:
                idx = simp(n + idx)
            inb = simp(z3.And(idx >= 0, idx < n)) if (is_z3(idx) or is_z3(n)) else (0 <= idx < n)
            if self.pure_depth:
                self.check_raise(z3.Not(inb) if is_z3(inb) else (not inb), "IndexError", node, implicit="index")
            elif not self.decide(inb):
                self.raise_("IndexError", node, implicit="index")
            return s.get(idx)
        raise Unsupported(f"subscript on {obj!r}")

    # comprehensions ---------------------------------------------------------
    def _comp(self, e, env, kind):
        r = self.s.hook("comprehension", self, e, env, kind)
        if r is not NotImplemented:
            return r
        if len(e.generators) != 1:
            raise Unsupported("nested comprehension")
        g = e.generators[0]
        it = self.eval(g.iter, env)
        plan = self.iter_plan(it)
        if plan[0] == "concrete":
            out = []
            for x in plan[1]:
                sub = Env({}, env)
                self.assign(g.target, x, sub)
                if all(self.test(self.eval(c, sub)) for c in g.ifs):
                    out.append(self.eval(e.elt, sub))
            return tuple(out)
        n, elem = plan[1], plan[2]

        def at(i, need="elt"):
            sub = Env({}, env)
            self.pure_depth += 1
            try:
                self.assign(g.target, elem(i), sub)
                if need == "elt":
                    return self.eval(e.elt, sub)
                return S.And(*[self.truth(self.eval(c, sub)) for c in g.ifs])
            finally:
                self.pure_depth -= 1

        return SymGen(n, lambda i: at(i, "elt"), (lambda i: at(i, "cond")) if g.ifs else None)

    def ex_GeneratorExp(self, e, env):
        return self._comp(e, env, "gen")

    def ex_ListComp(self, e, env):
        r = self._comp(e, env, "list")
        if isinstance(r, tuple):
            return SymSeq.from_tuple(r, "list")
        if isinstance(r, SymGen):
            if r.cond is not None:
                raise Unsupported("filtered list comprehension over a symbolic range")
            return SymSeq(r.n, r.elem, "list")
        return r

    def ex_SetComp(self, e, env):
        r = self.s.hook("comprehension", self, e, env, "set")
        if r is not NotImplemented:
            return r
        raise Unsupported("set comprehension")

    def ex_DictComp(self, e, env):
        r = self.s.hook("comprehension", self, e, env, "dict")
        if r is not NotImplemented:
            return r
        raise Unsupported("dict comprehension")

    def ex_Starred(self, e, env):
        raise Unsupported("starred expression outside call/display")

    # calls -----------------------------------------------------------------
    def ex_Call(self, e, env):
        fn = self.eval(e.func, env)
        args = []
        star = None
        for a in e.args:
            if isinstance(a, ast.Starred):
                v = self.eval(a.value, env)
                if isinstance(v, (tuple, list)):
                    args.extend(v)
                elif isinstance(v, SymGen) and isinstance(v.n, int) and v.cond is None:
                    args.extend(v.elem(i) for i in range(v.n))
                elif getattr(v, "is_abstract_collection", False):
                    if star is not None or a is not e.args[-1]:
                        raise Unsupported("abstract *args not in last position")
                    star = v
                else:
                    sv = as_seq(v) if not isinstance(v, SymGen) else SymSeq(v.n, v.elem)
                    if isinstance(sv.length, int):
                        args.extend(sv.get(i) for i in range(sv.length))
                    else:
                        if star is not None or a is not e.args[-1]:
                            raise Unsupported("symbolic-length *args not in last position")
                        star = sv
            else:
                args.append(self.eval(a, env))
        kwargs = {}
        for k in e.keywords:
            if k.arg is None:
                v = self.eval(k.value, env)
                if isinstance(v, dict):
                    kwargs.update(v)
                else:
                    raise Unsupported("**kwargs of a symbolic mapping")
            else:
                kwargs[k.arg] = self.eval(k.value, env)
        return self.call(fn, args, kwargs, e, star)

    def call(self, fn, args, kwargs, node, star=None):
        r = self.s.hook("call", self, fn, args, kwargs, node, star)
        if r is not NotImplemented:
            return r
        if isinstance(fn, BoundMethod):
            return self.call(fn.func, [fn.self_val] + list(args), kwargs, node, star)
        if isinstance(fn, Builtin):
            if star is not None:
                return fn.fn(self, node, *args, _star=star, **kwargs)
            return fn.fn(self, node, *args, **kwargs)
        if isinstance(fn, Func):
            return self.call_function(fn, args, kwargs, node, star)
        if isinstance(fn, ClassInfo):
            return self.construct(fn, args, kwargs, node, star)
        if isinstance(fn, ExcClass):
            return ExcValue(fn.name, args)
        raise Unsupported(f"call of {fn!r} at line {getattr(node, 'lineno', '?')}")

    def construct(self, cls, args, kwargs, node, star=None):
        r = self.s.hook("construct", self, cls, args, kwargs, node, star)
        if r is not NotImplemented:
            return r
        obj = SymObj(cls)
        init, _owner = cls.lookup("__init__")
        if init is not None:
            self.call_function(init, [obj] + list(args), kwargs, node, star)
        elif cls.is_dataclass:
            names = list(cls.fields)
            if len(args) > len(names):
                self.raise_("TypeError", node, implicit="arity")
            for n, a in zip(names, args):
                obj.fields[n] = a
            for k, v in kwargs.items():
                if k not in names or k in obj.fields:
                    self.raise_("TypeError", node, implicit="arity")
                obj.fields[k] = v
            if len(obj.fields) != len(names):
                raise Unsupported("dataclass defaults")
        elif args or kwargs:
            self.raise_("TypeError", node, implicit="arity")
        if cls.is_dataclass and cls.dataclass_frozen:
            object.__setattr__(obj, "frozen", True)
        return obj

    def bind_args(self, fn, args, kwargs, node, star=None):
        a = fn.node.args
        params = [p.arg for p in a.posonlyargs + a.args]
        local = {}
        args = list(args)
        if len(args) > len(params):
            if a.vararg is None:
                self.raise_("TypeError", node, implicit="arity")
            extra = tuple(args[len(params):])
            args = args[:len(params)]
            if star is not None:
                local[a.vararg.arg] = seq_concat(SymSeq.from_tuple(extra), star)
            else:
                local[a.vararg.arg] = extra
        elif a.vararg is not None:
            if star is not None:
                if len(args) != len(params):
                    raise Unsupported("symbolic *args overlapping named parameters")
                local[a.vararg.arg] = star
            else:
                local[a.vararg.arg] = ()
        elif star is not None:
            raise Unsupported("symbolic *args into a fixed-arity function")
        for p, v in zip(params, args):
            local[p] = v
        kw = dict(kwargs)
        defaults = a.defaults
        first_default = len(params) - len(defaults)
        denv = fn.closure if fn.closure is not None else self.s.module_env(fn.module)
        for i, p in enumerate(params):
            if p in local:
                if p in kw:
                    self.raise_("TypeError", node, implicit="arity")
                continue
            if p in kw:
                local[p] = kw.pop(p)
            elif i >= first_default:
                local[p] = self.eval(defaults[i - first_default], denv)
            else:
                self.raise_("TypeError", node, implicit="arity")
        for p, d in zip(a.kwonlyargs, a.kw_defaults):
            if p.arg in kw:
                local[p.arg] = kw.pop(p.arg)
            elif d is not None:
                local[p.arg] = self.eval(d, denv)
            else:
                self.raise_("TypeError", node, implicit="arity")
        if kw:
            if a.kwarg is not None:
                local[a.kwarg.arg] = kw
            else:
                self.raise_("TypeError", node, implicit="arity")
        elif a.kwarg is not None:
            local[a.kwarg.arg] = {}
        return local

    def call_with_locals(self, fn, local):
        """entry point of a verification run: parameters bound by name (incl. *args)"""
        parent = fn.closure if fn.closure is not None else self.s.module_env(fn.module)
        a = fn.node.args
        names = [p.arg for p in a.posonlyargs + a.args + a.kwonlyargs]
        if a.vararg:
            names.append(a.vararg.arg)
        if a.kwarg:
            names.append(a.kwarg.arg)
        missing = [n for n in names if n not in local]
        extra = [n for n in local if n not in names]
        if missing or extra:
            raise Unsupported(f"signature of {fn.qualname} changed: contract lacks {missing}, has unknown {extra}")
        env = Env(dict(local), parent)
        self.frames.append(self.s.frame_for(fn))
        try:
            self.exec_block(fn.node.body, env)
            return None
        except _Return as r:
            return r.value
        finally:
            self.frames.pop()

    def call_function(self, fn, args, kwargs, node=None, star=None):
        # contract instead of body?
        if self.frames:
            c = self.s.contract_for_call(self, fn)
            if c is not None:
                return self.s.apply_contract(self, c, fn, args, kwargs, node, star)
        if len(self.frames) > 40:
            raise Unsupported("inlining depth exceeded (recursion needs a contract)")
        if isinstance(fn.node, ast.AsyncFunctionDef) and self.frames and not getattr(self, "_awaiting", 0):
            raise Unsupported(f"coroutine object of {fn.qualname} created without being awaited at once")
        aw_saved = getattr(self, "_awaiting", 0)
        self._awaiting = 0
        try:
            local = self.bind_args(fn, args, kwargs, node, star)
            parent = fn.closure if fn.closure is not None else self.s.module_env(fn.module)
            env = Env(local, parent)
            if isinstance(fn.node, ast.Lambda):
                self.frames.append(self.frames[-1] if self.frames else Frame(fn))
                try:
                    return self.eval(fn.node.body, env)
                finally:
                    self.frames.pop()
            self.frames.append(self.s.frame_for(fn))
            try:
                self.exec_block(fn.node.body, env)
                return None
            except _Return as r:
                return r.value
            finally:
                self.frames.pop()
        finally:
            self._awaiting = aw_saved


# --------------------------------------------------------------------------


class ExcClass:
    def __init__(self, name):
        self.name = name

    def __repr__(self):
        return f"<exc {self.name}>"


class ExcValue:
    def __init__(self, cls, args=(), inner=None):
        self.cls = cls
        self.args = tuple(args)
        self.inner = inner

    def __repr__(self):
        return f"<ExcValue {self.cls} {self.args}>"


class Namespace:
    """a module-like object (imported module or 'object') with named members"""

    def __init__(self, name, members=None, resolver=None):
        self.name = name
        self.members = members or {}
        self.resolver = resolver

    def get(self, interp, attr, node):
        if attr in self.members:
            return self.members[attr]
        if self.resolver is not None:
            return self.resolver(f"{self.name}.{attr}")
        raise Unsupported(f"{self.name}.{attr}")


class MissingLocal(Unsupported, AttributeError):
    pass


class LoopView:
    """what a loop invariant may look at: locals (and parameters) by name"""

    def __init__(self, interp, env, seen=None):
        self._i = interp
        self._env = env
        self.seen = seen

    def __getattr__(self, name):
        try:
            return self._env.lookup(name)
        except KeyError:
            # the invariant speaks about a local the function no longer has: the loop was restructured and the sidecar
            # invariant does not apply -- undecided (the contract's native search still runs), not a checker crash
            raise MissingLocal(f"loop invariant refers to the local {name!r}, which the function does not have (restructured loop)")

    def has(self, name):
        try:
            self._env.lookup(name)
            return True
        except KeyError:
            return False

    def locals(self):
        """the function's own locals (name -> value): lets an invariant find a variable by its role instead of its name"""
        return dict(self._env.local)


def _as_store(node):
    n = ast.parse(ast.unparse(node), mode="eval").body
    n.ctx = ast.Store()
    return n


def _ite(c, a, b):
    """If(c, a, b) on element values (tuples element-wise)"""
    if c is True:
        return a
    if c is False:
        return b
    if isinstance(a, tuple) and isinstance(b, tuple) and len(a) == len(b):
        return tuple(_ite(c, x, y) for x, y in zip(a, b))
    if hasattr(a, "ite"):
        return a.ite(c, b)
    if a is b:
        return a
    if is_z3(a) or is_z3(b):
        return z3.If(c, a, b)
    if a == b:
        return a
    raise Unsupported(f"cannot merge list elements {a!r} / {b!r}")


def _load(target):
    t = ast.parse(ast.unparse(target), mode="eval").body
    return t


def _toint(x):
    if isinstance(x, bool):
        return int(x)
    if is_z3(x) and z3.is_bool(x):
        return z3.If(x, 1, 0)
    return x


def _tobool(x):
    if isinstance(x, bool):
        return x
    return x


def _only_logging(stmts):
    for x in stmts:
        if isinstance(x, ast.Pass):
            continue
        if isinstance(x, ast.Expr) and isinstance(x.value, ast.Constant):
            continue
        if isinstance(x, ast.Expr) and isinstance(x.value, ast.Call) and isinstance(x.value.func, ast.Attribute) \
                and isinstance(x.value.func.value, ast.Name) and x.value.func.value.id == "logger" \
                and x.value.func.attr in ("warning", "info", "debug", "error", "exception"):
            continue
        return False
    return True


def _is_pure_expr(e):
    for n in ast.walk(e):
        if isinstance(n, (ast.Call, ast.Await, ast.NamedExpr, ast.Yield, ast.YieldFrom, ast.Lambda,
                          ast.ListComp, ast.GeneratorExp, ast.SetComp, ast.DictComp, ast.Subscript)):
            return False
    return True
