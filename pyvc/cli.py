"""vcheck: decide one property.

  vcheck <Cxx> [--tier quick|thorough]      exit 0 held / 1 violation / 2 undecided / 3 checker error
  vcheck --replay <file>                      re-run the native replay stored in a replay file
"""
from __future__ import annotations
import argparse
import importlib
import json
import multiprocessing as mp
import os
import subprocess
import sys
import time

VERIF = os.path.dirname(os.path.dirname(os.path.abspath(__file__)))
REPO = os.environ.get("VERIF_REPO", "/repo")
NATIVE_PY = os.environ.get("VERIF_NATIVE_PY", "/venv/bin/python")


# ----------------------------------------------------------------------------- tasks
def _find_instance(module, name):
    mod = importlib.import_module(module)
    for lst in ("CONTRACTS", "LEMMAS", "SCANS", "BOUNDED"):
        for x in getattr(mod, lst, []):
            if type(x).__name__ == name:
                return x
    obj = getattr(mod, name)
    return obj() if isinstance(obj, type) else obj


def _run_task(args):
    task, timeout_ms, tier, seed = args
    from pyvc import run as R
    t0 = time.time()
    try:
        inst = _find_instance(task["module"], task["name"])
        conf = None
        if task.get("configure"):
            conf = getattr(importlib.import_module(task["module"]), task["configure"])
        if task["kind"] == "contract":
            if "variant" in task:
                import copy
                inst = copy.copy(inst)
                inst._only_variant = task["variant"]
            conf_small = None
            if task.get("configure_small"):
                conf_small = getattr(importlib.import_module(task["module"]), task["configure_small"])
            conf_small2 = None
            if task.get("configure_small2"):
                conf_small2 = getattr(importlib.import_module(task["module"]), task["configure_small2"])
            out = R.run_contract(inst, min(timeout_ms, getattr(inst, "max_timeout_ms", timeout_ms)), conf, conf_small, conf_small2)
        elif task["kind"] == "lemma":
            out = R.run_lemma(inst, timeout_ms, conf)
        elif task["kind"] in ("scan", "bounded", "custom"):
            out = inst.run(tier=tier, seed=seed, timeout_ms=timeout_ms)
            out.setdefault("task", f"{task['kind']}:{task['name']}")
            out.setdefault("kind", task["kind"])
            out.setdefault("error", None)
            out.setdefault("info", {})
            out.setdefault("results", [])
        else:
            raise ValueError(task["kind"])
    except Exception as e:  # crash inside the worker
        import traceback
        out = {"task": f"{task['module']}.{task['name']}", "kind": task["kind"], "results": [], "info": {},
               "error": {"type": "crash", "msg": f"{type(e).__name__}: {e}", "tb": traceback.format_exc()}}
    out["module"] = task["module"]
    out["name"] = task["name"]
    if "variant" in task:
        out["variant"] = task["variant"]
    out.setdefault("secs", round(time.time() - t0, 3))
    return out


def _child(conn, args):
    try:
        conn.send(_run_task(args))
    except BaseException as e:  # noqa: BLE001
        conn.send({"task": f"{args[0].get('module')}.{args[0].get('name')}", "kind": args[0].get("kind"), "results": [], "info": {},
                   "module": args[0].get("module"), "name": args[0].get("name"),
                   "error": {"type": "crash", "msg": f"{type(e).__name__}: {e}"}})
    finally:
        conn.close()


def _run_all(arglist, nproc, hard_s):
    ctx = mp.get_context("fork")
    results = [None] * len(arglist)
    running = {}
    nxt = 0
    while nxt < len(arglist) or running:
        while nxt < len(arglist) and len(running) < nproc:
            rd, wr = ctx.Pipe(False)
            p = ctx.Process(target=_child, args=(wr, arglist[nxt]))
            p.start()
            wr.close()
            running[nxt] = (p, rd, time.time())
            nxt += 1
        progressed = False
        for i, (p, rd, t0) in list(running.items()):
            task = arglist[i][0]
            got = None
            try:
                if rd.poll(0):
                    got = rd.recv()
            except (EOFError, OSError):
                got = {"task": f"{task.get('module')}.{task.get('name')}", "kind": task.get("kind"), "results": [], "info": {},
                       "module": task.get("module"), "name": task.get("name"),
                       "error": {"type": "crash", "msg": "worker process died without a result"}}
            if got is None and time.time() - t0 > hard_s:
                p.terminate()
                got = {"task": f"{task.get('module')}.{task.get('name')}", "kind": task.get("kind"), "results": [], "info": {},
                       "module": task.get("module"), "name": task.get("name"),
                       "error": {"type": "unsupported", "msg": f"wall-clock limit of {hard_s} s for one task exceeded (a solver call did not "
                                                               "come back); nothing is concluded from it"}}
            if got is not None:
                results[i] = got
                p.join(5)
                if p.is_alive():
                    p.kill()
                rd.close()
                del running[i]
                progressed = True
        if not progressed:
            time.sleep(0.05)
    return results


# ----------------------------------------------------------------------------- native side
def native(req, timeout=300):
    env = dict(os.environ)
    env["PYTHONPATH"] = f"{VERIF}:{REPO}"
    env.pop("MOSAIK_VERIF", None)
    try:
        p = subprocess.run([NATIVE_PY, os.path.join(VERIF, "native", "replay.py")], input=json.dumps(req),
                           capture_output=True, text=True, timeout=timeout, env=env, cwd=REPO)
    except subprocess.TimeoutExpired:
        return {"status": "error", "desc": "native replay timed out"}
    try:
        txt = p.stdout
        if "@@PYVC-JSON@@" in txt:
            txt = txt.rsplit("@@PYVC-JSON@@", 1)[1]
        return json.loads(txt)
    except Exception:
        return {"status": "error", "desc": f"native runner produced no JSON: {p.stdout[-500:]} {p.stderr[-1500:]}"}


# ----------------------------------------------------------------------------- main
def load_known(prop):
    path = os.path.join(VERIF, "known_findings.json")
    if not os.path.exists(path):
        return []
    with open(path) as fh:
        data = json.load(fh)
    return [e for e in data.get("findings", []) if e.get("property") == prop]


def check(prop, tier, seed):
    t0 = time.time()
    P = importlib.import_module(f"props.{prop}")
    # final z3 attempt per obligation (after the short multi-seed attempts): generous even in the quick tier, so that a busy
    # machine does not turn a provable obligation into "undecided" (it only costs time on obligations that are NOT proved)
    timeout_ms = int(os.environ.get("VERIF_TIMEOUT_MS", "30000" if tier == "quick" else "120000"))
    tasks = P.tasks(tier)
    nproc = min(len(tasks), int(os.environ.get("VERIF_JOBS", "16"))) or 1
    # one process per task, with a hard wall-clock limit: a solver call that ignores its time-out must not hang the check
    hard_s = int(os.environ.get("VERIF_TASK_LIMIT_S", "1200" if tier == "quick" else "3600"))
    outs = _run_all([(t, timeout_ms, tier, seed) for t in tasks], nproc, hard_s)

    # evidence of the registered checks is written for /repo only; development runs against a scratch
    # copy (VERIF_REPO) must not overwrite it
    evdir = os.path.join(VERIF, "evidence") if os.path.abspath(REPO) == "/repo" else os.path.join(VERIF, "out", "evidence_dev")
    os.makedirs(evdir, exist_ok=True)
    # (same for replay files: scratch-copy runs -- dev aids and the thorough self-test -- keep theirs apart)
    rpdir = os.path.join(VERIF, "replays", prop) if os.path.abspath(REPO) == "/repo" else os.path.join(VERIF, "out", "replays_dev", prop)
    os.makedirs(rpdir, exist_ok=True)

    n_obl = n_dis = n_inst = 0
    slowest = []
    by_backend = {}
    solver_time = 0.0
    refuted, unknown, errors, vacuity = [], [], [], []
    functions, lemmas, bounded, samples = [], [], [], []
    discharged_ids = []
    for out in outs:
        if out.get("error"):
            errors.append(out)
            continue
        info = out.get("info", {})
        if out["kind"] == "contract":
            functions.append({**out.get("source", {}), "contract": f"{out['module']}.{out['name']}" + (f"[variant {out['variant']}]" if "variant" in out else ""),
                              "paths": info.get("paths"), "obligations": len(out["results"])})
            if info.get("requires_sat") is False:
                vacuity.append(f"{out['task']}: precondition unsatisfiable")
            if not out["results"]:
                vacuity.append(f"{out['task']}: zero obligations generated")
            if info.get("feasible_returns", 0) + sum(info.get("feasible_raises", {}).values()) == 0:
                vacuity.append(f"{out['task']}: no feasible path reaches the end of the function")
        elif out["kind"] == "lemma":
            lemmas.append(out["task"])
            if info.get("hypotheses_sat") == "unsat":
                vacuity.append(f"{out['task']}: hypotheses unsatisfiable")
        elif out["kind"] == "bounded":
            bounded.append(out.get("bounded", {"task": out["task"]}))
        for r in out["results"]:
            if out["kind"] == "bounded":
                # bounded stand-ins are never counted as obligations / discharged
                if r["status"] == "refuted":
                    refuted.append((out, r))
                continue
            n_obl += 1
            n_inst += r.get("n_paths", 1)
            solver_time += r.get("secs", 0.0)
            slowest.append((round(r.get("secs", 0.0), 2), r["oid"], r.get("solver")))
            for b in (r.get("solver") or "").split("+"):
                if b:
                    by_backend[b] = by_backend.get(b, 0) + 1
            if r["status"] == "discharged":
                n_dis += 1
                discharged_ids.append(r["oid"])
            elif r["status"] == "refuted":
                refuted.append((out, r))
            else:
                unknown.append((out, r))
            if len(samples) < 12 and (r["status"] != "discharged" or len(samples) < 8):
                samples.append({"obligation": r["oid"], "kind": r["kind"], "status": r["status"],
                                "where": r.get("where"), "note": r.get("note"), "solver": r.get("solver"),
                                "instances": r.get("n_paths", 1)})

    # lemma provenance: a lemma that uses another one is only valid if that one is discharged
    used_missing = []
    for t in tasks:
        if t["kind"] == "lemma":
            inst = _find_instance(t["module"], t["name"])
            for u in getattr(inst, "uses", []):
                if f"lemma:{u}" not in discharged_ids:
                    used_missing.append(f"lemma:{inst.name} uses lemma:{u}, which is not discharged in this run")

    lines = []
    violations = 0
    exit_code = 0

    # --- refuted obligations: replay natively -----------------------------------
    seen_replay = set()
    for out, r in refuted:
        violations += 1
        rp = os.path.join(rpdir, _safe(r["oid"]) + ".json")
        req = {"module": out["module"], "name": out["name"]}
        nat = None
        if r.get("replay") is not None:
            nat = r["replay"]  # bounded / custom tasks replay themselves
        else:
            if r.get("model") is not None:
                nat = native({**req, "mode": "model", "model": r["model"]})
            if nat is None or nat.get("status") != "fails":
                nat2 = native({**req, "mode": "search", "budget": 20000 if tier == "quick" else 200000})
                if nat2.get("status") == "fails" or nat is None:
                    nat = nat2
        reproduced = bool(nat and nat.get("status") == "fails")
        doc = {"property": prop, "obligation": r["oid"], "kind": r["kind"], "where": r.get("where"),
               "note": r.get("note"), "task": req, "solver": r.get("solver"), "solver_output": r.get("detail"),
               "counter_model": r.get("model"), "native_replay": nat, "reproduced_on_real_code": reproduced,
               "repo": REPO, "tier": tier}
        if out.get("kind") == "bounded":
            doc["bounded_stand_in"] = out.get("bounded", {}).get("stand_in")
        with open(rp, "w") as fh:
            json.dump(doc, fh, indent=1, default=str)
        suffix = "" if reproduced else " no-failing-input-found"
        lines.append(f"VIOLATION property={prop} replay={rp}{suffix}")
        lines.append(f"  obligation {r['oid']} ({r['kind']}) refuted by {r.get('solver')}: {r.get('note')}")
        if nat:
            lines.append(f"  native replay: {nat.get('status')}: {str(nat.get('desc'))[:300]}")
        exit_code = 1

    # --- known findings: replay their witnesses -----------------------------------
    known_lines = []
    for e in load_known(prop):
        if e.get("status") == "fixed":
            continue
        w = e["witness"]
        nat = native({"module": w["module"], "name": w["callable"], "mode": "finding", "model": w["model"]})
        if nat.get("status") == "fails":
            known_lines.append(f"KNOWN-FINDING: property={prop} {e['id']}: {e['what_fails']} [{nat.get('desc', '')[:200]}]")
        elif nat.get("status") == "error":
            errors.append({"task": "known-finding " + e["id"], "error": {"type": "crash", "msg": nat.get("desc")}})
    lines.extend(known_lines)

    # --- undecided obligations: a native small-scope search of the same contract may still
    #     exhibit a failing input of the real function (then it is a violation with replay)
    searched = {}
    # --- every contract's native small-scope search runs on every check (in parallel): the contract is evaluated natively
    #     on a small enumerated family of concrete inputs of the REAL function, built through the real constructors and public
    #     entry points -- so a change in the surroundings of a verified function (a constructor, a caller that prepares its
    #     arguments) that makes the real behaviour leave the contract is noticed too.  Bounded, labelled so, never counted
    #     among the obligations.
    keys = []
    for out in outs:
        if out.get("kind") == "contract" and out.get("module") and out.get("name"):
            k = (out["module"], out["name"])
            if k not in keys and _has_native_search(*k):
                keys.append(k)
    if keys and os.environ.get("VERIF_NO_NATIVE_SEARCH") != "1":
        from concurrent.futures import ThreadPoolExecutor
        with ThreadPoolExecutor(max_workers=min(len(keys), int(os.environ.get("VERIF_JOBS", "16")))) as ex:
            res = list(ex.map(lambda k: native({"module": k[0], "name": k[1], "mode": "search",
                                                "budget": 5000 if tier == "quick" else 100000}, timeout=900), keys))
        searched.update(dict(zip(keys, res)))
    native_searches = []
    reported = set()
    for k, nat in searched.items():
        native_searches.append({"contract": f"{k[0]}.{k[1]}", "tried": nat.get("tried"), "status": nat.get("status"),
                                "label": "bounded (native small-scope search of the contract; not counted as proved)"})
        if nat.get("status") == "error":
            errors.append({"task": f"native search of {k[0]}.{k[1]}", "kind": "native", "error": {"type": "crash", "msg": str(nat.get("desc"))[:400]}})
    still_unknown = []
    for out, r in unknown:
        key = (out["module"], out["name"])
        if key not in searched:
            searched[key] = native({"module": out["module"], "name": out["name"], "mode": "search",
                                    "budget": 5000 if tier == "quick" else 100000})
        nat = searched[key]
        if nat.get("status") == "fails":
            violations += 1
            rp = os.path.join(rpdir, _safe(r["oid"]) + ".json")
            doc = {"property": prop, "obligation": r["oid"], "kind": r["kind"], "where": r.get("where"), "note": r.get("note"),
                   "task": {"module": out["module"], "name": out["name"]}, "solver": r.get("solver"),
                   "solver_output": "undischarged (" + str(r.get("detail")) + "); failing input found by the contract's native small-scope search",
                   "counter_model": nat.get("model"), "native_replay": nat, "reproduced_on_real_code": True, "repo": REPO, "tier": tier}
            with open(rp, "w") as fh:
                json.dump(doc, fh, indent=1, default=str)
            lines.append(f"VIOLATION property={prop} replay={rp}")
            lines.append(f"  obligation {r['oid']} ({r['kind']}) could not be discharged ({r.get('solver')}); the contract fails natively:")
            lines.append(f"  native search: {str(nat.get('desc'))[:300]}")
            exit_code = 1
        else:
            still_unknown.append((out, r))
    unknown = still_unknown
    reported_keys = {(out["module"], out["name"]) for out, r in refuted} | \
        {(out["module"], out["name"]) for out in outs if any(x.get("status") == "refuted" for x in out.get("results", []))}
    for k, nat in searched.items():
        if nat.get("status") != "fails" or any(f"{k[1]}" in ln and "native search" in ln for ln in lines):
            continue
        already = any(ln.startswith("VIOLATION") and _safe(k[1]) in ln for ln in lines)
        violations += 0 if already else 1
        if already:
            continue
        oid = k[1] + ":contract:native-search"
        rp = os.path.join(rpdir, _safe(oid) + ".json")
        doc = {"property": prop, "obligation": oid, "kind": "contract", "task": {"module": k[0], "name": k[1]}, "solver": None,
               "solver_output": "every obligation generated for this function was discharged, but the contract fails natively on an input "
                                "built through the real constructors / entry points (a change outside the verified function)",
               "counter_model": nat.get("model"), "native_replay": nat, "reproduced_on_real_code": True, "repo": REPO, "tier": tier}
        with open(rp, "w") as fh:
            json.dump(doc, fh, indent=1, default=str)
        lines.append(f"VIOLATION property={prop} replay={rp}")
        lines.append(f"  contract {k[0]}.{k[1]} fails natively:")
        lines.append(f"  native search: {str(nat.get('desc'))[:300]}")
        exit_code = 1

    # --- undecided / errors ---------------------------------------------------------
    for out, r in unknown:
        ss = "; ".join(f"{x['scope'][:22]}: {x['status_of_open'].get(r['oid'])}" for x in out.get("info", {}).get("small_scopes", []))
        lines.append(f"UNDECIDED property={prop} obligation={r['oid']} reason={r.get('detail', '')[:200]}"
                     + (f" | small scope: {ss}" if ss else ""))
        if exit_code == 0:
            exit_code = 2
    for msg in used_missing:
        lines.append(f"UNDECIDED property={prop} {msg}")
        if exit_code == 0:
            exit_code = 2
    for out in errors:
        e = out["error"]
        if e["type"] == "unsupported":
            # the function uses a construct outside the verified subset: no obligation could be generated.  The contract's
            # native small-scope search may still exhibit a failing input of the real function.
            nat = None
            if out.get("module") and out.get("name") and out.get("kind") == "contract":
                key = (out["module"], out["name"])
                if key not in searched:
                    searched[key] = native({"module": out["module"], "name": out["name"], "mode": "search",
                                            "budget": 5000 if tier == "quick" else 100000})
                nat = searched[key]
            if nat is not None and nat.get("status") == "fails":
                violations += 1
                oid = out["task"].split(".")[-1] + ":contract:native-search"
                rp = os.path.join(rpdir, _safe(oid) + ".json")
                doc = {"property": prop, "obligation": oid, "kind": "contract", "task": {"module": out["module"], "name": out["name"]},
                       "solver": None, "solver_output": "no obligations generated (unsupported construct: " + e["msg"][:200] + "); failing input "
                       "found by the contract's native small-scope search", "counter_model": nat.get("model"), "native_replay": nat,
                       "reproduced_on_real_code": True, "repo": REPO, "tier": tier}
                with open(rp, "w") as fh:
                    json.dump(doc, fh, indent=1, default=str)
                lines.append(f"VIOLATION property={prop} replay={rp}")
                lines.append(f"  contract of {out['task']} could not be checked deductively (unsupported: {e['msg'][:120]}); it fails natively:")
                lines.append(f"  native search: {str(nat.get('desc'))[:300]}")
                exit_code = 1
                continue
            lines.append(f"UNDECIDED property={prop} task={out['task']} reason=unsupported: {e['msg'][:300]}")
            if exit_code == 0:
                exit_code = 2
        else:
            lines.append(f"CHECKER-ERROR property={prop} task={out['task']} {e['msg'][:300]}")
            if e.get("tb"):
                sys.stderr.write(e["tb"] + "\n")
            if exit_code in (0, 2):
                exit_code = 3
    for v in vacuity:
        lines.append(f"CHECKER-ERROR property={prop} vacuity guard failed: {v}")
        if exit_code in (0, 2):
            exit_code = 3
    if n_obl == 0:
        lines.append(f"CHECKER-ERROR property={prop} zero obligations")
        exit_code = exit_code or 3

    st = None
    if tier == "thorough" and not os.environ.get("VERIF_SELFTEST") and os.environ.get("VERIF_NO_SELFTEST") != "1":
        st = selftest(prop)
        for h in st["harmless_edits"]:
            if h["status"] == "FALSE-ALARM":
                lines.append(f"CHECKER-ERROR property={prop} self-test: harmless edit {h['id']} ({h.get('why')}) raises an alarm: {h.get('first')}")
                if exit_code in (0, 2):
                    exit_code = 3
        cc = st.get("encoder_crosscheck")
        if cc and cc.get("disagreements"):
            lines.append(f"CHECKER-ERROR property={prop} self-test: the encoder disagrees with CPython on concrete inputs: {cc.get('first')}")
            if exit_code in (0, 2):
                exit_code = 3
        nd = [x["id"] for x in st["seeded_changes"] if x["status"] == "not-detected"]
        print(f"self-test: seeded changes {[(x['id'], x['status']) for x in st['seeded_changes']]}; harmless edits "
              f"{[(x['id'], x['status']) for x in st['harmless_edits']]}")
    wall = time.time() - t0
    level = getattr(P, "LEVEL", "proof")
    if level == "exploration":
        # a property decided by bounded stand-ins only: reported as what it is (exhaustive small-scope exploration)
        ev_cases = sum(int(b.get("cases") or 0) for b in bounded)
        ev_nontriv = sum(int(b.get("nontrivial") if b.get("nontrivial") is not None else (b.get("cases") or 0)) for b in bounded)
        lines[:] = [ln for ln in lines if "zero obligations" not in ln]
        if exit_code == 3 and n_obl == 0 and not errors and not vacuity:
            exit_code = 1 if violations else 0
        ev = {"property_id": prop, "tier": tier, "seed": seed, "level": "exploration",
              "coverage": {"evaluations": ev_cases, "distinct_nontrivial": ev_nontriv,
                           "rule": getattr(P, "RULE", "cases are enumerated exhaustively up to the stated bound, each case is distinct by construction"),
                           "samples": [x for b in bounded for x in (b.get("samples") or [])] or [b.get("bound") for b in bounded],
                           "exhaustive": True, "bounded": bounded, "obligations": n_obl, "discharged": n_dis,
                           "functions_under_contract": functions, "by_backend": by_backend, "solver_time_s": round(solver_time, 3),
                           "trusted_base": list(getattr(P, "TRUSTED_BASE", [])),
                           "undecided": [r["oid"] for _, r in unknown] + [o["task"] for o in errors],
                           "known_findings_reported": known_lines,
                           "not_covered": list(getattr(P, "NOT_COVERED", [])), "repo": REPO, "selftest": st, "native_searches": native_searches,
                           "verdict": {0: "held", 1: "violation", 2: "undecided", 3: "checker-error"}[exit_code]},
              "assumptions": list(getattr(P, "ASSUMPTIONS", [])), "wall_s": round(wall, 3), "violations": violations}
        with open(os.path.join(evdir, f"{prop}.json"), "w") as fh:
            json.dump(ev, fh, indent=1, default=str)
        for ln in lines:
            print(ln)
        print(f"{prop} [{tier}] {ev['coverage']['verdict']}: bounded stand-ins only: {ev_cases} cases ({ev_nontriv} non-trivial), "
              f"{violations} failing, {n_dis}/{n_obl} deductive obligations, in {wall:.1f}s")
        return exit_code
    evidence = {
        "property_id": prop,
        "tier": tier,
        "seed": seed,
        "level": "proof",
        "coverage": {
            "obligations": n_obl,
            "discharged": n_dis,
            "obligation_instances_per_path": n_inst,
            "checker_cmd": f"bin/vcheck {prop} --tier {tier}",
            "trusted_base": list(getattr(P, "TRUSTED_BASE", [])),
            "functions_under_contract": functions,
            "lemmas": lemmas,
            "by_backend": by_backend,
            "solver_time_s": round(solver_time, 3),
            "samples": samples,
            "bounded": bounded,
            "not_covered": list(getattr(P, "NOT_COVERED", [])),
            "undecided": [r["oid"] for _, r in unknown] + [o["task"] for o in errors],
            "known_findings_reported": known_lines,
            "selftest": st,
            "native_searches": native_searches,
            "slowest_obligations_s": sorted(slowest, reverse=True)[:5],
            "repo": REPO,
            "verdict": {0: "held", 1: "violation", 2: "undecided", 3: "checker-error"}[exit_code],
        },
        "assumptions": list(getattr(P, "ASSUMPTIONS", [])),
        "wall_s": round(wall, 3),
        "violations": violations,
    }
    with open(os.path.join(evdir, f"{prop}.json"), "w") as fh:
        json.dump(evidence, fh, indent=1, default=str)
    for ln in lines:
        print(ln)
    print(f"{prop} [{tier}] {evidence['coverage']['verdict']}: {n_dis}/{n_obl} obligations discharged "
          f"({n_inst} per-path instances, {len(functions)} functions, {len(lemmas)} lemmas, "
          f"{len(bounded)} bounded stand-ins) in {wall:.1f}s")
    return exit_code


def selftest(prop):
    """thorough tier: validate the check itself on scratch copies of the working tree (created and removed here):
      * every seeded property-breaking change of THIS property under /verif/seeded (confirmed: tests pass, demo
        shows the violation) must make the quick check report a violation;
      * every catalogued harmless edit for this property must NOT (that would be a false alarm)."""
    import glob
    import shutil
    import subprocess
    import tempfile
    res = {"seeded_changes": [], "harmless_edits": []}

    def scratch():
        tmp = tempfile.mkdtemp(prefix="pyvc_self_")
        dst = os.path.join(tmp, "repo")
        shutil.copytree(REPO, dst, ignore=shutil.ignore_patterns(".git", "__pycache__", "*.pyc", ".pytest_cache"))
        return tmp, dst

    def run_on(dst):
        # (the short solver budget is enough here: what matters is whether the change is REPORTED, by a refutation or by the
        #  native search behind an undischarged obligation)
        env = dict(os.environ, VERIF_REPO=dst, VERIF_SELFTEST="1", VERIF_TIER="quick", VERIF_TIMEOUT_MS="10000")
        r = subprocess.run([sys.executable, "-m", "pyvc.cli", prop, "--tier", "quick"], cwd=VERIF, env=env, capture_output=True, text=True,
                           timeout=3600)
        viol = [ln for ln in r.stdout.splitlines() if ln.startswith("VIOLATION")]
        return r.returncode, viol

    if prop == "C08":
        # CPython cross-check of the encoder (DESIGN 5.7 / 13.9): the symbolic executor on concrete inputs of the real tiered_time
        # functions against CPython executing the same file
        try:
            r = subprocess.run([sys.executable, os.path.join(VERIF, "dev", "crosscheck.py"), "400"], cwd=VERIF, capture_output=True, text=True,
                               timeout=900, env=dict(os.environ, PYTHONPATH=VERIF))
            import re as _re
            m = _re.search(r"crosscheck: (\d+) concrete runs compared, (\d+) disagreements, (\d+) outside", r.stdout)
            res["encoder_crosscheck"] = ({"runs": int(m.group(1)), "disagreements": int(m.group(2)), "outside_subset": int(m.group(3)),
                                          "first": next((ln.strip() for ln in r.stdout.splitlines()[1:] if ln.strip()), None)}
                                         if m else {"error": (r.stdout + r.stderr)[-300:]})
        except Exception as e:  # noqa: BLE001
            res["encoder_crosscheck"] = {"error": f"{type(e).__name__}: {e}"}
    verdict = {0: "not-detected", 1: "detected", 2: "undecided", 3: "checker-error"}
    for d in sorted(glob.glob(os.path.join(VERIF, "seeded", prop + "-m*"))):
        patch = os.path.join(d, "patch.diff")
        if not os.path.exists(patch):
            continue
        tmp, dst = scratch()
        try:
            r = subprocess.run(["patch", "-s", "-p1", "--no-backup-if-mismatch", "-i", patch], cwd=dst, capture_output=True, text=True)
            if r.returncode != 0:
                res["seeded_changes"].append({"id": os.path.basename(d), "status": "patch-does-not-apply-to-this-tree"})
                continue
            rc, viol = run_on(dst)
            res["seeded_changes"].append({"id": os.path.basename(d), "status": verdict.get(rc, str(rc)), "violations": len(viol),
                                          "with_failing_input": sum("no-failing-input-found" not in v for v in viol),
                                          "first": (viol[0][:200] if viol else None)})
        finally:
            shutil.rmtree(tmp, ignore_errors=True)
    cat = os.path.join(VERIF, "selftest", "harmless.json")
    edits = json.load(open(cat))["edits"] if os.path.exists(cat) else []
    for e in edits:
        if prop not in e.get("props", []) or e.get("skip"):
            continue
        tmp, dst = scratch()
        try:
            f = os.path.join(dst, e["file"])
            src = open(f).read()
            n = src.count(e["old"])
            if n == 0 or (n != 1 and not e.get("all")):
                res["harmless_edits"].append({"id": e["id"], "status": "pattern-not-found-in-this-tree"})
                continue
            open(f, "w").write(src.replace(e["old"], e["new"]))
            rc, viol = run_on(dst)
            res["harmless_edits"].append({"id": e["id"], "why": e.get("why"), "status": {0: "held", 1: "FALSE-ALARM", 2: "undecided",
                                                                                         3: "checker-error"}.get(rc, str(rc)),
                                          "first": (viol[0][:200] if viol else None)})
        finally:
            shutil.rmtree(tmp, ignore_errors=True)
    return res


def _has_native_search(module, name):
    try:
        inst = _find_instance(module, name)
    except Exception:  # noqa: BLE001
        return False
    return callable(getattr(inst, "native_search", None)) and callable(getattr(inst, "native_call", None))


def _safe(s):
    return "".join(c if c.isalnum() or c in "._-" else "_" for c in s)[:150]


def replay(path):
    with open(path) as fh:
        doc = json.load(fh)
    print(f"replay of {doc['property']} obligation {doc['obligation']}")
    print(f"  solver: {doc.get('solver')} {doc.get('solver_output')}")
    if doc.get("bounded_stand_in"):
        mod, fn = doc["bounded_stand_in"].rsplit(".", 1)
        nat = native({"module": mod, "name": fn, "mode": "bounded", "tier": doc.get("tier", "quick"), "seed": 0}, timeout=1800)
        fails = nat.get("failures", [])
        print(f"  bounded stand-in {doc['bounded_stand_in']} re-run on {REPO}: {nat.get('cases')} cases, {len(fails)} failures")
        for f in fails[:3]:
            print("   ", f.get("desc", "")[:500])
        return 1 if fails else 0
    req = dict(doc["task"])
    nat0 = doc.get("native_replay") or {}
    model = nat0.get("model") or doc.get("counter_model")
    if model is None:
        print("  no failing input stored (no-failing-input-found); obligation and solver output above")
        return 1
    nat = native({**req, "mode": "model", "model": model})
    print(f"  input: {json.dumps(model, default=str)}")
    print(f"  native replay on {REPO}: {nat.get('status')}: {nat.get('desc')}")
    return 1 if nat.get("status") == "fails" else 0


def main(argv=None):
    ap = argparse.ArgumentParser()
    ap.add_argument("prop", nargs="?")
    ap.add_argument("--tier", default=os.environ.get("VERIF_TIER", "quick"), choices=["quick", "thorough"])
    ap.add_argument("--replay")
    a = ap.parse_args(argv)
    sys.path.insert(0, VERIF)
    if a.replay:
        return replay(a.replay)
    if not a.prop:
        ap.error("property id required")
    seed = int(os.environ.get("VERIF_SEED", "0") or 0)
    return check(a.prop, a.tier, seed)


if __name__ == "__main__":
    try:
        rc = main()
    except SystemExit:
        raise
    except BaseException as e:  # a crash of the checker is exit 3, never 1
        import traceback
        traceback.print_exc()
        print(f"CHECKER-ERROR {type(e).__name__}: {e}")
        rc = 3
    sys.exit(rc)
