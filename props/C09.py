"""C09 -- scheduler core (work in progress: metadata filled in below)."""
from props.common import other_tasks, contract_tasks, lemma_tasks, TRUSTED_CORE, SCHED_ASSUMPTIONS

PROPERTY = "C09"


def tasks(tier):
    return contract_tasks("contracts.world_group", "C09") + contract_tasks("contracts.scheduler", "C09", tier=tier) + contract_tasks("contracts.sim_process", "C09", tier=tier) \
        + contract_tasks("contracts.run_prelude", "C09", tier=tier) + contract_tasks("contracts.shutdown", "C09", tier=tier) \
        + contract_tasks("contracts.groups", "C11", tier=tier) + lemma_tasks("contracts.groups", "C11") \
        + contract_tasks("contracts.tiered_time", "C08") + other_tasks("contracts.connect_bounded", "C09", "bounded")


TRUSTED_BASE = TRUSTED_CORE
ASSUMPTIONS = SCHED_ASSUMPTIONS
NOT_COVERED = ["'simulation time then advances normally' is covered as far as C02/C05 go (safety); no liveness"]
LEVEL_TEXT = 'The same-time loop guard in sim_process raises SimulationError naming the simulator IFF some sub-step tier has reached max_loop_iterations (exact condition at the raise site and as ghost assertion at BEGIN); sub-tiers are reset when the time tier advances (delay algebra); loops below the bound are never interrupted (the raise site is unreachable otherwise). scheduler.run passes the first failure on at once (no collecting of failures while the loop partners wait for ever).'
DESIGN_REF = "DESIGN.md section 8 (C09)"
LEVEL_NOTE = 'Proved for any number of simulators, any topology, any reply values and every interleaving, under the listed assumptions (evidence: assumptions, coverage.trusted_base). Trusted: pyvc encoder, the rely/guarantee meta-theorem, assumed contracts of asyncio/heapq, the time/delay algebra axioms (C08 provenance), static connection-table facts, z3/cvc5.'
TECHNIQUE = 'contract-based deductive verification (AST->z3 VCs on the real functions, global invariant, rely/guarantee at awaits)'
CLAIMED = True
NA_REASON = ""
