"""C04 -- Schedule and configuration independence (determinism)."""
from props.common import other_tasks, contract_tasks, lemma_tasks, TRUSTED_CORE

PROPERTY = "C04"
LEVEL = "exploration"


def tasks(tier):
    return (contract_tasks("contracts.merge_ded", "C04") + other_tasks("contracts.determinism_bounded", "C04", "bounded") + other_tasks("contracts.dataplane_bounded", "C04", "bounded")
            + other_tasks("contracts.faults_bounded", "C04", "bounded")
            + contract_tasks("contracts.dataplane", "C04", tier=tier)
            + contract_tasks("contracts.connect", "C04", tier=tier)
            + contract_tasks("contracts.sim_process", "C04", tier=tier, names=["WaitForDependencies"])
            + contract_tasks("contracts.tiered_time", "C08"))


TRUSTED_BASE = TRUSTED_CORE
ASSUMPTIONS = ["simulators are deterministic functions of (time, inputs) and in-process; every interleaving explored is one produced by yields "
               "inside step() (LocalProxy.send awaits what a generator step yields)",
               "for the function contracts: see C01/C03 (cache entries in time order, assumed contracts of asyncio)"]
NOT_COVERED = ["the statement itself is a relation between two whole runs (2-safety over all interleavings): no function contract expresses it; it "
               "is explored on a bounded scenario family only -- nothing is counted as proved for it",
               "remote transport is varied only for one simulator at a time on 1 (thorough: 6) scenarios in the baseline configuration",
               "pen-and-paper composition (not mechanised): the (time, inputs) sequence of a simulator is determined by the scenario and the "
               "simulators' replies because (i) a step begins only when its inputs are complete by tiered time (C01), (ii) steps happen at exactly "
               "the scheduled times, once, in increasing order (C02), (iii) the inputs of a step are a function of the predecessors' outputs up "
               "to that time, independent of arrival order (C03: get_output_for / TimedInputBuffer.get_input / prune contracts), for "
               "lazy_stepping on and off alike (wait_for_dependencies is verified with lazy_stepping symbolic)"]
LEVEL_TEXT = ("BOUNDED exploration of the statement (differential runs of the real scheduler: 17 small scenarios x lazy_stepping x cache x debug x "
              "start order x interleavings, compared by per-simulator (time, inputs) sequences) plus proved function-level clauses that carry the "
              "configuration independence: prune_dataflow_cache keeps every entry a pull can still return (cache on == cache off for pulled "
              "data), get_output_for / TimedInputBuffer.get_input are functions of the stored data only, wait_for_dependencies guarantees the "
              "same readiness with lazy_stepping on or off.")
DESIGN_REF = "DESIGN.md section 8 (C04)"
LEVEL_NOTE = ("Exploration level: the two-run statement is only explored up to the stated bound (evidence: coverage.bounded[].bound); the deductive "
              "obligations listed are clauses about single functions. Found and fixed through this check: F4 (c11a443), F5 (2fee19a), F15 "
              "(67f576d).")
TECHNIQUE = "bounded stand-in (differential runs of the real code) + contract-based deductive verification of the data-path functions"
RULE = ("one case = one (scenario, lazy_stepping, cache, debug, start order, yields per simulator) run compared with the baseline run of the same "
        "scenario; cases are enumerated, hence distinct; a case is non-trivial if the baseline run performs more steps than there are simulators")
CLAIMED = True
NA_REASON = ""
