"""C15 -- API version adaptation."""
from props.common import other_tasks, contract_tasks, TRUSTED_CORE

PROPERTY = "C15"


def tasks(tier):
    return (contract_tasks("contracts.adapters", "C15", tier=tier) + contract_tasks("contracts.proxies", "C15", tier=tier)
            + other_tasks("contracts.adapters_bounded", "C15", "bounded"))


TRUSTED_BASE = TRUSTED_CORE
ASSUMPTIONS = [
    "the wrapped proxy is external: a forwarded request is recorded, its reply is arbitrary",
    "version numbers are int lists of arbitrary length (the deductive contract); parsing 'a.b.c' strings (split / map int) and LocalProxy.init's "
    "signature inspection (inspect, forced old API) are checked by bounded stand-ins with stated bounds",
    "warnings.warn is recorded as a ghost event",
    "LocalProxy.init: mosaik_api_v3.check_api_compliance(sim) is True iff init accepts time_resolution AND step accepts max_advance (assumed contract "
    "of the dependency, read off its source); the simulator's reply to init is arbitrary; extract_version yields some int list of length >= 1",
]
NOT_COVERED = ["'it sees the same scheduling and data as a current-version simulator': follows from the adapters forwarding every other request unchanged (proved) -- not an end-to-end statement", "the default type 'time-based' for a missing type is set in SimRunner.__init__ (not under contract; covered by the bounded end-to-end harness)"]
LEVEL_TEXT = 'V3ToV2Adapter.send: a step request is forwarded without max_advance, EVERY other request unchanged, reply passed back; V2ToV1Adapter.send: setup_done is answered locally and not forwarded, every other request unchanged; init_and_get_adapter: ScenarioError IFF init failed or version >= 4 or the configured api_version differs, otherwise exactly the adapters required by the version (< 2.2: both, < 3: V3ToV2 only, else none), warning iff adapted without explicit version -- for version lists of arbitrary length. LocalProxy.init (contract): exactly one init request, time_resolution never passed to an init that cannot take it and passed to a v3-compliant simulator, ScenarioError IFF a v3 signature is missing and the announced version is >= 3 (check_api_compliance assumed per its source). String parsing and the end-to-end behaviour by bounded stand-ins; every adapter / LocalProxy contract also has a native small-scope search over all request kinds resp. signature combinations. V3ToV2Adapter.meta keeps a declared type and defaults only a missing one; SimRunner\'s request wrappers send exactly the documented request shapes.'
DESIGN_REF = "DESIGN.md section 8 (C15)"
LEVEL_NOTE = 'Function-level proofs for the adapters and the version decision; bounded stand-ins for parsing / signature inspection (coverage.bounded). Trusted: pyvc encoder, z3/cvc5.'
TECHNIQUE = "contract-based deductive verification (adapters' send, version logic of init_and_get_adapter); bounded stand-ins for string parsing and LocalProxy.init"
CLAIMED = True
NA_REASON = ""
