"""C15 -- API version adaptation."""
from props.common import other_tasks, contract_tasks, TRUSTED_CORE

PROPERTY = "C15"


def tasks(tier):
    return contract_tasks("contracts.adapters", "C15", tier=tier) + other_tasks("contracts.adapters_bounded", "C15", "bounded")


TRUSTED_BASE = TRUSTED_CORE
ASSUMPTIONS = []
NOT_COVERED = []
LEVEL_TEXT = "wip"
DESIGN_REF = "DESIGN.md section 8 (C15)"
LEVEL_NOTE = "wip"
TECHNIQUE = "contract-based deductive verification (adapters' send, version logic of init_and_get_adapter); bounded stand-ins for string parsing and LocalProxy.init"
CLAIMED = False
NA_REASON = "check under construction in this round"
