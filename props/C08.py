"""C08 -- Order-consistent delay arithmetic for grouped (tiered) time."""
from props.common import contract_tasks, lemma_tasks, TRUSTED_CORE

PROPERTY = "C08"


def tasks(tier):
    return contract_tasks("contracts.tiered_time", "C08") + lemma_tasks("contracts.tiered_time", "C08") \
        + contract_tasks("contracts.scenario_min", "C08") + contract_tasks("contracts.connect", "C08")


TRUSTED_BASE = TRUSTED_CORE + [
    "functools.total_ordering derives __le__/__gt__/__ge__ from __lt__ and __eq__ as documented (encoder rule, DESIGN 3.4)",
    "dataclass-generated __eq__ compares (pre_length, cutoff, tiers) field-wise (encoder rule)",
    "induction on the sequence length for lex_first_diff (base and step are discharged; the induction principle itself is meta-level)",
]
ASSUMPTIONS = [
    "Python int is unbounded (no overflow obligations)",
    "tuple comparison is lexicographic with the prefix rule",
    "interpreter not run with -O (assert statements execute)",
    "tier values of times are >= 0 where a lemma says so (nonneg); tiers of delays >= 0 only where stated",
]
NOT_COVERED = [
    "pairs of delays in K_mixed (different cut-offs, equal below the smaller cut-off): recorded known finding F11 -- "
    "the order is proved only outside K_mixed",
]

LEVEL_TEXT = ("Every method of mosaik/tiered_time.py and update_min is verified against a contract for all tier values, "
              "lengths and cut-offs (symbolic lengths, unbounded ints); the order/monotonicity/associativity/action-law "
              "clauses of the property are lemmas over those contracts, all discharged by z3/cvc5. The property's own "
              "quantifier is bounded-exhaustive; the proof has no bound. Outside the recorded finding K_mixed.")
DESIGN_REF = "DESIGN.md section 8 (C08), section 7"
LEVEL_NOTE = ("Trusted: the pyvc encoder's Python semantics (ints, tuples, slices, dataclass eq, total_ordering), "
              "induction principle for the first-difference lemma, z3/cvc5. Known finding F11 (K_mixed) is excluded by hypothesis "
              "and its witnesses are replayed on every run.")
TECHNIQUE = "contract-based deductive verification (AST->z3 VCs on the real functions + lemmas over the contracts)"
