"""C11 -- Connection validation and group scoping."""
from props.common import other_tasks, contract_tasks, lemma_tasks, TRUSTED_CORE

PROPERTY = "C11"


def tasks(tier):
    return (contract_tasks("contracts.world_group", "C11") + contract_tasks("contracts.world_connect", "C11") + contract_tasks("contracts.groups", "C11", tier=tier) + lemma_tasks("contracts.groups", "C11")
            + contract_tasks("contracts.connect", "C11", tier=tier) + other_tasks("contracts.connect_bounded", "C11", "bounded")
            # (what is an input / output of a model: the attribute sets, served under C12)
            + contract_tasks("contracts.in_or_out_set", "C12"))


TRUSTED_BASE = TRUSTED_CORE
ASSUMPTIONS = [
    "entities, model mocks and simulators are objects with the fields connect_one reads; attribute sets are InOrOutSet values (C12's contracts)",
    "containers of SimRunner are modelled as lazily initialised dict / list / set values with a mutation log; the success postcondition compares the log "
    "with the specified set of mutations",
    "the group tree is a finite tree: parent / depth / ancestor are ghost functions with induction lemmas (anc_depth, anc_comp) discharged on every run",
    "World.connect (argument parsing, entity-pair expansion, async_requests branch) calls connect_one per attribute pair; only connect_one, "
    "connect_async_requests, connect_interval, group_path and depth are under contract",
]
NOT_COVERED = ["World.connect's own argument handling (string vs tuple attribute pairs, the entity-level checks before connect_one) is not under contract", "'a rejected attribute pair leaves no data-flow behind' is proved per connect_one call; connect() with several pairs of which a later one is rejected keeps the earlier ones (as the statement allows: per pair)"]
LEVEL_TEXT = 'connect_one raises ScenarioError IFF (source attribute not an output) or (destination attribute not an input) or (time-shifted / weak into a non-trigger input without initial data) or (weak without a common non-root group), and then has changed nothing; on success exactly the specified table entries are written (delay = connect_interval of the two groups, minimum per pair, pulled vs pushed, trigger edge iff trigger input, initial data placement, nothing else). group_path / connect_interval / depth: exact results over the ghost group tree for arbitrary depth; distinct groups are distinct objects (SimGroup identity). Entity creation (ModelMock.create / _make_entities: every entity, also a child of another model, carries the model description of its own type) by a BOUNDED stand-in.'
DESIGN_REF = "DESIGN.md section 8 (C11)"
LEVEL_NOTE = 'Proved for arbitrary group trees and table contents (4 shape variants x all paths of the real connect_one). Trusted: pyvc encoder incl. the lazy-container model, C12 set contracts, z3/cvc5. Fixed through this check: F2 (1eac4d8).'
TECHNIQUE = 'contract-based deductive verification (AST->z3 VCs on the real functions; group tree as ghost functions with induction lemmas; lazily initialised containers with mutation log for connect_one)'
CLAIMED = True
NA_REASON = ""
