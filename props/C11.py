"""C11 -- Connection validation and group scoping."""
from props.common import contract_tasks, lemma_tasks, TRUSTED_CORE

PROPERTY = "C11"


def tasks(tier):
    return (contract_tasks("contracts.groups", "C11", tier=tier) + lemma_tasks("contracts.groups", "C11")
            + contract_tasks("contracts.connect", "C11", tier=tier))


TRUSTED_BASE = TRUSTED_CORE
ASSUMPTIONS = []
NOT_COVERED = []
LEVEL_TEXT = "wip"
DESIGN_REF = "DESIGN.md section 8 (C11)"
LEVEL_NOTE = "wip"
TECHNIQUE = "contract-based deductive verification (AST->z3 VCs on the real functions; group tree as ghost functions with induction lemmas; lazily initialised containers with mutation log for connect_one)"
CLAIMED = False
NA_REASON = "check under construction in this round"
