"""C01 -- scheduler core (work in progress: metadata filled in below)."""
from props.common import other_tasks, contract_tasks, lemma_tasks, TRUSTED_CORE

PROPERTY = "C01"


def tasks(tier):
    return ((contract_tasks("contracts.scheduler", "C01", tier=tier) + contract_tasks("contracts.sim_process", "C01", tier=tier)
            + contract_tasks("contracts.progress", "C01", tier=tier) + lemma_tasks("contracts.progress", "C01")
            + contract_tasks("contracts.connect", "C01", tier=tier))
            + other_tasks("contracts.closure", "C01", "bounded"))


TRUSTED_BASE = TRUSTED_CORE
ASSUMPTIONS = []
NOT_COVERED = []
LEVEL_TEXT = "Ghost assertions C01(a)/(b) at BEGIN (the point where a step's inputs are read) are proved from a global invariant (I0-I5, J', K) that every atomic region of sim_process and its coroutines, advance_progress, schedule_step and notify_dependencies preserve -- for any number of simulators, any topology, any reply values and every interleaving (cut rule at each await)."
DESIGN_REF = "DESIGN.md section 8 (C01)"
LEVEL_NOTE = 'Trusted: pyvc encoder (Python semantics of DESIGN 3.4), the rely/guarantee meta-theorem for cooperative asyncio tasks (DESIGN 6, not mechanised), assumed contracts of asyncio/heapq, time/delay algebra axioms (each with provenance to a C08 obligation), static connection-table facts static_ok/trig_static (assumed here; established by the scenario.py contracts where built), non-real-time mode, z3/cvc5.'
TECHNIQUE = "contract-based deductive verification (AST->z3 VCs on the real functions, global invariant, rely/guarantee at awaits)"
CLAIMED = True
NA_REASON = "check under construction in this round"
