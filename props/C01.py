"""C01 -- scheduler core (work in progress: metadata filled in below)."""
from props.common import other_tasks, contract_tasks, lemma_tasks, TRUSTED_CORE, SCHED_ASSUMPTIONS, CLOSURE_ASSUMPTION

PROPERTY = "C01"


def tasks(tier):
    return (contract_tasks("contracts.runner_init", "C01") + contract_tasks("contracts.world_connect", "C01") + (contract_tasks("contracts.scheduler", "C01", tier=tier) + contract_tasks("contracts.sim_process", "C01", tier=tier)
            + contract_tasks("contracts.progress", "C01", tier=tier) + lemma_tasks("contracts.progress", "C01")
            + contract_tasks("contracts.connect", "C01", tier=tier)
            # (the delay of a connection across group boundaries: group_path / connect_interval, served under C11)
            + contract_tasks("contracts.groups", "C11", tier=tier) + lemma_tasks("contracts.groups", "C11")
            # (tiered time arithmetic: '+' and '<' on times and delays, served under C08)
            + contract_tasks("contracts.tiered_time", "C08") + other_tasks("contracts.connect_bounded", "C01", "bounded"))
            + contract_tasks("contracts.closure_ded", "C01") + lemma_tasks("contracts.closure_ded", "C01") + other_tasks("contracts.closure", "C01", "bounded"))


TRUSTED_BASE = TRUSTED_CORE
ASSUMPTIONS = SCHED_ASSUMPTIONS + [CLOSURE_ASSUMPTION]
NOT_COVERED = ["'finished (step and output retrieval)' is the ghost field in_step / the BG ghost invariant of the model, not an observation of a real run", 'the link between the proved closure contract of cache_triggering_ancestors (abstract delay algebra) and the trig_static facts assumed by the scheduler invariant is argued, not mechanised']
LEVEL_TEXT = "Ghost assertions C01(a)/(b) at BEGIN (the point where a step's inputs are read) are proved from a global invariant (I0-I5, J', K) that every atomic region of sim_process and its coroutines, advance_progress, schedule_step and notify_dependencies preserve -- for any number of simulators, any topology, any reply values and every interleaving (cut rule at each await); connect_one is proved to store the MINIMUM delay per simulator pair, which is what the wait uses. The delay of a connection across group boundaries (group_path, connect_interval) and the arithmetic of tiered times (C08 contracts) are part of this check."
DESIGN_REF = "DESIGN.md section 8 (C01)"
LEVEL_NOTE = 'Proved for any number of simulators, any topology, any reply values and every interleaving, under the listed assumptions (evidence: assumptions, coverage.trusted_base). Trusted: pyvc encoder, the rely/guarantee meta-theorem, assumed contracts of asyncio/heapq, the time/delay algebra axioms (C08 provenance), static connection-table facts, z3/cvc5.'
TECHNIQUE = 'contract-based deductive verification (AST->z3 VCs on the real functions, global invariant, rely/guarantee at awaits)'
CLAIMED = True
NA_REASON = ""
