"""C06 -- Cycle detection is exact."""
from props.common import other_tasks, contract_tasks, lemma_tasks, TRUSTED_CORE

PROPERTY = "C06"


def tasks(tier):
    return (contract_tasks("contracts.world_group", "C06") + contract_tasks("contracts.scenario_min", "C06") + contract_tasks("contracts.connect", "C06", tier=tier)
            + contract_tasks("contracts.groups", "C11", tier=tier) + lemma_tasks("contracts.groups", "C11")
            + contract_tasks("contracts.tiered_time", "C08", names=["IntervalAdd", "IntervalLt"])
            + lemma_tasks("contracts.tiered_time", "C08", names=["CompAssociative", "CompMonotoneRight", "LtTransitive"])
            + contract_tasks("contracts.cycles_ded", "C06") + lemma_tasks("contracts.cycles_ded", "C06") + other_tasks("contracts.closure", "C06", "bounded"))


TRUSTED_BASE = TRUSTED_CORE
ASSUMPTIONS = [
    "ensure_no_dataflow_cycles (contract contracts.cycles_ded): simulators and delays are uninterpreted sorts, delays with a total preorder and a composition "
    "monotone in its right argument (C08 lemmas trichotomy, lt_transitive, comp_monotone_right); all(t == 0 for t in delay.tiers) is the uninterpreted predicate "
    "is_zero; dicts and sets are walked in an arbitrary order, each key once; set.pop() returns an arbitrary member; the path lists recorded for the message are "
    "abstracted; the induction over connection paths (lemmas cycle_min_base / cycle_min_step) is applied outside the solver; termination not proved",
    "the step from 'the shortest cycle through s has delay zero' to the property's rule (no time-shifted connection and no weak connection inside its group on "
    "some cycle) is arithmetic of TieredInterval that is NOT mechanised: it is checked by the bounded stand-in, which applies the rule literally",
    "delays outside K_mixed (known findings F11 / F6)",
]
NOT_COVERED = ['the translation between a zero shortest-cycle delay and the rule of the statement (time-shifted / weak inside the shared group), and that the cycle NAMED in the message is real, beyond the bound of the stand-in', 'scenarios with two paths whose accumulated delays are incomparable (K_mixed): known finding F6, the closure dies with AssertionError']
LEVEL_TEXT = "Building blocks proved for all inputs: update_min (keeps the minimum, None iff no improvement), delay composition (associative, monotone) and order (transitive, exactly one of <, =, >) on mosaik/tiered_time.py outside K_mixed, connect_one's per-pair minimum. The closure ensure_no_dataflow_cycles itself (contract, any number of simulators and connections, any walking order): every recorded entry is the delay of a connection path (SOUND) and is not above the delay of ANY connection path (DIRECT + CLOSED loop invariants, two path-induction lemmas), and ScenarioError is raised IFF some simulator reaches itself with delay zero. The translation to the rule of the statement and the named cycle: BOUNDED stand-in -- every set of up to 3 (thorough: 4) connections over four group shapes, against the property's rule (unresolved cycle iff rejected, named cycle is real)."
DESIGN_REF = "DESIGN.md section 8 (C06)"
LEVEL_NOTE = 'Mixed: lemmas and function contracts are proofs; the closure and the reject-iff-zero-cycle decision are proved, the translation of a zero delay into the rule of the statement is bounded (coverage.bounded). Known finding F6; fixed through this check: F13 (d15a998), F1 (fe85a87).'
TECHNIQUE = "contract-based deductive verification of the building blocks (update_min, delay composition and order, connect_one's minimum) and of the worklist closure ensure_no_dataflow_cycles (loop invariants + path-induction lemmas); bounded stand-in for the rule translation"
CLAIMED = True
NA_REASON = ""
