"""C06 -- Cycle detection is exact."""
from props.common import other_tasks, contract_tasks, lemma_tasks, TRUSTED_CORE

PROPERTY = "C06"


def tasks(tier):
    return (contract_tasks("contracts.scenario_min", "C06") + contract_tasks("contracts.connect", "C06", tier=tier)
            + contract_tasks("contracts.tiered_time", "C08", names=["IntervalAdd", "IntervalLt"])
            + lemma_tasks("contracts.tiered_time", "C08", names=["CompAssociative", "CompMonotoneRight", "LtTransitive"])
            + other_tasks("contracts.closure", "C06", "bounded"))


TRUSTED_BASE = TRUSTED_CORE
ASSUMPTIONS = []
NOT_COVERED = []
LEVEL_TEXT = "wip"
DESIGN_REF = "DESIGN.md section 8 (C06)"
LEVEL_NOTE = "wip"
TECHNIQUE = "contract-based deductive verification of the building blocks (update_min, delay composition and order, connect_one's minimum); the worklist closure itself by a bounded stand-in"
CLAIMED = False
NA_REASON = "check under construction in this round"
