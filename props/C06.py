"""C06 -- Cycle detection is exact."""
from props.common import other_tasks, contract_tasks, lemma_tasks, TRUSTED_CORE

PROPERTY = "C06"


def tasks(tier):
    return (contract_tasks("contracts.scenario_min", "C06") + contract_tasks("contracts.connect", "C06", tier=tier)
            + contract_tasks("contracts.groups", "C11", tier=tier) + lemma_tasks("contracts.groups", "C11")
            + contract_tasks("contracts.tiered_time", "C08", names=["IntervalAdd", "IntervalLt"])
            + lemma_tasks("contracts.tiered_time", "C08", names=["CompAssociative", "CompMonotoneRight", "LtTransitive"])
            + other_tasks("contracts.closure", "C06", "bounded"))


TRUSTED_BASE = TRUSTED_CORE
ASSUMPTIONS = [
    "the worklist closure of ensure_no_dataflow_cycles / cache_triggering_ancestors (nested loops over mutable dicts of dicts with a dirty set) is "
    "outside the deductive subset: it is run natively on every scenario of a stated bounded family and compared with the property's own rule",
    "delays outside K_mixed (known findings F11 / F6)",
]
NOT_COVERED = ['exactness of the cycle check for scenarios beyond the bound of the stand-in (more simulators / connections, deeper groups): not proved', 'scenarios with two paths whose accumulated delays are incomparable (K_mixed): known finding F6, the closure dies with AssertionError']
LEVEL_TEXT = "Building blocks proved for all inputs: update_min (keeps the minimum, None iff no improvement), delay composition (associative, monotone) and order (transitive, exactly one of <, =, >) on mosaik/tiered_time.py outside K_mixed, connect_one's per-pair minimum. The closure and the accept / reject decision themselves: BOUNDED stand-in -- every set of up to 3 (thorough: 4) connections over four group shapes, against the property's rule (unresolved cycle iff rejected, named cycle is real)."
DESIGN_REF = "DESIGN.md section 8 (C06)"
LEVEL_NOTE = 'Mixed: lemmas and function contracts are proofs; the exactness statement itself is bounded (coverage.bounded). Known finding F6; fixed through this check: F13 (d15a998), F1 (fe85a87).'
TECHNIQUE = "contract-based deductive verification of the building blocks (update_min, delay composition and order, connect_one's minimum); the worklist closure itself by a bounded stand-in"
CLAIMED = True
NA_REASON = ""
