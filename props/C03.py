"""C03 -- Data-flow fidelity of step inputs."""
from props.common import other_tasks, contract_tasks, lemma_tasks, TRUSTED_CORE, SCHED_ASSUMPTIONS

PROPERTY = "C03"


def tasks(tier):
    return (contract_tasks("contracts.merge_ded", "C03") + contract_tasks("contracts.world_connect", "C03") + contract_tasks("contracts.dataplane", "C03", tier=tier) + contract_tasks("contracts.connect", "C03", tier=tier)
            + contract_tasks("contracts.sim_process", "C03", tier=tier, names=["GetOutputs"])
            + other_tasks("contracts.dataplane_bounded", "C03", "bounded") + other_tasks("contracts.determinism_bounded", "C03", "bounded")
            + other_tasks("contracts.connect_bounded", "C03", "bounded")
            + contract_tasks("contracts.tiered_time", "C08"))


TRUSTED_BASE = TRUSTED_CORE
ASSUMPTIONS = SCHED_ASSUMPTIONS + [
    "cache entries (SimRunner.outputs) are inserted in increasing output-time order (dict order = time order): get_output_for and prune rely on it; "
    "it follows from C02/K (steps in increasing order) and the output-time check of get_outputs, not re-proved here",
    "merge_all / merge_existing (contracts.merge_ded): one dict level with an arbitrary merger, keys / values uninterpreted, dicts walked in arbitrary order each key once; their three-level composition in get_input_data (lambdas, aliasing between persistent_inputs and the step inputs) is checked by a bounded stand-in with a stated bound, never counted as proved",
]
NOT_COVERED = ["the whole-run statement 'the inputs passed to a step at t are exactly ...' is decomposed, not proved end to end: cache and buffer functions against their specifications, get_outputs storing / pushing under the right times, prune keeping what a pull can still return, connect_one building the tables; the composition with C01 (inputs complete at BEGIN) is argued in DESIGN", 'get_input_data itself: bounded stand-in only']
LEVEL_TEXT = "Contracts on the real get_output_for (newest entry not newer than t, {} if none), TimedInputBuffer.get_input (exactly the buffered values due at or before t, each removed once, later ones kept), prune_dataflow_cache (every future pull of every consumer is answered as before -- the retention clause taken from the property), the data clauses of get_outputs (cached under the output time, pushed with the connection's delay) and connect_one (pulled iff persistent and cached, else pushed; initial data placement; minimum delay); get_input_data by a bounded stand-in. End to end (BOUNDED, not a proof): the (time, inputs) sequences of real runs of the ungrouped scenarios of the harness (count in coverage.bounded[].bound) equal those of a sequential reference semantics written from the statements of C02/C03. TimedInputBuffer over sequences of add / get_input and entity creation by BOUNDED stand-ins."
DESIGN_REF = "DESIGN.md section 8 (C03)"
LEVEL_NOTE = 'Proved per function for arbitrary cache / buffer contents and any number of simulators; the merging primitives merge_all / merge_existing proved, their composition in get_input_data only bounded. Trusted: pyvc encoder, cache order assumption, z3/cvc5. Fixed through this check: F4 (c11a443), F5 (2fee19a).'
TECHNIQUE = 'contract-based deductive verification (AST->z3 VCs on get_output_for, TimedInputBuffer.get_input, prune_dataflow_cache, get_outputs, connect_one, merge_all, merge_existing, World.connect); the composition in get_input_data by a bounded stand-in'
CLAIMED = True
NA_REASON = ""
