"""C03 -- Data-flow fidelity of step inputs."""
from props.common import other_tasks, contract_tasks, lemma_tasks, TRUSTED_CORE

PROPERTY = "C03"


def tasks(tier):
    return (contract_tasks("contracts.dataplane", "C03", tier=tier) + contract_tasks("contracts.connect", "C03", tier=tier)
            + contract_tasks("contracts.sim_process", "C03", tier=tier, names=["GetOutputs"])
            + other_tasks("contracts.dataplane_bounded", "C03", "bounded"))


TRUSTED_BASE = TRUSTED_CORE
ASSUMPTIONS = []
NOT_COVERED = []
LEVEL_TEXT = "wip"
DESIGN_REF = "DESIGN.md section 8 (C03)"
LEVEL_NOTE = "wip"
TECHNIQUE = "contract-based deductive verification (AST->z3 VCs on get_output_for, TimedInputBuffer.get_input, prune_dataflow_cache, get_outputs, connect_one); get_input_data by a bounded stand-in"
CLAIMED = False
NA_REASON = "check under construction in this round"
