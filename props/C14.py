"""C14 -- Fault containment and clean shutdown (control-flow slice)."""
from props.common import other_tasks, contract_tasks, lemma_tasks, TRUSTED_CORE

PROPERTY = "C14"


def tasks(tier):
    return contract_tasks("contracts.shutdown", "C14", tier=tier) + contract_tasks("contracts.run_prelude", "C14", tier=tier) \
        + contract_tasks("contracts.sim_process", "C14", tier=tier, names=["SimProcess"]) \
        + other_tasks("contracts.faults_bounded", "C14", "bounded")


TRUSTED_BASE = TRUSTED_CORE
ASSUMPTIONS = ["the event loop, asyncio.gather/all_tasks/wait_for, tqdm, loguru, the mosaik_api_v3 Channel and the users' simulators are "
               "external: calls to them are recorded as ghost events; loop.run_until_complete(job) returns or raises (every listed outcome "
               "is a path); awaiting gather(*tasks, return_exceptions=True) ends once every listed task has ended; a cancelled task ends",
               "a simulator's stop() raises at most Exception subclasses (KeyboardInterrupt during shutdown is not contained)",
               "the request-handler task of a RemoteProxy ends only at end-of-requests, which this side can force only by closing the channel "
               "(Channel.close wakes the reader with EOF): awaiting it before close() may wait forever -- the contract demands close first",
               "assumed contract of the external proxy in sim_process: send() returns a reply or raises ConnectionError (any subclass)"]
NOT_COVERED = ["OS-level clean-up: child processes of 'cmd' simulators are not waited for or killed by World.shutdown (outside any function "
               "contract: subprocess handles live in simmanager.start_proc and are dropped); sockets are closed through Channel.close (external)",
               "'promptly': no bound on elapsed time is proved; only that no await at shutdown can wait forever under the assumed contracts",
               "faults during World.start()/init (before run) and a simulator that closes the connection with EOF (IncompleteReadError, not a "
               "ConnectionError) reach the caller unmapped: an error as the statement asks, but not a SimulationError",
               "crash points are covered per await site of sim_process/step/get_outputs (every external call may raise), not as a whole-run "
               "enumeration of request indices"]
LEVEL_TEXT = ("Control-flow contracts on the real World.run (shutdown exactly once after scheduler.run on every outcome; KeyboardInterrupt and "
              "RemoteException reported and swallowed, every other error reaches the caller), World.shutdown (every simulator stopped exactly once "
              "even when earlier stop()s fail, leftover tasks cancelled and awaited, loop stopped/drained/closed, first error re-raised; loop "
              "invariants over an arbitrary number of simulators / tasks), SimRunner.stop, Adapter.stop, LocalProxy.stop, RemoteProxy.stop (order "
              "of send/close/await), scheduler.run (errors of setup_done and of the processes reach the caller through gather) and sim_process "
              "(a lost connection becomes a SimulationError naming the simulator; no other exception site reachable)."
              " End to end (BOUNDED fault enumeration, not a proof): the real World.run with in-process simulators and one injected fault per run -- "
              "every simulator x setup_done / k-th step / k-th get_data x (raises | connection reset) over 4 (6) scenarios: run() ends with an error, "
              "every other simulator is finalized exactly once, the loop is closed, nothing is left pending.")
DESIGN_REF = "DESIGN.md section 8 (C14)"
LEVEL_NOTE = ("Proved for the control flow of the listed functions under assumed contracts of asyncio / the channel / user simulators; process "
              "and socket clean-up at OS level and promptness are not covered (coverage.not_covered). Two genuine defects found and fixed: "
              "F10 (464c386) and F14 (f8896b3).")
TECHNIQUE = "contract-based deductive verification (AST->z3 VCs on the real functions; external calls as ghost events; abstract-collection loop rule)"
CLAIMED = True
NA_REASON = ""
