"""C12 -- Attribute classification from model descriptions."""
from props.common import other_tasks, contract_tasks, TRUSTED_CORE

PROPERTY = "C12"


def tasks(tier):
    return contract_tasks("contracts.in_or_out_set", "C12") + other_tasks("contracts.connect_bounded", "C12", "bounded")


TRUSTED_BASE = TRUSTED_CORE + [
    "Python's binary-operator dispatch with reflected operators and NotImplemented for frozenset (op) OutSet (encoder rule)",
    "frozenset built-ins | & - == in (encoded as characteristic arrays with z3's array map combinators)",
]
ASSUMPTIONS = [
    "the universe of attribute names is infinite and every listed set is finite (one witness element outside all input sets)",
    "model descriptions are dicts whose relevant keys are any_inputs, attrs, trigger, non-trigger, persistent, non-persistent; "
    "listed values are iterables of hashable attribute names",
    "callees inside mosaik/in_or_out_set.py are inlined when parse_attrs / parse_set_triple are verified (they are also verified "
    "separately against their own contracts)",
    "ModelMock.__init__ storing the four sets and world.start() calling it are not under contract (straight-line assignment)",
]
NOT_COVERED = []
LEVEL_TEXT = ("parse_attrs, parse_set_triple, wrap_set and every OutSet operator of the real code are verified against "
              "extensional (for-all-elements) contracts for arbitrary finite/co-finite sets, every presence pattern of the "
              "description keys and all three simulator types; the specification of parse_attrs is written from the property "
              "statement and the documentation at the level of membership predicates, including the exact rejection condition.")
DESIGN_REF = "DESIGN.md section 8 (C12)"
LEVEL_NOTE = ("Trusted: pyvc encoder (operator dispatch, frozenset semantics, dict.get / in on the description), infinite attribute "
              "universe, z3/cvc5.")
TECHNIQUE = "contract-based deductive verification (AST->z3 VCs on the real functions; extensional set contracts)"
