"""C02 -- scheduler core (work in progress: metadata filled in below)."""
from props.common import other_tasks, contract_tasks, lemma_tasks, TRUSTED_CORE, SCHED_ASSUMPTIONS, CLOSURE_ASSUMPTION

PROPERTY = "C02"


def tasks(tier):
    return (contract_tasks("contracts.runner_init", "C02") + contract_tasks("contracts.world_connect", "C02") + (contract_tasks("contracts.scheduler", "C02", tier=tier) + contract_tasks("contracts.sim_process", "C02", tier=tier)
            + contract_tasks("contracts.progress", "C02", tier=tier) + lemma_tasks("contracts.progress", "C02"))
            # (which outputs trigger whom, with which delay: the tables connect_one builds, served under C11)
            + contract_tasks("contracts.connect", "C11", tier=tier)
            + contract_tasks("contracts.closure_ded", "C02") + lemma_tasks("contracts.closure_ded", "C02") + other_tasks("contracts.closure", "C02", "bounded") + other_tasks("contracts.determinism_bounded", "C02", "bounded")
            + other_tasks("contracts.connect_bounded", "C02", "bounded")
            + contract_tasks("contracts.tiered_time", "C08"))


TRUSTED_BASE = TRUSTED_CORE
ASSUMPTIONS = SCHED_ASSUMPTIONS + [CLOSURE_ASSUMPTION]
NOT_COVERED = ["'exactly once' is proved as: a demanded time is in next_steps at most once (I5), is removed only by the step at that time, and none before until is left at normal termination; that the run terminates is the liveness half of C05 (not decided)", 'initial demands (time 0 unless event-based: SimRunner.__init__; initial events: World.set_initial_event, which replaces the initial demand) are under contract (contracts.runner_init); that World.start hands the right depth to SimRunner is covered by the bounded group-scoping stand-in of C11 only']
LEVEL_TEXT = 'Exact step set: demands are justified at every schedule_step call (only the documented reasons), dedup and strict increase are invariant clauses (I5, K), range 0 <= t < until is asserted at BEGIN, nothing demanded before until is left at normal termination (postcondition of sim_process). End to end (BOUNDED, not a proof): the step times of real runs of the ungrouped scenarios of the harness (count in coverage.bounded[].bound) equal those of a sequential reference semantics written from the statement. Entity creation (a child entity carries the model of its own type: trigger classification) by a BOUNDED stand-in.'
DESIGN_REF = "DESIGN.md section 8 (C02)"
LEVEL_NOTE = 'Proved for any number of simulators, any topology, any reply values and every interleaving, under the listed assumptions (evidence: assumptions, coverage.trusted_base). Trusted: pyvc encoder, the rely/guarantee meta-theorem, assumed contracts of asyncio/heapq, the time/delay algebra axioms (C08 provenance), static connection-table facts, z3/cvc5.'
TECHNIQUE = 'contract-based deductive verification (AST->z3 VCs on the real functions, global invariant, rely/guarantee at awaits)'
CLAIMED = True
NA_REASON = ""
