"""C18 -- Bulk connection helpers distribute connections as documented."""
from props.common import other_tasks, contract_tasks, lemma_tasks, TRUSTED_CORE

PROPERTY = "C18"
LEVEL = "proof"


def tasks(tier):
    return (contract_tasks("contracts.util", "C18", tier=tier) + lemma_tasks("contracts.util", "C18")
            + other_tasks("contracts.util_bounded", "C18", "bounded"))


TRUSTED_BASE = TRUSTED_CORE
ASSUMPTIONS = [
    "assumed contracts of the standard library: random.randint(a, b) raises ValueError iff a > b and otherwise returns an int in [a, b]; "
    "random.shuffle permutes the list in place (a duplicate-free list stays duplicate-free with the same members and length); "
    "list.remove(x) removes the first element equal to x (ValueError if none); set.add / dict.get / dict item access as in Python",
    "entities are terms of an uninterpreted sort, == / hash on entities is identity (mosaik.scenario.Entity defines neither __eq__ nor "
    "__hash__; entity equality itself is only exercised by the bounded stand-in with real Entity objects)",
    "the destination 'set' is duplicate-free (precondition wf of the contracts); sources may repeat (one connection per position)",
    "World.connect is external here (decided under C11): every call is recorded in a ghost log with a ghost counter per destination that is "
    "updated together with the log; an exception raised by World.connect would propagate and is not modelled",
    "max_connects is an int or float('inf') (n * inf = inf for n >= 1; int >= inf is False)",
    "the sum Cap over the destinations is introduced by its recursive definition; the principle of induction that turns the discharged base and "
    "step lemmas (Cap_zero / Cap_update / Cap_full) into the universally quantified facts whose instances are used is applied outside the solver",
    "partial correctness: termination of _connect_evenly's while loop (pos grows by len(dest_set) >= 1) is not proved",
]
NOT_COVERED = ["iterables other than lists for src_set / dest_set (tuples, generators) are exercised only by the bounded stand-in",
               "World.connect raising in the middle of a bulk connection"]
LEVEL_TEXT = ("Contracts on the real connect_many_to_one, _connect_randomly, _connect_evenly and connect_randomly for ANY number of sources and "
              "destinations, any max_connects (int or inf) and EVERY outcome of random.randint / random.shuffle: loop invariants over a ghost log of "
              "the World.connect calls and a ghost counter per destination give -- every source is connected exactly once (in order) to a member of "
              "the destination set with the caller's attribute pairs passed on; evenly: the counts of any two destinations differ by at most one "
              "(counts of the destinations before position k of the current permutation are one ahead); not evenly: no count exceeds max_connects, "
              "and random.randint is never asked for an empty range while a source is left (capacity argument over the sum Cap, proved by induction "
              "lemmas); the returned set is exactly the set of destinations with a positive count; AssertionError iff the destination set is empty "
              "or the capacity does not suffice; the caller's destination list is untouched (connect_randomly verified against its callees' "
              "contracts). The exhaustive small-scope stand-in (real Entity objects, other iterables) is kept next to it, labelled bounded.")
DESIGN_REF = "DESIGN.md section 8 (C18), section 13.9"
LEVEL_NOTE = ("Proved per function for all sizes and all random outcomes under the listed assumptions (assumed contracts of random / list / set / dict, "
              "identity equality of entities, World.connect external). Trusted: pyvc encoder, z3/cvc5.")
TECHNIQUE = ("contract-based deductive verification (AST->z3 VCs on the real functions of mosaik/util.py, loop invariants with ghost call log and "
             "counters, induction lemmas for the capacity sum); bounded exhaustive stand-in alongside")
RULE = ("one case = one (source count, destination count, mode, max_connects, complete sequence of random outcomes); all cases up to the bound are "
        "enumerated, hence distinct; a case is non-trivial if at least one source has to be connected")
