"""C18 -- Bulk connection helpers distribute connections as documented."""
from props.common import other_tasks, TRUSTED_CORE

PROPERTY = "C18"
LEVEL = "exploration"


def tasks(tier):
    return other_tasks("contracts.util_bounded", "C18", "bounded")


TRUSTED_BASE = []
ASSUMPTIONS = ["random.randint(a, b) returns an int in [a, b]; random.shuffle permutes the list in place (all outcomes are enumerated)",
               "entities are hashable, distinct destinations are distinct objects"]
NOT_COVERED = ["sizes beyond the stated bound: the counting argument (capacity left >= sources left; evenness over rounds) needs "
               "cardinality reasoning that the self-written VC generator does not provide -- no deductive contract is claimed for C18"]
LEVEL_TEXT = ("BOUNDED stand-in only (not a proof): connect_randomly / _connect_evenly / _connect_randomly / connect_many_to_one of the real "
              "module are run for every source/destination count up to the bound and for EVERY outcome of random.randint / random.shuffle "
              "against the property statement (each source exactly once, evenness, max_connects, returned set, arguments passed on, "
              "caller's list untouched).")
DESIGN_REF = "DESIGN.md section 8 (C18), section 12"
LEVEL_NOTE = "Bound stated in the evidence (coverage.bounded[].bound). Nothing is counted as proved for C18."
TECHNIQUE = "bounded stand-in for the functions (exhaustive small scope incl. all random outcomes); deductive route not reached"
RULE = ("one case = one (source count, destination count, mode, max_connects, complete sequence of random outcomes); all cases up to the bound are "
        "enumerated, hence distinct; a case is non-trivial if at least one source has to be connected")
